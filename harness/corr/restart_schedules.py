"""Restart schedules on the REAL code: property monitors for C06 / C07 (no model involved); for C10 only the
`members` family and random schedules with membership changes run, and only the two member-set signatures are
reported (membership across restarts of journaled nodes — C10's own components never restart a node).

Real journaled `SyncObj` voters (journal only, and journal + dump file; `useFork` False; tiny batch
sizes) run under harness/sim.py.  Nodes are killed (`sim.kill`: the object is abandoned, nothing is
flushed or closed) and restarted on their files
  * BETWEEN any two simulator events — seeded random schedules, and directed base schedules replayed
    once per (position, victim set): single follower, the leader, a voter between granting its vote and
    the end of that election, a majority, ALL nodes, repeatedly;
  * right AFTER a message was handed to the transport inside a handler (`*_k` events: the rest of the
    handler never runs, the message is out) — every (event, n-th send) of the directed base schedules.
Kills between two storage writes inside a step: harness/corr/restart_crashpoints.py.

Monitors (written against the property statements, evaluated after EVERY event):
 C06  * every entry a node acknowledged on the wire (`next_node_idx`, success) or knew committed, and
        still held when it was killed, is in its journal after the restart, and after the first tick
        (dump load) it is in the journal or covered by the loaded dump   restart:acknowledged-entries-lost
      * after the first tick: applied state reaches the committed prefix the node knows; no gap between
        the applied position and the journal head   restart:state-not-replay-of-committed-prefix,
        restart:journal-only-compaction-wedges (D17: gap and no dump file configured)
      * object state == execution of the common command sequence up to lastApplied (monitors.StepMonitors:
        sm-safety:*), no position executed twice within one process generation
        restart:position-executed-twice-in-generation
      * the restart never claims more committed than the node knew   restart:commit-index-beyond-known
      * an entry once known committed never changes on any node   restart:committed-entry-changed
      * (C04) once a restarted node is back, every position reported committed is still stored by a majority of
        the voters (log or applied snapshot; dead nodes count with what they held when killed)
        restart:committed-entry-not-majority-backed
      * every callback that reported SUCCESS: command executed at exactly one position (callback:*), and
        after the final heal every node's state contains it   restart:success-lost
      * the constructor / first tick never raise   restart:recovery-raises:<Exc>
      * with `dynamicMembershipChange` (family `members`): after the first tick `otherNodes` == the membership
        commands of the journal after the dump position folded over the dump's member list (the configured list
        without a dump)   restart:members-not-fold-of-journal-over-dump; at quiescence all member sets agree
        restart:member-sets-differ-at-quiescence
      * (finding D60) the reply to a command forwarded by an EARLIER run of a node is not taken as the reply
        to a command of its current run   restart:forward-reply-of-earlier-run-matched-to-new-request
 C07  * per (voter, term) at most one destination of `response_vote` (own candidacy = vote for itself)
        across restarts   restart:vote-granted-twice-in-term (election:… when no restart in between)
      * `raftCurrentTerm` after a restart >= before, and never decreases   restart:term-moved-backwards
      * no two leaders per term   election:two-leaders-in-term (restart:two-leaders-in-term when one of
        them, or a voter, was restarted during that term)
      * a node never accepts `append_entries` / grants a `request_vote` of a term older than one it had
        adopted before   restart:older-term-append-accepted, restart:older-term-vote-granted

Private attributes read: `_SyncObj__raftLog` (through sim.log_of), `_SyncObj__votedForNodeId` (coverage
only), `_SyncObj__commandsWaitingReply` (is a request with the id of an incoming stale reply pending).  Written: none.  `sim._send` is shadowed by an instance attribute of the runner's own Sim (counts
the messages of one step: kill right after the n-th send for `*_k` events; abandon the schedule when one
step hands over more than FLOOD_LIMIT messages).
"""
import collections
import hashlib
import json
import multiprocessing
import os
import random as _random
import shutil
import tempfile
import time

from harness import monitors
from harness.sim import Sim

PROPERTIES = ["C04", "C06", "C07", "C10", "C18"]
ORDER = 60

IDS = ["a", "b", "c", "d", "e"]
HERE = os.path.dirname(os.path.abspath(__file__))
CORPUS = os.path.join(os.path.dirname(os.path.dirname(HERE)), "corpus", "restart")

C07_SIGS = ("restart:vote-granted-twice-in-term", "election:vote-granted-twice-in-term",
            "restart:term-moved-backwards", "election:two-leaders-in-term", "restart:two-leaders-in-term",
            "restart:older-term-append-accepted", "restart:older-term-vote-granted",
            "election:older-term-append-accepted", "election:older-term-vote-granted")


C04_SIGS = ("restart:committed-entry-changed", "restart:committed-entry-not-majority-backed",
            "restart:commit-index-beyond-known", "commit:index-moved-backwards", "commit:applied-moved-backwards")
C10_SIGS = ("restart:members-not-fold-of-journal-over-dump", "restart:member-sets-differ-at-quiescence")


C18_SIGS = ("restart:readonly-node-does-not-converge", "restart:readonly-members-not-log-defined")


def for_property(pid, sig):
    """Which property a signature belongs to (both components report under the property being checked).
    C10 (membership across restarts): ONLY the member-set signatures, whatever else a schedule trips."""
    if pid == "C10":
        return sig in C10_SIGS
    if pid == "C18":
        return sig in C18_SIGS
    if pid == "C04":
        return sig in C04_SIGS       # commit statements only: a lost vote or a lost uncommitted entry is not C04's
    is7 = sig in C07_SIGS
    if pid == "C07":
        return is7 or sig.startswith("restart:recovery-raises") or sig.startswith("exception-escaped")
    return not is7


def dump_members(sim, dump_path):
    """(member ids of the dump's cluster list, log position of the dump) or None when there is no readable dump"""
    import gzip
    if not dump_path or not os.path.isfile(dump_path):
        return None
    try:
        with open(dump_path, "rb") as f:
            with gzip.GzipFile(fileobj=f) as g:
                data = sim.so.pickle.load(g)
        return (set(getattr(n, "id", n) for n in data[3]) - {None}, data[1][1])
    except Exception:
        return None


def membership_entries(sim, obj):
    """[(index, term, 'add'|'rem', node id)] of the membership commands in the node's journal"""
    MEM = bytes([sim.so._COMMAND_TYPE.MEMBERSHIP])
    out = []
    for (cmd, idx, term) in obj._SyncObj__raftLog[:]:
        if isinstance(cmd, bytes) and cmd[:1] == MEM:
            req = sim.so.pickle.loads(cmd[1:])
            out.append((idx, term, req[0], req[1]))
    return out


def members_mismatch(sim, obj, i, V, dump):
    """C06 with dynamicMembershipChange: after the first tick `otherNodes` is the dump's member list (the configured
    one without a dump) with the membership commands of the journal AFTER the dump position carried out in order.
    Returns a description of the difference or None."""
    MEM = sim.so._COMMAND_TYPE.MEMBERSHIP
    if dump is None:
        members, pos = set(V), 0
    else:
        members, pos = set(dump[0]), dump[1]
    members.discard(i)
    cmds = []
    for (cmd, idx, term) in obj._SyncObj__raftLog[:]:
        if idx <= pos or not isinstance(cmd, bytes) or cmd[:1] != bytes([MEM]):
            continue
        req = sim.so.pickle.loads(cmd[1:])
        cmds.append((idx, req[0], req[1]))
        if req[1] == i:
            continue
        if req[0] == "add":
            members.add(req[1])
        elif req[0] == "rem":
            members.discard(req[1])
    have = set(n.id for n in obj.otherNodes)
    if have != members:
        return ("otherNodes of node %s after the restart: %s; the %s member list %s with the membership commands of its journal "
                "after position %d %s gives %s" % (i, sorted(have), "dump's" if dump else "configured",
                                                   sorted((dump[0] if dump else set(V)) - {i}), pos, cmds, sorted(members)))
    return None


# the property being checked (set by run/search/replay before any schedule runs; worker processes inherit it):
# a violation that belongs to another property does not stop a schedule and is only counted
CURRENT_PID = None


class Killed(BaseException):
    """the process dies right after handing its n-th message of this step to the transport"""


class Flood(BaseException):
    """one handler call handed more than FLOOD_LIMIT messages to the transport: with the simulator's clock
    frozen inside a step this is a loop of the real code that only the wall clock would end (seen: the leader
    re-sends `serialized: None` to a follower that needs a snapshot while the serializer is busy, until
    appendEntriesPeriod has passed).  A progress matter, not C06/C07: the schedule is abandoned and counted."""


FLOOD_LIMIT = 20000


# ------------------------------------------------------------------------------------------------------
# runner: applies atomic events to a Sim and evaluates the monitors after each of them
# ------------------------------------------------------------------------------------------------------
class Runner(object):
    def __init__(self, repo, spec, tmpdir):
        """spec = {"n": 2..5, "dump": bool, "conf": {...}, "seed": int}"""
        self.repo = repo
        self.spec = spec
        self.V = IDS[:spec["n"]]
        self.dir = tempfile.mkdtemp(prefix="rs-", dir=tmpdir)
        conf = {"useFork": False}
        conf.update(spec.get("conf") or {})
        self.O = ["o"] if spec.get("observer") else []          # a read-only node with its own dump file, no journal
        self.sim = Sim(repo, self.V, observers=self.O, conf=conf, seed=spec.get("seed", 0), journal_dir=self.dir,
                       dump=bool(spec.get("dump")),
                       per_node_conf={o: {"fullDumpFile": os.path.join(self.dir, "%s.dump" % o)} for o in self.O})
        self.ctor = {}                                         # node -> partner list of its last (re)start, if not the default
        self.has_dump_conf = bool(spec.get("dump"))
        self.members = bool(conf.get("dynamicMembershipChange"))
        self.commit_confs = {}                         # index -> candidate member sets in force when first reported committed
        self.prev_log = {}                             # node -> (generation, {index: term}) after the previous event
        self.held_at_restart = []                      # (node, index, term) of membership entries in a restarted node's journal
        self.mon = monitors.StepMonitors(self.sim)
        self.events = []
        self.viol = []
        self.sigs = set()
        self.cov = collections.Counter()
        # trackers
        self.n_sent = 0
        self.n_err = 0
        self.ack_hi = collections.Counter()            # node -> highest index acknowledged on the wire
        self.votes = {}                                # (voter, term) -> {dest: generation of the voter}
        self.maxterm = collections.Counter()           # node -> highest term ever adopted
        self.last = {}                                 # node -> (gen, commit, applied)
        self.before = {}                               # node -> state captured at the kill
        self.fresh = {}                                # node -> info for the first tick after a restart
        self.wedged = set()
        self.exec_from = collections.Counter()         # node -> processed length of sim.execs[node]
        self.exec_last = {}                            # node -> (gen, last position executed in that generation)
        self.committed = {}                            # index -> (term, cmd)
        self.ckey = {}
        self.restarted_in_term = collections.defaultdict(set)   # term -> nodes restarted while in that term
        self.sends_of_event = []                       # per applied event: number of messages it handed over
        # forwarded commands: request ids are per process and start again at 1 after a restart (finding D60)
        self.fwd = collections.defaultdict(list)       # (requester, request_id) -> [[generation, dest, answered], ...]
        self.reply_gen = {}                            # id(reply message) -> generation of the requester it answers
        self.tainted = set()                           # commands whose callback got the reply of an older request
        self.aborted = False
        self._n_send = 0
        self._arm = None                               # [node, nth, count]: kill right after that node's nth send
        self.sim._send = self._send_hook

    def _send_hook(self, a, b, msg):
        sim = self.sim
        r = type(sim)._send(sim, a, b, msg)
        self._n_send += 1
        if self._n_send > FLOOD_LIMIT:
            raise Flood()
        arm = self._arm
        if arm is not None and a == arm[0] and r:
            arm[2] += 1
            if arm[2] == arm[1]:
                raise Killed()
        return r

    # -- helpers -------------------------------------------------------------------------------------
    def close(self):
        shutil.rmtree(self.dir, ignore_errors=True)

    def live(self, i):
        return i in self.sim.objs

    def V_live(self):
        return [i for i in self.V if i in self.sim.objs]

    def flag(self, sig, what):
        if CURRENT_PID is not None and not for_property(CURRENT_PID, sig):
            self.cov["other-property-violation:" + sig] += 1
            return
        if sig in self.sigs and len(self.viol) > 12:
            return
        self.sigs.add(sig)
        self.viol.append({"signature": sig, "what": what, "event_no": len(self.events)})

    def term(self, i):
        return self.sim.objs[i].raftCurrentTerm

    # -- the events ----------------------------------------------------------------------------------
    def ev(self, *e):
        """apply one atomic event (skipped when it cannot happen in the current state); monitors run after it"""
        if self.aborted:
            return False
        if e[0] in ("rounds", "deliver_all"):
            # adaptive composites (used in the scripted tail of a base schedule so that a variant that diverged from
            # the recording still delivers what is in flight): they expand into atomic events, which are what is recorded
            among = list(e[-1]) if e[-1] else None
            if e[0] == "rounds":
                self.rounds(e[1], among=among)
            else:
                self.deliver_all(among=set(among) if among else None)
            return True
        self._n_send = 0
        try:
            return self._ev(list(e))
        except Flood:
            self.sim.cur = None
            self._arm = None
            self.aborted = True
            self.cov["aborted:send-flood-in-one-step"] += 1
            for q in self.sim.chan.values():
                q.clear()
            del self.sim.sent[self.n_sent:]
            return False

    def _ev(self, e):
        sim = self.sim
        k = e[0]
        ctx = {}
        n0 = len(sim.sent)
        if k == "connect_all":
            for n, a in enumerate(self.V):
                for b in self.V[n + 1:]:
                    self.ev("connect", a, b)
            return True
        if k == "tick":
            if not self.live(e[1]):
                return False
            if getattr(sim.transports[e[1]], "_nr", 0) > 1:
                ctx["fresh"] = None                  # this tick stays in the not-ready branch: not the first real tick yet
                self.cov["tick-while-transport-not-ready"] += 1
            else:
                ctx["fresh"] = self.fresh.pop(e[1], None)
            if ctx["fresh"] is not None:
                ctx["pre_log"] = set(sim.log_of(e[1]))
            if ctx["fresh"] is not None and self.members:
                ctx["dump"] = dump_members(sim, self._dump_path(e[1]))
            sim.tick(e[1], e[2])
        elif k == "member":
            # ["member", i, "add"|"rem", node id]: membership change submitted at node i
            if not self.live(e[1]) or not self.members:
                return False
            o = sim.objs[e[1]]
            sim.trace.append(["member", e[1], e[2], e[3]])
            sim._call(e[1], o.addNodeToCluster if e[2] == "add" else o.removeNodeFromCluster, sim.Node(e[3]))
            self.cov["member:" + e[2]] += 1
        elif k == "tick_k":
            if not self.live(e[1]):
                return False
            if getattr(sim.transports[e[1]], "_nr", 0) > 1:
                ctx["fresh"] = None                  # this tick stays in the not-ready branch: not the first real tick yet
                self.cov["tick-while-transport-not-ready"] += 1
            else:
                ctx["fresh"] = self.fresh.pop(e[1], None)
            if ctx["fresh"] is not None:
                ctx["pre_log"] = set(sim.log_of(e[1]))
            if ctx["fresh"] is not None and self.members:
                ctx["dump"] = dump_members(sim, self._dump_path(e[1]))
            self._killing(e[1], e[3], lambda: sim.tick(e[1], e[2]))
        elif k == "deliver":
            if not self.live(e[2]) or not sim.chan[(e[1], e[2])]:
                return False
            ctx["pre"] = self._pre_deliver(e[2])
            self._stale_reply(e[1], e[2])
            ctx["msg"] = sim.deliver(e[1], e[2])
        elif k == "deliver_k":
            if not self.live(e[2]) or not sim.chan[(e[1], e[2])]:
                return False
            ctx["pre"] = self._pre_deliver(e[2])
            self._stale_reply(e[1], e[2])
            ctx["msg"] = sim.chan[(e[1], e[2])][0]
            self._killing(e[2], e[3], lambda: sim.deliver(e[1], e[2]))
        elif k == "submit":
            if not self.live(e[1]):
                return False
            sim.submit(e[1], e[2])
        elif k == "compact":
            if not self.live(e[1]):
                return False
            sim.compact(e[1])
        elif k == "cut":
            sim.cut(e[1], e[2])
        elif k == "notice":
            if not self.live(e[1]):
                return False
            sim.notice(e[1], e[2])
        elif k == "connect":
            if not self.live(e[1]) or not self.live(e[2]):
                return False
            sim.connect(e[1], e[2])
        elif k == "kill":
            if not self.live(e[1]):
                return False
            self._kill(e[1])
        elif k == "restart":
            if self.live(e[1]):
                return False
            self._restart(e[1])
        elif k == "not_ready":
            # ["not_ready", i, k]: the transport of node i is not ready (port still busy) for its next k ticks
            if not self.live(e[1]):
                return False
            t = sim.transports[e[1]]
            if not hasattr(t, "_nr"):
                def try_get_ready(self_):
                    if self_._nr > 0:
                        self_._nr -= 1
                t.__class__ = type("NotReadyYet", (t.__class__,), {"ready": property(lambda self_: self_._nr == 0),
                                                                   "tryGetReady": try_get_ready})
            t._nr = e[2]
            self.cov["not-ready-ticks-armed"] += 1
        elif k == "start":
            # ["start", i, [partner ids], observer?]: (re)start a dead node with THIS partner list (its configuration)
            if self.live(e[1]):
                return False
            self._restart(e[1], others=list(e[2]), observer=bool(e[3]))
        elif k == "connect_known":
            # the transport of node e[1] only dials nodes it knows: connect e[1]-e[2] if e[2] is in its node set
            if not self.live(e[1]) or not self.live(e[2]):
                return False
            if e[2] not in [n.id for n in sim.objs[e[1]].otherNodes]:
                self.cov["connect_known:unknown-node"] += 1
                return False
            sim.connect(e[1], e[2])
        elif k == "probe_vote":
            # a competing candidate of the voter's CURRENT term with a log that is at least as good
            # "*": from a peer the voter has NOT voted for in this term according to the wire (a probe
            # from the candidate it voted for would only repeat that vote); no recorded vote -> no probe
            v, frm = e[1], e[2]
            if not self.live(v):
                return False
            if frm == "*":
                ds = self.votes.get((v, self.term(v)))
                cand = [j for j in self.V if j != v and ds and j not in ds]
                if not cand:
                    return False
                frm = cand[0]
                e = [k, v, frm]
            if frm == v:
                return False
            ctx["pre"] = self._pre_deliver(v)
            m = {"type": "request_vote", "term": self.term(v), "last_log_index": 10 ** 6, "last_log_term": 10 ** 6}
            ctx["msg"] = m
            if (v, frm) not in sim.up:
                sim.up.add((v, frm))          # the voter can answer (it would have accepted the connection)
                ctx["tmp_up"] = (v, frm)
            sim.inject(frm, v, m)
            self.cov["probe_vote"] += 1
        else:
            raise ValueError("unknown event %r" % (e,))
        self.events.append(e)
        self.sends_of_event.append(len(sim.sent) - n0)
        self.cov["ev:" + k] += 1
        self._after(e, ctx)
        if ctx.get("tmp_up"):
            sim.up.discard(ctx["tmp_up"])
        return True

    def _killing(self, node, nth, fn):
        """run fn; `node` dies right after its nth successful send of this step (if it sends that many)"""
        sim = self.sim
        self._arm = [node, nth, 0]
        died = False
        try:
            fn()
        except Killed:
            died = True
        finally:
            self._arm = None
            sim.cur = None
        if died:
            self._scan_sent()          # what was handed over counts as said
            keep = {j: list(sim.chan[(node, j)]) for j in self.V if j != node}
            self._kill(node)
            for j, ms in keep.items():  # data handed to the transport still arrives
                sim.chan[(node, j)].extend(ms)
            self.cov["kill-at-send"] += 1

    def _stale_reply(self, a, b):
        sim = self.sim
        m = sim.chan[(a, b)][0]
        if m.get("type") != "apply_command_response":
            return
        g = self.reply_gen.get(id(m))
        if g is None or g[1] is not m or g[0] == sim.generation[b]:
            return
        self.cov["reply-to-request-of-earlier-run-delivered"] += 1
        cb = sim.P(b, "commandsWaitingReply").get(m["request_id"])
        if cb is None:
            return
        cid = (getattr(cb, "__defaults__", None) or (None,))[0]
        x = None
        for ev in sim.trace:
            if ev[0] == "submit" and ev[4] == cid:
                x = ev[2]
        self.tainted.add(x)
        self.flag("restart:forward-reply-of-earlier-run-matched-to-new-request",
                  "node %s (run %d) forwarded a command as request %r to %s, was killed and restarted, and forwarded command %r under "
                  "the same request id (ids start at 1 in every run); %s's reply to the OLD request (%s) is taken as the reply to %r"
                  % (b, g[0], m["request_id"], a, x, a,
                     ("error %r" % m["error"]) if "error" in m else ("accepted at index %r" % m.get("log_idx")), x))

    def _dump_path(self, i):
        for fn in ("%s.dump" % i, "%s.journal.dump" % i):
            if os.path.isfile(os.path.join(self.dir, fn)):
                return os.path.join(self.dir, fn)
        return None

    def _pre_deliver(self, b):
        o = self.sim.objs[b]
        lg = self.sim.P(b, "raftLog")
        return {"maxterm": self.maxterm[b], "len": len(lg), "last": lg[-1][1:], "n_sent": len(self.sim.sent)}

    def _kill(self, i):
        sim = self.sim
        o = sim.objs[i]
        self._scan_sent()
        self._scan_execs(i, sim.generation[i])      # (a node killed inside a step is not seen by _after any more)
        log = sim.log_of(i)
        hi = max(self.ack_hi[i], o.raftCommitIndex)
        # what the node's dump covers: its applied position — a node killed before its first tick has not loaded
        # its dump yet (applied = 1) and still has what it had when it was killed the time before
        covered = max(o.raftLastApplied, self.before[i].get("covered", 0) if (i in self.fresh and i in self.before) else 0)
        journaled = i in self.V
        self.before[i] = {"covered": covered, "log": log, "need": [x for x in log if x[0] <= hi] if journaled else [],
                          "term": o.raftCurrentTerm if journaled else 0,
                          "commit": o.raftCommitIndex, "applied": o.raftLastApplied,
                          "voted": getattr(o, "_SyncObj__votedForNodeId", None), "leader": o._isLeader()}
        self.restarted_in_term[o.raftCurrentTerm].add(i)
        if o._isLeader():
            self.cov["kill:leader"] += 1
        if self.before[i]["voted"] not in (None, i) and sim.leader() is None:
            self.cov["kill:voter-after-grant-election-open"] += 1
        sim.kill(i)
        for fs in self.fwd.values():
            for f in fs:
                if f[1] == i:
                    f[2] = True                  # never answered any more
        self.fresh.pop(i, None)
        self.cov["kill"] += 1
        if not sim.objs:
            self.cov["kill:all-dead"] += 1
        elif 2 * len(sim.objs) < len(self.V):
            self.cov["kill:majority-dead"] += 1

    def _restart(self, i, others=None, observer=False):
        sim = self.sim
        b = self.before.get(i)
        try:
            if others is None:
                self.ctor.pop(i, None)
                sim.restart(i)
            else:
                self.ctor[i] = list(others)
                sim.trace.append(["restart", i, list(others)])
                sim._start(i, observer=observer, others=list(others))
        except Exception as x:        # the constructor raised: the node cannot come back
            sim.cur = None
            self.flag("restart:recovery-raises:%s" % type(x).__name__,
                      "node %s cannot be restarted on its files: %r" % (i, x))
            return
        self.cov["restart"] += 1
        o = sim.objs[i]
        self.exec_last.pop(i, None)
        if b is None:
            return
        after = sim.log_of(i)
        have = set((x[0], x[1], x[2]) for x in after)
        lost = [x for x in b["need"] if (x[0], x[1], x[2]) not in have]
        self.cov["acked-entries-checked"] += len(b["need"])
        if lost:
            self.flag("restart:acknowledged-entries-lost",
                      "node %s had acknowledged / knew committed up to index %d (log %d..%d) when it was killed; "
                      "its journal after the restart holds %s — missing indices %s"
                      % (i, b["need"][-1][0], b["log"][0][0], b["log"][-1][0],
                         (after[0][0], after[-1][0]) if after else None, [x[0] for x in lost][:8]))
        unacked_lost = [x for x in b["log"] if (x[0], x[1], x[2]) not in have and x not in b["need"]]
        if unacked_lost:
            self.cov["unacknowledged-entries-not-in-journal"] += 1
        if o.raftCurrentTerm < b["term"]:
            self.flag("restart:term-moved-backwards",
                      "node %s had term %d before the kill and %d after the restart" % (i, b["term"], o.raftCurrentTerm))
        if o.raftCommitIndex > b["commit"]:
            self.flag("restart:commit-index-beyond-known",
                      "node %s knew commit index %d when it was killed and claims %d after the restart"
                      % (i, b["commit"], o.raftCommitIndex))
        if b["voted"] is not None:
            self.cov["restart:had-voted-in-term"] += 1
        self.fresh[i] = b

    # -- monitors ------------------------------------------------------------------------------------
    def _scan_sent(self):
        sim = self.sim
        for (s, d, m) in sim.sent[self.n_sent:]:
            t = m.get("type")
            if t == "next_node_idx" and m.get("success"):
                if m["next_node_idx"] - 1 > self.ack_hi[s]:
                    self.ack_hi[s] = m["next_node_idx"] - 1
            elif t == "response_vote":
                self._vote(s, m["term"], d)
            elif t == "request_vote":
                self._vote(s, m["term"], s)
            elif t == "apply_command" and "request_id" in m:
                self.fwd[(s, m["request_id"])].append([sim.generation[s], d, False])
            elif t == "apply_command_response":
                for f in self.fwd.get((d, m["request_id"]), []):
                    if f[1] == s and not f[2]:          # the oldest unanswered request d sent to s under this id
                        f[2] = True
                        self.reply_gen[id(m)] = (f[0], m)
                        break
        self.n_sent = len(sim.sent)

    def _vote(self, voter, term, dest):
        g = self.sim.generation[voter]
        ds = self.votes.setdefault((voter, term), {})
        if dest not in ds:
            if ds:
                across = any(g0 != g for g0 in ds.values())
                self.flag("restart:vote-granted-twice-in-term" if across else "election:vote-granted-twice-in-term",
                          "voter %s granted its vote in term %d to %s and then to %s%s"
                          % (voter, term, sorted(ds), dest, " (killed and restarted in between)" if across else ""))
            ds[dest] = g
            self.cov["votes"] += 1

    def _acked_stay(self, i, g, lg, applied):
        """C06 while the node RUNS (no kill needed): an entry it acknowledged on the wire stays in its log, or under
        its applied snapshot, unless a leader's append replaced an entry at or below it by one of another term
        (conflict truncation).  Seen otherwise: a snapshot installed over a log that already holds its last entry."""
        lkey = (len(lg), lg[0][1], lg[-1][1], lg[-1][2])
        prev = self.prev_log.get(i)
        if prev is not None and prev[0] == g and prev[1] == lkey:
            return
        cur = {e[1]: e[2] for e in lg[:]}
        if prev is not None and prev[0] == g:
            old = prev[2]
            first = lg[0][1]
            hi = self.ack_hi[i]
            gone = [idx for idx in old if idx <= hi and idx not in cur and not (idx < first and idx <= applied)]
            if gone:
                lowest = min(gone)
                conflict = [j for j in old if j <= lowest and j in cur and cur[j] != old[j]] or \
                           [j for j in cur if j <= lowest and j in old and cur[j] != old[j]]
                replaced = any(j in cur and cur[j] != old[j] for j in old if j <= max(gone))
                if not conflict and not replaced:
                    self.flag("restart:acknowledged-entries-lost",
                              "node %s (running: no kill in this step) had acknowledged up to index %d; after this step the entries %s are "
                              "neither in its log (%d..%d) nor under its applied snapshot (applied=%d), and no entry at or below them "
                              "was replaced by one of another term" % (i, hi, sorted(gone)[:8], first, lg[-1][1], applied))
        self.prev_log[i] = (g, lkey, cur)

    def _scan_execs(self, i, g):
        """executions of node i not looked at yet belong to its generation g: positions strictly increase"""
        ex = self.sim.execs.get(i, [])
        for (pos, cmd) in ex[self.exec_from[i]:]:
            lg, lp = self.exec_last.get(i, (g, 0))
            if lg == g and pos <= lp:
                self.flag("restart:position-executed-twice-in-generation",
                          "node %s (generation %d) executed position %d after position %d" % (i, g, pos, lp))
                # an execution at position p happens with lastApplied = p - 1
                self.flag("commit:applied-moved-backwards",
                          "node %s (generation %d) had applied position %d and then executes position %d: its applied index went "
                          "from %d back to %d while it runs" % (i, g, lp, pos, lp, pos - 1))
            self.exec_last[i] = (g, pos)
        self.exec_from[i] = len(ex)

    def _after(self, e, ctx):
        sim = self.sim
        self._scan_sent()
        # exceptions escaping entry points
        for (n, cls, msg, tb) in sim.errors[self.n_err:]:
            fresh = ctx.get("fresh") is not None
            self.flag(("restart:recovery-raises:%s" if fresh else "exception-escaped:%s") % cls,
                      "node %s: %s: %s | %s" % (n, cls, msg, tb[-300:]))
        self.n_err = len(sim.errors)
        # C01/C02 statements across generations
        for v in self.mon.step():
            if v["signature"] == "election:two-leaders-in-term":
                t = [int(x) for x in v["what"].split()[1:2] if x.isdigit()]
                if t and self.restarted_in_term.get(t[0]):
                    v = {"signature": "restart:two-leaders-in-term",
                         "what": v["what"] + " (nodes restarted during that term: %s)" % sorted(self.restarted_in_term[t[0]])}
            if any(("node %s " % w) in v["what"] for w in self.wedged) and v["signature"].startswith("sm-safety:state"):
                continue
            if v["signature"].startswith("callback:") and any(("cmd %r " % x) in v["what"] for x in self.tainted):
                continue
            self.flag(v["signature"], v["what"])
        # per node: terms, indices, executions, permanence
        newly = {}
        for i in self.V:
            o = sim.objs.get(i)
            if o is None:
                continue
            g = sim.generation[i]
            t = o.raftCurrentTerm
            if t < self.maxterm[i]:
                self.flag("restart:term-moved-backwards", "node %s: term %d after it had adopted term %d" % (i, t, self.maxterm[i]))
            self.maxterm[i] = max(self.maxterm[i], t)
            c, a = o.raftCommitIndex, o.raftLastApplied
            pg, pc, pa = self.last.get(i, (g, 0, 0))
            if pg == g and (c < pc or a < pa):
                self.flag("commit:index-moved-backwards", "node %s commit %d->%d applied %d->%d within one generation" % (i, pc, c, pa, a))
            self.last[i] = (g, c, a)
            self._scan_execs(i, g)
            lg = sim.P(i, "raftLog")
            self._acked_stay(i, g, lg, a)
            key = (g, c, len(lg), lg[0][1], lg[-1][1], lg[-1][2])
            if self.ckey.get(i) != key:
                self.ckey[i] = key
                for (cmd, idx, term) in lg[:]:
                    if idx > c:
                        break
                    w = self.committed.get(idx)
                    if w is None:
                        self.committed[idx] = (term, cmd)
                        newly.setdefault(i, []).append(idx)
                    elif w != (term, cmd):
                        self.flag("restart:committed-entry-changed",
                                  "index %d was known committed with term %d; node %s now holds term %d %r there as committed"
                                  % (idx, w[0], i, term, cmd[:12]))
        for i, idxs in newly.items():
            self._majority_check(i, only=idxs)
        # older terms are not followed
        m, pre = ctx.get("msg"), ctx.get("pre")
        if m is not None and pre is not None and m.get("term", 10 ** 9) < pre["maxterm"]:
            b = e[2] if e[0] in ("deliver", "deliver_k") else e[1]
            restarted = sim.generation[b] > 1 or not self.live(b)
            new = [x for (s, d, x) in sim.sent[pre["n_sent"]:] if s == b]
            if m["type"] == "append_entries":
                self.cov["older-term-append-seen"] += 1
                changed = False
                if self.live(b):
                    lg = sim.P(b, "raftLog")
                    changed = (len(lg), lg[-1][1:]) != (pre["len"], pre["last"])
                if changed or any(x["type"] == "next_node_idx" for x in new):
                    self.flag("%s:older-term-append-accepted" % ("restart" if restarted else "election"),
                              "node %s had adopted term %d and accepted append_entries of term %d" % (b, pre["maxterm"], m["term"]))
            if m["type"] == "request_vote":
                self.cov["older-term-vote-request-seen"] += 1
                if any(x["type"] == "response_vote" for x in new):
                    self.flag("%s:older-term-vote-granted" % ("restart" if restarted else "election"),
                              "node %s had adopted term %d and granted a vote in term %d" % (b, pre["maxterm"], m["term"]))
        # first tick after a restart: the dump is loaded, the committed prefix is applied
        b = ctx.get("fresh")
        if b is not None and e[0] in ("tick", "tick_k") and self.live(e[1]):
            self._after_first_tick(e[1], b, ctx.get("pre_log"))
            if self.members:
                self.cov["restart:members-checked"] += 1
                ments = membership_entries(sim, sim.objs[e[1]])
                self.held_at_restart += [(e[1], x[0], x[1]) for x in ments]
                if ctx.get("dump"):
                    self.cov["restart:members-checked-over-dump"] += 1
                    if any(x[0] > ctx["dump"][1] for x in ments):
                        self.cov["restart:members-checked-over-dump-with-later-entries"] += 1
                conf_list = self.V if e[1] not in self.ctor else (self.ctor[e[1]] + ([e[1]] if e[1] in self.V else []))
                bad = members_mismatch(sim, sim.objs[e[1]], e[1], conf_list, ctx.get("dump"))
                if bad:
                    self.flag("restart:members-not-fold-of-journal-over-dump", bad)

    def _after_first_tick(self, i, b, pre_log=None):
        sim = self.sim
        if pre_log is not None:
            # messages handled between the restart and this tick may have replaced acknowledged but uncommitted
            # entries by a newer leader's (the constructor check has seen them all; committed ones are watched by
            # restart:committed-entry-changed): the tick itself must keep what was there when it began
            b = dict(b, need=[x for x in b["need"] if x in pre_log])
        o = sim.objs[i]
        after = sim.log_of(i)
        have = set((x[0], x[1], x[2]) for x in after)
        la, c = o.raftLastApplied, o.raftCommitIndex
        first, lastidx = after[0][0], after[-1][0]
        if la > 1:
            self.cov["restart:dump-loaded"] += 1
            if b["log"][0][0] < first:
                self.cov["restart:untrimmed-journal-head-dropped"] += 1
        lost = [x for x in b["need"] if (x[0], x[1], x[2]) not in have and not (x[0] < first and x[0] <= la)]
        if lost:
            self.flag("restart:acknowledged-entries-lost",
                      "node %s had acknowledged / knew committed up to index %d (log %d..%d) when it was killed; after the "
                      "restart and the first tick (dump loaded: applied=%d) its journal holds %d..%d — missing indices %s"
                      % (i, b["need"][-1][0], b["log"][0][0], b["log"][-1][0], la, first, lastidx, [x[0] for x in lost][:8]))
        self._majority_check(i)
        if first > la + 1:
            self.wedged.add(i)
            if not self.has_dump_conf:
                self.flag("restart:journal-only-compaction-wedges",
                          "node %s (journalFile without fullDumpFile) restarted with applied=%d while its journal starts at "
                          "index %d (compacted): entries %d..%d are nowhere, commit=%d, nothing can ever be applied again"
                          % (i, la, first, la + 1, first - 1, c))
            else:
                self.flag("restart:state-not-replay-of-committed-prefix",
                          "node %s restarted with applied=%d while its journal starts at index %d: entries %d..%d are in "
                          "neither the dump nor the journal" % (i, la, first, la + 1, first - 1))
        elif la < min(c, lastidx):
            self.flag("restart:state-not-replay-of-committed-prefix",
                      "node %s after restart and first tick: applied=%d but it knows commit=%d (journal %d..%d)"
                      % (i, la, c, first, lastidx))

    def _voters_by_log(self):
        """the member set DEFINED BY THE LOG: the configured voters with the membership commands of the committed
        entries carried out in order (never a node's own `otherNodes`)"""
        M = list(self.spec.get("initial") or self.V)
        if not self.members:
            return M
        MEM = bytes([self.sim.so._COMMAND_TYPE.MEMBERSHIP])
        for idx in sorted(self.committed):
            cmd = self.committed[idx][1]
            if isinstance(cmd, bytes) and cmd[:1] == MEM:
                req = self.sim.so.pickle.loads(cmd[1:])
                if req[0] == "add" and req[1] not in M:
                    M.append(req[1])
                elif req[0] == "rem" and req[1] in M:
                    M.remove(req[1])
        return M

    def _majority_check(self, i, only=None):
        """C04 across restarts: every position some node reported committed is stored by a majority of the voters
        (member set defined by the log) — evaluated when a position is first reported committed (`only`) and for all
        of them once a restarted node i is back.  Stored = in the log, or under the applied snapshot; a dead or not
        yet ticked node counts with what it held when it was killed = what its files hold."""
        sim = self.sim
        views = {}
        for v in self.V:
            if v in sim.objs:
                # a running node: its log as it is; a node that has not ticked since its restart has not loaded its
                # dump yet (applied = 1): the dump covers what it covered when the node was killed
                lg = sim.log_of(v)
                la = sim.objs[v].raftLastApplied
                if v in self.fresh:
                    la = max(la, self.fresh[v].get("covered", 0))
                views[v] = (set((x[0], x[1]) for x in lg), lg[0][0], la)
            elif v in self.before:
                b = self.before[v]
                views[v] = (set((x[0], x[1]) for x in b["log"]), b["log"][0][0] if b["log"] else 1, b["covered"])
        # A commit is judged against the member set in force when the position was FIRST reported committed and never
        # re-judged with later sets.  In force = the latest membership entry of a log (appended, not yet committed ones
        # included: single-server changes, carried out at append).  The reporting node may be a follower that has
        # not got the leader's latest entries, so the candidates are: the committed entries' set and the set of every
        # node's log at that moment (dead nodes: the log they had when killed); a majority under ANY of them backs it.
        configs = [self._voters_by_log()]
        if self.members:
            MEM = bytes([sim.so._COMMAND_TYPE.MEMBERSHIP])
            for v in self.V:
                if v in sim.objs:
                    ents = [(e[1], e[0]) for e in sim.P(v, "raftLog")[:]]
                elif v in self.before:
                    ents = [(x[0], x[2]) for x in self.before[v]["log"]]
                else:
                    continue
                M2 = list(configs[0])
                for (idx, cmd) in ents:
                    if idx in self.committed or not isinstance(cmd, bytes) or cmd[:1] != MEM:
                        continue
                    req = sim.so.pickle.loads(cmd[1:])
                    if req[0] == "add" and req[1] not in M2:
                        M2.append(req[1])
                    elif req[0] == "rem" and req[1] in M2:
                        M2.remove(req[1])
                if M2 not in configs:
                    configs.append(M2)
        M = configs[0]
        todo = sorted(self.committed) if only is None else sorted(only)
        self.cov["restart:committed-positions-majority-checked" if only is None else "commit:new-positions-majority-checked"] += len(todo)
        for idx in todo:
            term = self.committed[idx][0]
            holders = [v for v, (ents, first, la) in views.items() if (idx, term) in ents or (idx < first and idx <= la)]
            confs = self.commit_confs.setdefault(idx, configs)          # recorded at the first report
            M = confs[0]
            if not any(2 * len([h for h in holders if h in C]) > len(C) for C in confs):
                self.flag("restart:committed-entry-not-majority-backed",
                          "position %d (term %d) %s; only %s of the voters %s (member set defined by the log when it was first reported committed) store it"
                          % (idx, term, ("was reported committed and node %s has been restarted since" % i) if only is None
                             else ("is reported committed by node %s" % i), holders, M))
                break

    # -- composite helpers (emit atomic events) --------------------------------------------------------
    def deliver_all(self, among=None, limit=4000):
        sim = self.sim
        n = 0
        progress = True
        while progress and n < limit:
            progress = False
            for (s, d) in sorted(sim.chan.keys()):
                if among is not None and (s not in among or d not in among):
                    continue
                while sim.chan[(s, d)] and n < limit:
                    if not self.ev("deliver", s, d):
                        sim.chan[(s, d)].clear()      # destination dead: the data is lost
                        break
                    n += 1
                    progress = True
        return n

    def rounds(self, k, dt=0.0625, among=None):
        for _ in range(k):
            for i in (among or self.V):
                self.ev("tick", i, dt)
            self.deliver_all(among=set(among) if among else None)

    def elect(self, among=None, max_rounds=200):
        for _ in range(max_rounds):
            if self.aborted:
                return None
            l = self.sim.leader(among or self.V_live())
            if l is not None:
                return l
            self.rounds(1, among=among)
        return self.sim.leader(among or self.V_live())

    def finale(self):
        self._finale()
        # coverage: a membership entry that a restarted node found in its journal and that was dropped afterwards
        sim = self.sim
        seen = set()
        for (i, idx, term) in self.held_at_restart:
            if (i, idx, term) in seen or i not in sim.objs:
                continue
            seen.add((i, idx, term))
            lg = sim.log_of(i)
            cur = [x for x in lg if x[0] == idx]
            if (cur and cur[0][1] != term) or (not cur and lg and idx > lg[-1][0]):
                self.cov["restart:membership-entry-held-at-restart-later-dropped"] += 1

    def _finale(self):
        """heal everything, converge, push two more commands through, then the end-of-run statements"""
        sim = self.sim
        if self.aborted:
            return
        for i in self.V:
            if not self.live(i):
                self.ev("restart", i)
        for n, a in enumerate(self.V):
            for b in self.V[n + 1:]:
                self.ev("connect", a, b)
        if len(self.V_live()) < len(self.V):
            self.cov["finale:node-not-restartable"] += 1
            return
        ok = False
        L = None
        for phase in range(2):
            for _ in range(24):
                L = self.elect(max_rounds=80)
                if L is None or self.aborted:
                    break
                self.rounds(2)
                o = sim.objs[L]
                if sim.leader() == L and all(sim.objs[i].raftLastApplied == o.raftCommitIndex == sim.last_index(i) == sim.last_index(L)
                                             for i in self.V if i not in self.wedged):
                    ok = True
                    break
            if not ok or phase == 1:
                break
            ok = False
            for k in range(2):
                self.ev("submit", L, "fin%d" % k)
        if not ok:
            self.cov["finale:not-converged"] += 1
            return
        self.cov["finale:converged"] += 1
        if self.members:
            sets = {i: frozenset(n.id for n in sim.objs[i].otherNodes) | {i} for i in self.V if i not in self.wedged}
            self.cov["finale:member-sets-compared"] += 1
            if len(set(sets.values())) > 1:
                self.flag("restart:member-sets-differ-at-quiescence",
                          "all nodes hold the same log and have applied it, their member sets differ: %s"
                          % {i: sorted(v) for i, v in sorted(sets.items())})
        succ = {}
        for (n, cid, res, err) in sim.callbacks:
            if err == 0:
                succ[cid] = n
        subs = {ev[4]: ev[2] for ev in sim.trace if ev[0] == "submit"}
        for cid in sorted(succ):
            x = subs.get(cid)
            if x in self.tainted:
                continue
            self.cov["success-callbacks-checked"] += 1
            for i in self.V:
                if i in self.wedged:
                    continue
                k = list(sim.objs[i].log).count(x)
                if k != 1:
                    self.flag("restart:success-lost",
                              "command %r was reported SUCCESS (callback %d at node %s); after all kills/restarts and the final "
                              "heal node %s's state contains it %d times: %r" % (x, cid, succ[cid], i, k, list(sim.objs[i].log)[-8:]))


# ------------------------------------------------------------------------------------------------------
# replay of a recorded event list (+ finale)
# ------------------------------------------------------------------------------------------------------
def run_events(repo, spec, events, tmpdir, finale=True, stop_on_violation=True):
    r = Runner(repo, spec, tmpdir)
    try:
        for e in events:
            r.ev(*e)
            if r.viol and stop_on_violation:
                break
        if finale and not (r.viol and stop_on_violation):
            r.finale()
    finally:
        r.close()
    return r


# ------------------------------------------------------------------------------------------------------
# configurations
# ------------------------------------------------------------------------------------------------------
def draw_conf(rng):
    return {"appendEntriesBatchSizeBytes": rng.choice([1, 8, 24, 64, 2 ** 16]),
            "logCompactionBatchSize": rng.choice([7, 16, 64, 2 ** 16]),
            "logCompactionMinEntries": rng.choice([2, 3, 6, 10 ** 6]),
            "logCompactionMinTime": rng.choice([0.25, 1.0, 10 ** 6]),
            "appendEntriesUseBatch": rng.random() < 0.7,
            "commandsWaitLeader": rng.random() < 0.5}


# ------------------------------------------------------------------------------------------------------
# seeded random schedules
# ------------------------------------------------------------------------------------------------------
def random_schedule(r, rng, n_events):
    sim = r.sim
    V = r.V
    r.ev("connect_all")
    if rng.random() < 0.8:
        r.elect()
    cmd = [0]

    def submit():
        live = r.V_live()
        if not live:
            return
        L = sim.leader(live)
        tgt = L if (L is not None and rng.random() < 0.75) else rng.choice(live)
        cmd[0] += 1
        r.ev("submit", tgt, "x%d" % cmd[0])

    def restart_one(i):
        r.ev("restart", i)
        if not r.live(i):
            return
        for j in V:
            if j != i and r.live(j) and rng.random() < 0.85:
                if rng.random() < 0.3:
                    r.ev("notice", j, i)
                r.ev("connect", i, j)
        if rng.random() < 0.5:
            r.ev("probe_vote", i, "*")

    while len(r.events) < n_events and not r.viol and not r.aborted:
        live = r.V_live()
        dead = [i for i in V if i not in sim.objs]
        x = rng.random()
        if dead and x < (0.10 if 2 * len(live) > len(V) else 0.35):
            restart_one(rng.choice(dead))
        elif not live:
            restart_one(rng.choice(dead))
        elif x < 0.36:
            chans = [(a, b) for (a, b), q in sorted(sim.chan.items()) if q and b in sim.objs]
            if chans:
                a, b = rng.choice(chans)
                if rng.random() < 0.03:
                    r.ev("deliver_k", a, b, rng.choice([1, 1, 2]))
                else:
                    r.ev("deliver", a, b)
            else:
                r.ev("tick", rng.choice(live), 0.0625)
        elif x < 0.62:
            dt = rng.choice([0.0, 0.0625, 0.0625, 0.0625, 0.125, 0.5, 1.0, 2.0] if rng.random() < 0.3 else [0.0625])
            i = rng.choice(live)
            if rng.random() < 0.02:
                r.ev("tick_k", i, dt, rng.choice([1, 2, 3]))
            else:
                r.ev("tick", i, dt)
        elif x < 0.72:
            r.rounds(rng.choice([1, 1, 2, 4]))
        elif x < 0.82:
            if r.members and rng.random() < 0.3:
                L = sim.leader(live)
                r.ev("member", L if (L is not None and rng.random() < 0.8) else rng.choice(live),
                     rng.choice(["add", "add", "rem"]), rng.choice(["x", "y"]))
            else:
                submit()
        elif x < 0.86:
            r.ev("compact", rng.choice(live))
            cmd[0] += 0
        elif x < 0.92:
            a, b = rng.sample(V, 2)
            y = rng.random()
            if y < 0.3:
                r.ev("cut", a, b)
            elif y < 0.55:
                r.ev("notice", a, b)
            elif y < 0.7:
                r.ev("cut", a, b)
                r.ev("notice", a, b)
                r.ev("notice", b, a)
            else:
                r.ev("connect", a, b)
        else:
            y = rng.random()
            L = sim.leader(live)
            if y < 0.45:
                r.ev("kill", rng.choice(live))
            elif y < 0.7 and L is not None:
                r.ev("kill", L)
            elif y < 0.85:
                k = len(V) // 2 + 1
                for i in rng.sample(live, min(k, len(live))):
                    r.ev("kill", i)
            else:
                for i in list(live):
                    r.ev("kill", i)
                if rng.random() < 0.5:            # everybody back at once
                    for i in V:
                        r.ev("restart", i)
                    r.ev("connect_all")
    if not r.viol:
        r.finale()


# ------------------------------------------------------------------------------------------------------
# directed base schedules (recorded once, then replayed with kills inserted at every position)
# ------------------------------------------------------------------------------------------------------
def base_vote(r):
    """two candidates of one term that cannot talk to each other; the others vote"""
    V = r.V
    a, b = V[0], V[1]
    for v in V[2:]:
        r.ev("connect", a, v)
        r.ev("connect", b, v)
    r.ev("tick", a, 2.0)                       # candidate of term 1, asks the voters
    for v in V[2:]:
        r.ev("deliver", a, v)                  # grants
    for v in V[2:]:
        r.ev("deliver", v, a)                  # a becomes leader
    r.ev("tick", a, 0.0625)
    for v in V[2:]:
        r.ev("deliver", a, v)
    return {"competitor": b, "voters": V[2:], "first": a}


def competitor_events(r_V, info):
    b = info["competitor"]
    ev = [["tick", b, 2.0]]
    for v in info["voters"]:
        ev.append(["deliver", b, v])
    for v in info["voters"]:
        ev.append(["deliver", v, b])
    ev.append(["tick", b, 0.0625])
    return ev


def base_replication(r):
    V = r.V
    r.ev("connect_all")
    L = r.elect()
    if L is None:
        return {}
    F = [i for i in V if i != L]
    for k in range(3):
        r.ev("submit", L, "k%d" % k)
    r.rounds(3)
    r.ev("submit", F[0], "viaF")
    r.rounds(3)
    r.ev("compact", F[0])
    r.ev("tick", F[0], 0.0625)                 # dump written; journal trimmed on the next tick
    for k in range(3, 6):
        r.ev("submit", L, "k%d" % k)
    r.ev("tick", L, 0.0625)
    r.deliver_all()
    r.ev("compact", L)
    r.rounds(2)
    r.ev("submit", L, "k6")
    r.rounds(18)                               # > 1 s: the commit index reaches the .meta file
    r.ev("submit", L, "k7")
    r.ev("tick", L, 0.0625)
    r.deliver_all()
    return {"leader": L, "followers": F}


def base_snapshot(r):
    """a follower misses entries, the leader compacts, the follower gets the snapshot in chunks"""
    V = r.V
    r.ev("connect_all")
    L = r.elect()
    if L is None:
        return {}
    F = [i for i in V if i != L]
    lag = F[-1]
    r.ev("submit", L, "s0")
    r.rounds(3)
    for j in V:
        if j != lag:
            r.ev("cut", lag, j)
            r.ev("notice", lag, j)
            r.ev("notice", j, lag)
    rest = [i for i in V if i != lag]
    for k in range(1, 5):
        r.ev("submit", L, "s%d" % k)
    r.rounds(3, among=rest)
    r.ev("compact", L)
    r.rounds(2, among=rest)
    r.ev("submit", L, "s5")
    r.rounds(2, among=rest)
    if r.sim.leader(rest) != L:
        return {}
    for j in rest:
        r.ev("connect", lag, j)
    r.rounds(6)
    r.ev("submit", L, "s6")
    r.rounds(3)
    return {"leader": L, "followers": F, "lag": lag}


def base_conflict(r):
    """a deposed leader with uncommitted entries is brought back: conflict truncation on append"""
    V = r.V
    r.ev("connect_all")
    L = r.elect()
    if L is None:
        return {}
    r.ev("submit", L, "c0")
    r.rounds(3)
    rest = [i for i in V if i != L]
    for j in rest:
        r.ev("cut", L, j)
        r.ev("notice", L, j)
        r.ev("notice", j, L)
    for k in range(1, 4):
        r.ev("submit", L, "lost%d" % k)
    r.ev("tick", L, 0.0625)
    N = r.elect(among=rest)
    if N is None:
        return {}
    for k in range(2):
        r.ev("submit", N, "n%d" % k)
    r.rounds(3, among=rest)
    for j in rest:
        r.ev("connect", L, j)
    r.rounds(8)
    return {"leader": N, "followers": [i for i in V if i != N], "old": L}


def base_snapshot_late(r):
    """the follower that installed the leader's snapshot runs on for more than a second (the one-second timer rewrites
    its .meta) without any change of term or vote; kills from there on (C07: term and vote must still be in .meta)"""
    info = base_snapshot(r)
    if not info:
        return {}
    info["window_from"] = len(r.events)
    r.rounds(18)
    r.ev("submit", info["leader"], "late")
    r.rounds(3)
    return info


def base_snapshot_partial(r):
    """a follower that missed entries gets only the FIRST chunks of the leader's snapshot (messages that verify
    nothing of its log, from a leader whose commit index is far ahead), runs on for more than a second (timer: .meta
    rewritten) and is killed there; the transfer completes afterwards"""
    V = r.V
    r.ev("connect_all")
    L = r.elect()
    if L is None:
        return {}
    F = [i for i in V if i != L]
    lag = F[-1]
    rest = [i for i in V if i != lag]
    r.ev("submit", L, "p0")
    r.rounds(3)
    for j in rest:
        r.ev("cut", lag, j)
        r.ev("notice", lag, j)
        r.ev("notice", j, lag)
    for k in range(1, 7):
        r.ev("submit", L, "p%d" % k)
    r.rounds(3, among=rest)
    r.ev("compact", L)
    r.rounds(2, among=rest)
    r.ev("submit", L, "p7")
    r.rounds(2, among=rest)
    if r.sim.leader(rest) != L:
        return {}
    r.ev("connect", lag, L)
    chunks = 0
    for _ in range(40):
        r.ev("tick", L, 0.0625)
        q = r.sim.chan[(L, lag)]
        while q and chunks < 2:
            m = q[0]
            r.ev("deliver", L, lag)
            if m.get("serialized") is not None:
                chunks += 1
        while r.sim.chan[(lag, L)]:
            r.ev("deliver", lag, L)
        if chunks >= 2:
            break
    if chunks < 2 or r.sim.objs[lag].raftLastApplied >= r.sim.objs[L].raftCommitIndex:
        return {}
    r.ev("tick", lag, 1.0625)                 # the one-second timer stores the commit index
    r.ev("tick", lag, 0.0625)
    info = {"leader": L, "followers": F, "lag": lag, "window_from": len(r.events)}
    info["window_to"] = len(r.events) + 6
    r.ev("tick", lag, 0.0625)
    r.ev("tick", L, 0.0625)
    for j in rest:
        if j != L:
            r.ev("connect", lag, j)
    r.rounds(8)
    r.ev("submit", L, "p8")
    r.rounds(3)
    return info


def base_snapshot_stale_reset(r):
    """FIFO channels only.  The connection to a follower died unnoticed by the leader (its nextIndex ran ahead); after
    the reconnect two heartbeats are in flight: two `reset` replies.  After the first the leader sends its snapshot (k1)
    and the following entries, which the follower journals and acknowledges WITHOUT having ticked (nothing applied
    beyond k1); the leader compacts again (k2 inside the follower's unapplied log); the second, older `reset` makes it
    send the newer snapshot: the follower already holds its last entry and must keep what it acknowledged after it."""
    V = r.V
    sim = r.sim
    r.ev("connect_all")
    L = r.elect()
    if L is None:
        return {}
    F = [i for i in V if i != L]
    lag, other = F[-1], F[0]
    rest = [i for i in V if i != lag]
    r.ev("submit", L, "t0")
    r.rounds(3)
    for j in rest:
        r.ev("cut", lag, j)                        # nobody notices: the leader goes on sending into the void
    for k in range(1, 4):
        r.ev("submit", L, "t%d" % k)
    r.rounds(5, among=rest)
    r.ev("compact", L)
    r.rounds(2, among=rest)                        # dump k1, journal head dropped
    for k in range(4, 7):
        r.ev("submit", L, "t%d" % k)
    r.rounds(6, among=rest)                        # applied beyond k1 on the leader
    if sim.leader(rest) != L or sim.objs[L].raftLastApplied != sim.last_index(L):
        return {}
    k1 = sim.log_of(L)[0][0] + 1
    r.ev("connect", lag, L)
    r.ev("tick", L, 0.1875)
    r.ev("tick", L, 0.1875)                         # two heartbeats in flight to the lagging follower
    if len(sim.chan[(L, lag)]) != 2 or any("prevLogIdx" not in m for m in sim.chan[(L, lag)]):
        return {}
    r.ev("deliver", L, lag)                        # -> reset #1
    r.ev("deliver", lag, L)
    r.ev("tick", L, 0.1875)                         # snapshot k1 in chunks + the following entries, behind heartbeat 2
    r.deliver_all(among={L, other})
    r.rounds(1, among=[L, other])
    for k in range(7, 9):
        r.ev("submit", L, "t%d" % k)               # two more entries: sent, not committed (the other follower stays silent)
    r.ev("tick", L, 0.1875)
    r.ev("tick", L, 0.1875)
    while sim.chan[(L, lag)]:
        r.ev("deliver", L, lag)                    # heartbeat 2 -> reset #2; snapshot installed; entries journaled + acknowledged
    held = sim.last_index(lag)
    q = sim.chan[(lag, L)]
    if sim.objs[lag].raftLastApplied >= held or not q or not q[0].get("reset") or held != sim.last_index(L):
        return {}
    r.ev("compact", L)
    r.ev("tick", L, 0.0625)
    r.ev("tick", L, 0.0625)                        # dump k2 > k1, head dropped
    k2 = sim.log_of(L)[0][0] + 1
    if not (k1 < k2 < held) or sim.objs[lag].raftLastApplied >= k2:
        return {}
    r.ev("deliver", lag, L)                        # the OLD reset #2: nextIndex far back, below the new journal head
    r.ev("tick", L, 0.1875)                         # -> the newer snapshot (and what follows it)
    info = {"leader": L, "followers": F, "lag": lag, "held": held, "k1": k1, "k2": k2}
    n = 0
    while sim.chan[(L, lag)] and n < 400:
        m = sim.chan[(L, lag)][0]
        r.ev("deliver", L, lag)
        n += 1
        if m.get("serialized") is not None and m["serialized"][2]:
            info["window_from"] = len(r.events)        # right after the last chunk of the newer snapshot
    if "window_from" not in info:
        return {}
    info["window_to"] = info["window_from"] + 1
    r.ev("tick", lag, 0.0625)
    for j in rest:
        if j != L:
            r.ev("connect", lag, j)
    r.rounds(8)
    r.ev("submit", L, "t9")
    r.rounds(3)
    return info


def base_snapshot_stale_dup(r):
    """FIFO channels only.  Two heartbeats in flight to a lagging follower give two `reset` replies and the leader sends
    its snapshot (k1) once per reply.  The follower installs the first copy, journals and applies what follows, and
    compacts its own log (own dump at C > k1, journal trimmed to C-1); then the second copy arrives: the node keeps
    state and log (it has applied k1 long ago) — its stored snapshot must stay the newer one its journal was trimmed to."""
    V = r.V
    sim = r.sim
    r.ev("connect_all")
    L = r.elect()
    if L is None:
        return {}
    F = [i for i in V if i != L]
    lag, other = F[-1], F[0]
    rest = [i for i in V if i != lag]
    r.ev("submit", L, "d0")
    r.rounds(3)
    for j in rest:
        r.ev("cut", lag, j)                        # unnoticed: the leader's nextIndex runs ahead
    for k in range(1, 4):
        r.ev("submit", L, "d%d" % k)
    r.rounds(5, among=rest)
    r.ev("compact", L)
    r.rounds(2, among=rest)                        # leader's dump k1, journal head dropped
    for k in range(4, 8):
        r.ev("submit", L, "d%d" % k)
    r.rounds(6, among=rest)
    if sim.leader(rest) != L or sim.objs[L].raftLastApplied != sim.last_index(L):
        return {}
    k1 = sim.log_of(L)[0][0] + 1
    r.ev("connect", lag, L)
    r.ev("tick", L, 0.1875)
    r.ev("tick", L, 0.1875)                        # two heartbeats in flight
    if len(sim.chan[(L, lag)]) != 2 or any("prevLogIdx" not in m for m in sim.chan[(L, lag)]):
        return {}
    r.ev("deliver", L, lag)                        # -> reset #1
    r.ev("deliver", L, lag)                        # -> reset #2
    r.ev("deliver", lag, L)                        # reset #1: the leader's nextIndex falls below its journal head
    r.ev("tick", L, 0.1875)                        # first copy of snapshot k1 + the following entries
    while sim.chan[(L, lag)]:
        r.ev("deliver", L, lag)
    r.ev("tick", lag, 0.0625)                      # applies what it knows committed
    r.ev("compact", lag)
    r.ev("tick", lag, 0.0625)
    r.ev("tick", lag, 0.0625)                      # own dump at C, journal trimmed to C-1
    C = sim.objs[lag].raftLastApplied
    if not (sim.log_of(lag)[0][0] == C - 1 and C > k1 + 1):
        return {}
    q = sim.chan[(lag, L)]
    if not q or not q[0].get("reset"):
        return {}
    r.ev("deliver", lag, L)                        # the second reset: the whole snapshot once more
    r.ev("tick", L, 0.1875)
    info = {"leader": L, "followers": F, "lag": lag, "k1": k1, "own_dump": C}
    n = 0
    while sim.chan[(L, lag)] and n < 400:
        m = sim.chan[(L, lag)][0]
        r.ev("deliver", L, lag)
        n += 1
        if m.get("serialized") is not None and m["serialized"][2]:
            info["window_from"] = len(r.events)    # right after the last chunk of the second copy
    if "window_from" not in info:
        return {}
    info["window_to"] = info["window_from"] + 2
    r.ev("tick", lag, 0.0625)
    for j in rest:
        if j != L:
            r.ev("connect", lag, j)
    r.rounds(8)
    r.ev("submit", L, "d9")
    r.rounds(3)
    return info


def base_minority(r):
    """a follower installs the leader's snapshot, then the OTHER follower is cut off: the next commands are committed
    on the strength of the first follower's acknowledgement alone; then the leader is cut off for good and the two
    followers go on"""
    V = r.V
    info = base_snapshot(r)
    if not info:
        return {}
    L, lag = info["leader"], info["lag"]
    other = [i for i in V if i not in (L, lag)]
    info["window_from"] = len(r.events)      # kills are inserted from here on, for victim sets that contain `lag`
    for o in other:
        for j in V:
            if j != o:
                r.ev("cut", o, j)
                r.ev("notice", o, j)
                r.ev("notice", j, o)
    ins = [i for i in V if i not in other]
    for k in range(2):
        r.ev("submit", L, "w%d" % k)
    r.rounds(4, among=ins)
    if r.sim.leader(ins) != L:
        return {}
    for j in V:
        if j != L:
            r.ev("cut", L, j)
            r.ev("notice", L, j)
            r.ev("notice", j, L)
    rest = [i for i in V if i != L]
    for n, a in enumerate(rest):
        for b in rest[n + 1:]:
            r.ev("connect", a, b)
    N = r.elect(among=rest)
    if N is None:
        return {}
    r.ev("submit", N, "z0")
    r.rounds(4, among=rest)
    info["new"] = N
    return info


def base_members(r):
    """dynamicMembershipChange: a (never reachable) node x joins and leaves, dumps are taken in between, and a deposed
    leader holds an uncommitted `add y` that the new leader's log replaces"""
    V = r.V
    r.ev("connect_all")
    L = r.elect()
    if L is None:
        return {}
    r.ev("submit", L, "m0")
    r.rounds(3)
    r.ev("member", L, "add", "x")
    r.rounds(5)
    r.ev("submit", L, "m1")
    r.rounds(4)
    F = [i for i in V if i != L]
    r.ev("compact", F[0])                     # dumps whose member list contains x
    r.ev("compact", L)
    r.rounds(2)
    r.ev("member", L, "rem", "x")             # membership entry after the dump position
    r.rounds(5)
    r.ev("submit", L, "m2")
    r.rounds(4)
    if r.sim.leader() != L:
        return {}
    for j in F:
        r.ev("cut", L, j)
        r.ev("notice", L, j)
        r.ev("notice", j, L)
    r.ev("member", L, "add", "y")             # appended by the cut-off leader only
    mark_y = len(r.events)
    r.ev("tick", L, 0.0625)
    r.ev("compact", L)                        # its dump must not contain y (position = lastApplied)
    r.ev("tick", L, 0.0625)
    r.ev("tick", L, 0.0625)
    N = r.elect(among=F)
    if N is None:
        return {}
    r.ev("submit", N, "n0")
    r.rounds(3, among=F)
    mark_back = len(r.events)
    for j in F:
        r.ev("connect", L, j)
    r.rounds(8)
    for v in V:
        r.ev("compact", v)
    r.rounds(2)
    r.ev("submit", N, "m3")
    r.rounds(4)
    return {"leader": N, "followers": [i for i in V if i != N], "old": L, "mark_y": mark_y, "mark_back": mark_back}


def base_members_drop(r):
    """`members`, kills only while the cut-off old leader holds the uncommitted `add y` (victim sets containing it)"""
    info = base_members(r)
    if not info:
        return {}
    info.update(window_from=info["mark_y"], window_to=info["mark_back"], lag=info["old"])
    return info


def base_members_vote(r):
    """dynamicMembershipChange: node X is removed and added again (both entries stay in the journals), then X stands for
    election and a voter grants it its vote; the voter is killed and restarted while that election is open"""
    V = r.V
    r.ev("connect_all")
    L = r.elect()
    if L is None:
        return {}
    F = [i for i in V if i != L]
    voter, X = F[0], F[1]
    r.ev("submit", L, "e0")
    r.rounds(3)
    r.ev("member", L, "rem", X)
    r.rounds(4)
    r.ev("member", L, "add", X)
    r.rounds(6)
    r.ev("submit", L, "e1")
    r.rounds(5)
    sim = r.sim
    if sim.leader() != L or sim.last_index(X) != sim.last_index(L) or X not in [n.id for n in sim.objs[voter].otherNodes]:
        return {}
    r.ev("tick", X, 2.0)                       # candidate of a new term
    n0 = len(sim.sent)
    r.ev("deliver", X, voter)
    if not any(s_ == voter and m["type"] == "response_vote" for (s_, d_, m) in sim.sent[n0:]):
        return {}
    info = {"leader": L, "followers": F, "lag": voter, "candidate": X, "window_from": len(r.events)}
    info["window_to"] = len(r.events) + 2
    r.ev("tick", voter, 0.0625)
    r.ev("deliver", voter, X)
    r.rounds(8)
    r.ev("submit", X, "e2")
    r.rounds(4)
    return info


def base_members_minority(r):
    """a node is added AFTER every voter's dump position; a follower is restarted from journal + dump, the other
    follower is cut off, and the restarted one stands for election: with the member set of its log (4) the votes of
    2 are not enough"""
    V = r.V
    r.ev("connect_all")
    L = r.elect()
    if L is None:
        return {}
    F = [i for i in V if i != L]
    r.ev("submit", L, "q0")
    r.rounds(4)
    for v in V:
        r.ev("compact", v)
    r.rounds(2)                                 # dumps taken before any membership change
    r.ev("member", L, "add", "x")
    r.rounds(5)
    r.ev("submit", L, "q1")
    r.rounds(4)
    if r.sim.leader() != L or "x" not in [n.id for n in r.sim.objs[F[0]].otherNodes]:
        return {}
    info = {"leader": L, "followers": F, "lag": F[0], "window_from": len(r.events)}
    r.rounds(1)
    info["window_to"] = info["tail_at"] = len(r.events)
    two = [F[0], L]
    tail = []
    for j in V:
        if j != F[1]:
            tail += [["cut", F[1], j], ["notice", F[1], j], ["notice", j, F[1]]]
    tail += [["tick", F[0], 2.0], ["deliver_all", two], ["rounds", 6, two], ["submit", F[0], "q2"], ["rounds", 5, two]]
    for j in V:
        if j != F[1]:
            tail.append(["connect", F[1], j])
    tail.append(["rounds", 10, None])
    info["tail_script"] = tail
    for e in tail:
        r.ev(*e)
    return info


BASES = {"vote": base_vote, "replication": base_replication, "snapshot": base_snapshot, "conflict": base_conflict,
         "members": base_members, "minority": base_minority, "snapshot_late": base_snapshot_late,
         "snapshot_partial": base_snapshot_partial, "members_minority": base_members_minority,
         "snapshot_stale_reset": base_snapshot_stale_reset, "members_vote": base_members_vote,
         "members_drop": base_members_drop, "snapshot_stale_dup": base_snapshot_stale_dup}
# (conflict: one batch per tick — with several pipelined batches and a conflicting LAST entry on the follower
#  the real code alternates between two reset replies forever; a progress matter (C05), see notes/restart.md)
BASE_CONF = {"vote": {}, "replication": {"appendEntriesBatchSizeBytes": 24},
             "snapshot": {"logCompactionBatchSize": 16, "appendEntriesBatchSizeBytes": 24},
             "conflict": {"appendEntriesBatchSizeBytes": 2 ** 16},
             "members": {"dynamicMembershipChange": True, "appendEntriesBatchSizeBytes": 64},
             "minority": {"logCompactionBatchSize": 16, "appendEntriesBatchSizeBytes": 24},
             "snapshot_late": {"logCompactionBatchSize": 16, "appendEntriesBatchSizeBytes": 24},
             "members_minority": {"dynamicMembershipChange": True, "appendEntriesBatchSizeBytes": 64},
             "snapshot_stale_reset": {"logCompactionBatchSize": 64, "appendEntriesBatchSizeBytes": 2 ** 16},
             "members_vote": {"dynamicMembershipChange": True, "appendEntriesBatchSizeBytes": 2 ** 16},
             "members_drop": {"dynamicMembershipChange": True, "appendEntriesBatchSizeBytes": 64},
             "snapshot_stale_dup": {"logCompactionBatchSize": 64, "appendEntriesBatchSizeBytes": 2 ** 16},
             "snapshot_partial": {"logCompactionBatchSize": 16, "appendEntriesBatchSizeBytes": 2 ** 16}}


def run_readonly(repo, spec, tmpdir, variant=0):
    """C18 with dynamicMembershipChange: the cluster grows from {a} to {a, b, c} while a read-only node o (own dump file,
    configured with [a] only) follows it; o compacts, is killed; a goes away for good; b and c go on; o is restarted
    with its ORIGINAL list [a].  Its node set must be the one its dump + log define, and it must catch up with the
    voters through the members it knows (its transport dials known nodes only: `connect_known`)."""
    r = Runner(repo, spec, tmpdir)
    try:
        sim = r.sim
        for v in r.V + r.O:
            r.ev("kill", v)
        r.ev("start", "a", [], False)                 # a cluster of one
        r.ev("start", "o", ["a"], True)
        r.ev("connect", "o", "a")
        if r.elect(among=["a"]) != "a":
            return r
        r.ev("submit", "a", "r0")
        r.rounds(3, among=["a", "o"])
        live = ["a", "o"]
        for n, (new, partners) in enumerate((("b", ["a"]), ("c", ["a", "b"]))):
            r.ev("start", new, partners, False)
            for j in partners:
                r.ev("connect", new, j)
            r.ev("member", "a", "add", new)
            live.append(new)
            r.rounds(6, among=live)
            r.ev("connect_known", "o", new)
            r.ev("submit", "a", "r%d" % (n + 1))
            r.rounds(4, among=live)
            if variant == 1 and n == 0:
                r.ev("compact", "o")                 # dump with {a, b} only; c is learnt from the log afterwards
                r.rounds(2, among=live)
        if variant != 1:
            r.ev("compact", "o")
            r.rounds(2, among=live)
        r.ev("submit", "a", "r3")
        r.rounds(4, among=live)
        r.cov["readonly:members-before-kill:%s" % ",".join(sorted(n.id for n in sim.objs["o"].otherNodes))] += 1
        r.ev("kill", "o")
        r.ev("kill", "a")                            # gone for good
        two = ["b", "c"]
        N = r.elect(among=two)
        if N is None:
            return r
        r.ev("submit", N, "r4")
        r.rounds(4, among=two)
        for rep in range(2 if variant == 2 else 1):
            r.ev("start", "o", ["a"], True)          # the original configuration
            r.ev("tick", "o", 0.0625)                # loads its own dump
            if rep == 0 and variant == 2:
                r.ev("kill", "o")
        r.cov["readonly:restarted-from-own-dump"] += 1
        for j in two:
            r.ev("connect_known", "o", j)
        three = two + ["o"]
        r.rounds(12, among=three)
        r.ev("submit", N, "r5")
        r.rounds(8, among=three)
        o, L = sim.objs["o"], sim.objs[N]
        want = set(r._voters_by_log())
        if variant == 1:
            want = want               # c was added after o's dump: o cannot know it before it has caught up — it does via b
        have = set(n.id for n in o.otherNodes)
        if o.raftLastApplied != L.raftLastApplied or list(o.log) != list(L.log):
            r.flag("restart:readonly-node-does-not-converge",
                   "read-only node o restarted from its own dump with its original node list ['a'] (a is gone): after 20 rounds "
                   "applied=%d state %r, the leader %s has applied=%d state %r; o's node set is %s"
                   % (o.raftLastApplied, list(o.log)[-4:], N, L.raftLastApplied, list(L.log)[-4:], sorted(have)))
        else:
            r.cov["readonly:converged"] += 1
        if have != want:
            r.flag("restart:readonly-members-not-log-defined",
                   "read-only node o after the restart from its own dump: node set %s, the membership commands of the log define %s"
                   % (sorted(have), sorted(want)))
    finally:
        r.close()
    return r


def record_base(repo, name, spec, tmpdir):
    r = Runner(repo, spec, tmpdir)
    try:
        info = BASES[name](r)
    finally:
        r.close()
    return r, info


def back_up(V, victims, probe=True, nr=0):
    """restart the victims (nr > 0: with a transport that is not ready for their first nr ticks), reconnect them, and let
    every other node try to get their vote in the current term"""
    ev = []
    for v in victims:
        ev.append(["restart", v])
        if nr:
            ev += [["not_ready", v, nr + 1], ["tick", v, 0.0], ["tick", v, 0.0]]
    for v in victims:
        for j in V:
            if j != v and (j not in victims or j > v):
                ev.append(["connect", v, j])
    if probe:
        for v in victims:
            ev.append(["probe_vote", v, "*"])
        for v in victims:                 # ... and again once the node has done its first tick (dump load, journal replay)
            ev.append(["tick", v, 0.0])
            ev.append(["probe_vote", v, "*"])
    return ev


def victim_sets(V, info):
    sets = [("single:" + v, [v]) for v in V]
    maj = len(V) // 2 + 1
    if len(V) > 2:
        sets.append(("majority-head", V[:maj]))
        sets.append(("majority-tail", V[-maj:]))
    sets.append(("all", list(V)))
    return sets


def directed_items(repo, name, spec, tmpdir, stride=1, offset=0, kinds=("between", "at-send", "repeat"), shard=(0, 1)):
    """returns [(label, events)] — every variant of the recorded base schedule `name` (every `stride`-th one,
    of those the shard j of K), and the recorded base run"""
    base, info = record_base(repo, name, spec, tmpdir)
    S = base.events
    if info and "tail_script" in info:
        S = base.events[:info["tail_at"]] + info["tail_script"]     # recorded head, scripted (adaptive) tail
    V = base.V
    sends = base.sends_of_event
    out = []
    if base.viol:
        out.append(("base", list(S)))
        return out, base
    if not info:
        return out, base
    tail = competitor_events(V, info) if name == "vote" else []
    n = 0
    picked = [0]
    p_from = info.get("window_from", 0)
    p_to = info.get("window_to", len(S))
    must = info.get("lag") if "window_from" in info else None

    def skip(n):
        if (n + offset) % stride:
            return True
        picked[0] += 1
        return picked[0] % shard[1] != shard[0]
    if "between" in kinds:
        for p in range(p_from, p_to + 1):
            for label, vs in victim_sets(V, info):
                if must is not None and must not in vs:
                    continue
                n += 1
                if skip(n):
                    continue
                ins = [["kill", v] for v in vs] + back_up(V, vs, nr=2 if n % 3 == 0 else 0)
                if name == "vote":
                    # the competitor becomes candidate (same term) at every later position q
                    for q in range(p, len(S) + 1):
                        out.append(("%s@%d/%s/q%d" % (name, p, label, q), S[:p] + ins + S[p:q] + tail + S[q:]))
                else:
                    out.append(("%s@%d/%s" % (name, p, label), S[:p] + ins + S[p:]))
    if "at-send" in kinds:
        for p, e in enumerate(S):
            if e[0] not in ("tick", "deliver") or not sends[p] or p < p_from or p > p_to:
                continue
            node = e[1] if e[0] == "tick" else e[2]
            for nth in range(1, sends[p] + 1):
                n += 1
                if skip(n):
                    continue
                ke = ["tick_k", e[1], e[2], nth] if e[0] == "tick" else ["deliver_k", e[1], e[2], nth]
                out.append(("%s@%d/at-send%d/%s" % (name, p, nth, node), S[:p] + [ke] + back_up(V, [node]) + tail + S[p + 1:]))
    if "repeat" in kinds and name != "vote":
        # everybody (then a majority, then everybody again) dies at several positions of ONE run
        for step in (5, 9, 14):
            n += 1
            if skip(n):
                continue
            ev = []
            for p, e in enumerate(S):
                ev.append(e)
                if p and p % step == 0:
                    vs = [list(V), V[:len(V) // 2 + 1], V[-(len(V) // 2 + 1):]][(p // step) % 3]
                    ev += [["kill", v] for v in vs] + back_up(V, vs, probe=False)
            out.append(("%s/repeat%d" % (name, step), ev))
    return out, base


# ------------------------------------------------------------------------------------------------------
# work items
# ------------------------------------------------------------------------------------------------------
def spec_for(name, n, dump, seed, extra=None):
    conf = dict(BASE_CONF.get(name, {}))
    conf.update(extra or {})
    return {"n": n, "dump": dump, "conf": conf, "seed": seed}


def ev_hash(spec, events):
    return hashlib.sha1(json.dumps([spec, events], sort_keys=True, default=str).encode()).hexdigest()[:16]


def summarize(r, label, spec, events=None):
    out = {"label": label, "n_events": len(r.events), "cov": dict(r.cov), "hash": ev_hash(spec, r.events),
           "violations": r.viol[:4], "callbacks": collections.Counter(c[3] for c in r.sim.callbacks)}
    if r.viol:
        out["spec"] = spec
        out["events"] = r.events
    return out


def _work(args):
    repo, item, base_seed, deadline, tmp = args
    res = []
    import logging
    logging.getLogger("pysyncobj").setLevel(logging.CRITICAL + 1)      # (worker process) the code logs what we judge
    if time.time() > deadline and item[0] != "corpus":
        return [{"label": "deadline", "cov": {"deadline-cut": 1}, "violations": [], "n_events": 0, "hash": None}]
    os.makedirs(tmp, exist_ok=True)
    try:
        if item[0] in ("random", "random-members"):
            _, k, n_events = item
            rng = _random.Random("%d/restart/%s/%d" % (base_seed, item[0], k))
            spec = {"n": [3, 2, 5, 3, 4][k % 5], "dump": k % 3 != 1, "conf": draw_conf(rng),
                    "seed": base_seed * 7919 + k}
            if item[0] == "random-members":
                spec["n"] = [3, 3, 4][k % 3]
                spec["conf"]["dynamicMembershipChange"] = True
            r = Runner(repo, spec, tmp)
            try:
                random_schedule(r, rng, n_events)
            finally:
                r.close()
            res.append(summarize(r, "%s/%d" % (item[0], k), spec))
        elif item[0] == "directed":
            _, name, n, dump, stride, offset, kinds = item[:7]
            shard = item[7] if len(item) > 7 else (0, 1)
            spec = spec_for(name, n, dump, base_seed * 31 + n)
            variants, base = directed_items(repo, name, spec, tmp, stride, offset, kinds, shard)
            if shard[0] == 0:
                res.append(summarize(base, "%s/base" % name, spec))
            # deterministic shuffle: when the deadline cuts the item, what is lost is spread over all kill positions
            _random.Random("%d/%s/%d/order" % (base_seed, name, n)).shuffle(variants)
            for label, events in variants:
                if time.time() > deadline:
                    res.append({"label": "deadline", "cov": {"deadline-cut": 1}, "violations": [], "n_events": 0, "hash": None})
                    break
                r = run_events(repo, spec, events, tmp)
                res.append(summarize(r, label, spec))
        elif item[0] == "readonly":
            _, variant, dump = item
            spec = {"n": 3, "dump": dump, "observer": True, "initial": ["a"], "seed": base_seed * 13 + variant,
                    "conf": {"dynamicMembershipChange": True, "appendEntriesBatchSizeBytes": 64}}
            r = run_readonly(repo, spec, tmp, variant)
            res.append(summarize(r, "readonly/%d/%s" % (variant, "dump" if dump else "journal"), spec))
        elif item[0] == "corpus":
            ent = json.load(open(item[1]))
            r = run_events(repo, ent["spec"], ent["events"], tmp)
            res.append(summarize(r, "corpus/" + os.path.basename(item[1]), ent["spec"]))
    finally:
        shutil.rmtree(tmp, ignore_errors=True)
    return res


def plan(ctx):
    items = []
    if ctx.pid == "C18":
        return [("readonly", v, d) for v in (0, 1, 2) for d in (True, False)]
    if ctx.pid == "C10":
        # membership across restarts only: the `members` family and random schedules with membership changes
        quick = ctx.tier == "quick"
        kinds = ("between", "at-send", "repeat")
        K = 4 if quick else 12
        items.append(("directed", "members_drop", 3, True, 5 if quick else 1, ctx.seed, ("between",), (0, 1)))
        for j in range(K):
            items.append(("directed", "members", 3, True, 8 if quick else 1, ctx.seed, kinds, (j, K)))
        if not quick:
            for j in range(K):
                items.append(("directed", "members", 3, False, 1, ctx.seed, kinds, (j, K)))
                items.append(("directed", "members", 4, True, 1, ctx.seed, kinds, (j, K)))
        for k in range(ctx.scale(8, 1500)):
            items.append(("random-members", k, ctx.scale(200, 420)))
        items += [("readonly", v, True) for v in (0, 1, 2)]
        return items
    if ctx.pid == "C04":
        # commit statements across restarts (C04's own components never restart a node)
        quick = ctx.tier == "quick"
        kinds = ("between", "at-send", "repeat")
        items.append(("directed", "snapshot_partial", 3, True, 1, ctx.seed, ("between", "at-send"), (0, 1)))
        items.append(("directed", "members_minority", 3, True, 1, ctx.seed, ("between",), (0, 1)))
        items.append(("directed", "members", 3, True, 12 if quick else 1, ctx.seed, kinds, (0, 1)))
        if quick:          # every kill position of the window of `minority`, in 4 shards
            for j in range(4):
                items.append(("directed", "minority", 3, True, 1, ctx.seed, ("between",), (j, 4)))
        else:
            items.append(("directed", "snapshot_partial", 3, False, 1, ctx.seed, ("between", "at-send"), (0, 1)))
            items.append(("directed", "snapshot_partial", 5, True, 1, ctx.seed, ("between", "at-send"), (0, 1)))
        for (name, n, dump, qs, ts, K) in (("minority", 3, True, 0, 1, 12), ("minority", 3, False, 4, 1, 12),
                                           ("snapshot", 3, True, 12, 1, 12), ("replication", 3, True, 16, 1, 12),
                                           ("conflict", 3, False, 12, 1, 12), ("minority", 5, True, 0, 2, 16),
                                           ("replication", 5, False, 0, 2, 16)):
            if quick and qs:
                items.append(("directed", name, n, dump, qs, ctx.seed, kinds, (0, 1)))
            elif not quick:
                for j in range(K):
                    items.append(("directed", name, n, dump, ts, ctx.seed, kinds, (j, K)))
        for k in range(ctx.scale(6, 1500)):
            items.append(("random", k, ctx.scale(220, 420)))
        return items
    if os.path.isdir(CORPUS):
        for fn in sorted(os.listdir(CORPUS)):
            if fn.endswith(".json") and fn.startswith("sched-"):
                items.append(("corpus", os.path.join(CORPUS, fn)))
    quick = ctx.tier == "quick"
    off = ctx.seed
    ALL = ("between", "at-send", "repeat")
    VOTE = ("between", "at-send")

    def fam(name, n, dump, q_stride, t_stride, kinds, t_shards=1):
        if quick:
            if q_stride:
                items.append(("directed", name, n, dump, q_stride, off, kinds, (0, 1)))
        else:
            for j in range(t_shards):
                items.append(("directed", name, n, dump, t_stride, off, kinds, (j, t_shards)))
    if ctx.pid == "C07":
        # elections are what C07 is about: every vote variant; the other families thinned in the quick tier
        fam("members_vote", 3, True, 1, 1, VOTE, 1)
        fam("members_vote", 3, False, 1, 1, VOTE, 1)
        fam("members_vote", 5, True, 0, 1, VOTE, 1)
        fam("snapshot_late", 3, True, 2, 1, VOTE, 4)
        fam("snapshot_late", 3, False, 0, 1, VOTE, 4)
        fam("vote", 3, False, 1, 1, VOTE, 2)
        fam("vote", 3, True, 1, 1, VOTE, 2)
        fam("vote", 5, True, 5, 1, VOTE, 12)
        fam("vote", 4, False, 5, 1, VOTE, 8)
        fam("replication", 3, True, 8, 1, ALL, 12)
        fam("conflict", 3, True, 8, 1, ALL, 12)
        fam("vote", 5, False, 0, 1, VOTE, 12)
        fam("vote", 4, True, 0, 1, VOTE, 8)
        fam("vote", 2, True, 0, 1, VOTE, 1)
        fam("replication", 5, False, 0, 1, ALL, 16)
        fam("snapshot", 3, False, 0, 1, ALL, 12)
        fam("conflict", 5, False, 0, 2, ALL, 16)
    else:
        fam("snapshot_partial", 3, True, 1, 1, VOTE, 1)
        fam("snapshot_partial", 3, False, 0, 1, VOTE, 1)
        fam("snapshot_stale_reset", 3, True, 1, 1, ("between",), 1)
        fam("snapshot_stale_dup", 3, True, 1, 1, ("between",), 1)
        fam("snapshot_stale_dup", 3, False, 0, 1, ("between",), 1)
        fam("snapshot_stale_reset", 3, False, 0, 1, ("between",), 1)
        fam("snapshot_late", 3, True, 6, 1, VOTE, 4)
        fam("replication", 3, True, 4, 1, ALL, 12)
        fam("replication", 2, False, 3, 1, ALL, 4)
        fam("snapshot", 3, True, 4, 1, ALL, 12)
        fam("conflict", 3, False, 4, 1, ALL, 12)
        fam("vote", 3, True, 3, 1, VOTE, 2)
        fam("members", 3, True, 8, 1, ALL, 12)
        fam("members", 3, False, 0, 1, ALL, 12)
        fam("members", 4, True, 0, 2, ALL, 12)
        fam("replication", 5, True, 0, 1, ALL, 16)
        fam("replication", 4, False, 0, 1, ALL, 16)
        fam("replication", 3, False, 0, 1, ALL, 12)
        fam("snapshot", 3, False, 0, 1, ALL, 12)
        fam("snapshot", 5, True, 0, 1, ALL, 16)
        fam("snapshot", 4, False, 0, 2, ALL, 12)
        fam("conflict", 5, True, 0, 1, ALL, 16)
        fam("conflict", 3, True, 0, 1, ALL, 12)
        fam("vote", 5, False, 0, 2, VOTE, 8)
    n_random = ctx.scale(48, 8000)
    n_events = ctx.scale(260, 420)
    for k in range(n_random):
        items.append(("random", k, n_events))
    return items


def run(ctx):
    global CURRENT_PID
    CURRENT_PID = ctx.pid
    t0 = time.time()
    items = plan(ctx)
    budget = ctx.scale({"C10": 5.0, "C04": 7.0}.get(ctx.pid, 17.0), 270.0)
    budget *= max(1.0, ctx.budget_s / float(ctx.scale(25, 420)))      # ./check retries an inconclusive run with 3x the budget
    deadline = t0 + budget
    root = ctx.tmpdir()
    # long directed items first, random ones fill the remaining time
    args = [(ctx.repo, it, ctx.seed, deadline, os.path.join(root, "w%d" % n)) for n, it in enumerate(items)]
    results = []
    mp = multiprocessing.get_context("fork")
    skipped = 0
    with mp.Pool(max(1, ctx.jobs)) as pool:
        pending = [pool.apply_async(_work, (a,)) for a in args]
        for p, a in zip(pending, args):
            try:
                results.extend(p.get(timeout=max(5.0, deadline + 40 - time.time())))
            except multiprocessing.TimeoutError:
                skipped += 1
    return assemble(ctx, results, t0, len(items), skipped)


def assemble(ctx, results, t0, planned, skipped=0):
    cov = collections.Counter()
    hashes = set()
    viols = []
    samples = []
    cases = 0
    for r in results:
        cov.update(r.get("cov") or {})
        for k, v in (r.get("callbacks") or {}).items():
            cov["callback:%s" % k] += v
        if r.get("hash"):
            cases += 1
            if r["n_events"] > 8:
                hashes.add(r["hash"])
        for v in r.get("violations") or []:
            if not for_property(ctx.pid, v["signature"]):
                cov["other-property-violation:" + v["signature"]] += 1
                continue
            if len([x for x in viols if x["signature"] == v["signature"]]) >= 2:
                continue
            ev = r["events"][:v.get("event_no", len(r["events"]))]
            viols.append({"signature": v["signature"], "what": "[%s] %s" % (r["label"], v["what"]),
                          "replay": {"spec": r["spec"], "events": ev, "label": r["label"]}})
        if len(samples) < 2 and r.get("n_events", 0) > 30:
            samples.append({"label": r["label"], "events": r["n_events"], "cov": {k: v for k, v in (r.get("cov") or {}).items() if not k.startswith("ev:")}})
    # shrink what is reported (budgeted)
    for v in viols[:3]:
        try:
            v["replay"]["events"] = shrink(ctx.repo, v["replay"]["spec"], v["replay"]["events"], v["signature"], ctx.tmpdir(),
                                           budget_s=ctx.scale(4.0, 30.0))
        except Exception:
            pass
    out = {"cases": cases, "distinct": len(hashes), "coverage": dict(sorted(cov.items())), "samples": samples,
           "disagreements": [], "violations": viols, "wall_s": round(time.time() - t0, 2),
           "notes": "planned items %d, schedules run %d, skipped by deadline %d" % (planned, cases, skipped + cov.get("deadline-cut", 0))}
    need = ["kill", "restart", "kill:leader", "kill:all-dead", "kill-at-send", "acked-entries-checked", "finale:converged"]
    if ctx.pid == "C18":
        need = ["readonly:restarted-from-own-dump", "readonly:converged", "restart:dump-loaded", "member:add"]
    elif ctx.pid == "C04":
        need = ["kill", "restart", "kill:leader", "kill:majority-dead", "restart:dump-loaded", "finale:converged",
                "restart:committed-positions-majority-checked"]
    elif ctx.pid == "C10":
        need = ["kill", "restart", "member:add", "member:rem", "finale:member-sets-compared",
                "restart:members-checked-over-dump-with-later-entries",
                "restart:membership-entry-held-at-restart-later-dropped"]
    elif ctx.pid == "C06":
        need += ["restart:dump-loaded", "success-callbacks-checked"]
    else:
        need += ["probe_vote", "restart:had-voted-in-term"]
    missing = [k for k in need if not cov.get(k)]
    if missing and not viols:
        out["inconclusive"] = "coverage floor missed: %s" % missing
    return out


# ------------------------------------------------------------------------------------------------------
# shrinking, search, replay
# ------------------------------------------------------------------------------------------------------
def fails_with(repo, spec, events, sig, tmp):
    r = run_events(repo, spec, events, tmp)
    return any(v["signature"] == sig for v in r.viol)


def shrink(repo, spec, events, sig, tmp, budget_s=10.0):
    t0 = time.time()
    ev = list(events)
    if not fails_with(repo, spec, ev, sig, tmp):
        return events
    chunk = max(1, len(ev) // 4)
    while chunk >= 1 and time.time() - t0 < budget_s:
        i = 0
        changed = False
        while i < len(ev) and time.time() - t0 < budget_s:
            cand = ev[:i] + ev[i + chunk:]
            if cand and fails_with(repo, spec, cand, sig, tmp):
                ev = cand
                changed = True
            else:
                i += chunk
        if not changed or chunk == 1:
            chunk //= 2
    return ev


def search(ctx, unproved):
    """More random schedules with a different stream (called when a theorem / correspondence broke)."""
    global CURRENT_PID
    CURRENT_PID = ctx.pid
    t0 = time.time()
    out = []
    tmp = ctx.tmpdir()
    k = 100000
    while time.time() - t0 < ctx.scale(10.0, 120.0) and not out:
        res = _work((ctx.repo, ("random", k, 400), ctx.seed, time.time() + 60, os.path.join(tmp, "s%d" % k)))
        for r in res:
            for v in r.get("violations") or []:
                if for_property(ctx.pid, v["signature"]):
                    out.append({"signature": v["signature"], "what": v["what"],
                                "replay": {"spec": r["spec"], "events": r["events"][:v.get("event_no", 10 ** 9)], "label": r["label"]}})
        k += 1
    return out[:3]


def replay(ctx, violation):
    global CURRENT_PID
    CURRENT_PID = ctx.pid
    rp = violation.get("replay") or {}
    tmp = ctx.tmpdir()
    try:
        if str(rp.get("label", "")).startswith("readonly/"):
            # the read-only scenario carries its own end-of-run statements: run it again as a whole
            r = run_readonly(ctx.repo, rp["spec"], tmp, int(rp["label"].split("/")[1]))
        else:
            r = run_events(ctx.repo, rp["spec"], rp["events"], tmp)
    finally:
        shutil.rmtree(tmp, ignore_errors=True)
    hit = [v for v in r.viol if v["signature"] == violation.get("signature")]
    return {"violated": bool(hit), "violations": (hit or r.viol)[:5], "events_applied": len(r.events), "tree": ctx.repo}
