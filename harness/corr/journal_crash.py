"""C08 crash clause (and the journal layer of C06): kill at every primitive write of every operation.

For (state, op) pairs - the state is built by a short op sequence on a REAL FileJournal with the
recorder on - every crash point (k, t) is enumerated: k = number of primitive writes of the op that
completed (0..np, np = finished), t = bytes of primitive k that still reached the file (sampled for
the tearable ones).  A crash image is an image of the DIRECTORY: journal, `<journal>.tmp` (the new file of
a head drop), `.meta`, `.meta.tmp`.  It is obtained in two ways: (A) snapshot of these files
before the op + the first k recorded primitives (+ t bytes of the next) applied to it; (B) a real kill:
pre-op files copied to a fresh place, fresh FileJournal, recorder with kill plan (k, t), op run until
`Killed`, objects abandoned without _destroy/flush - (B) must equal (A) byte for byte (all points of
the directed cases, a sample elsewhere).  The image is reopened with the REAL class and compared with
the model's `crash k t <op>` (file size + adler32, full bytes via `crashimg` when <= 16 KiB, .meta /
.meta.tmp, reopened len / offset / commit index / entries); a sample of reopened images is driven on
(`load` + a few ops on both sides).
`<journal>.tmp` is compared too (`jt=`, bytes via `crashjt`), reopen must leave it alone, and `crashat`
steps (a head drop really killed at or before its rename, then reopened) put a stale tmp into the
states from which further ops - further head drops included - are crash-enumerated.
File-system level pass (`fs_images`, model-free): every file-system-changing call the module makes while
an enumerated op runs (os.remove / unlink / rename / replace / renames / truncate, shutil.move / copy*,
open for writing + the content reaching the file) is an event; the directory is copied right before and
right after each one, every copy is reopened with the real class and judged by the property monitor.  A
journal file that is missing while there were entries is a violation by itself
(`journal.<method>:journal-file-missing-after-kill`).  Calls the model does not know show up as `FS:*`
primitives, so the (k, t) enumeration and the real kills stop before / after them as well.
Independently of the model the crash clause of the property statement is monitored on the real
reopened journal (lib.crash_monitor).  The head-drop loss D15 (deleteEntriesTo = clear + re-add, repaired
by fixes/D15-journal-head-drop-by-atomic-replace.diff) is reported as a violation with its old signature
and counted under `d15_headdrop_losses` (0 on a repaired tree)."""
import os
import shutil
import time

from harness.corr import journal_lib as lib

PROPERTIES = ["C08", "C06"]
ORDER = 51

T_POINTS = (0, 1, 3, 4, 5, 12, 19, 20, 21)


def small_adds(n, start=1, term=1, seed=0):
    return [["add", start + i, term, {"n": (3 + 5 * i) % 23, "s": seed + i}] for i in range(n)]


def directed_cases():
    """(ops, index of the op whose crash points are enumerated - all of them really killed)"""
    cs = []

    def case(name, pre, op, post=(), all_t=True):
        cs.append({"name": name, "ops": list(pre) + [op] + list(post), "crash": {len(pre)}, "kill_all": True, "all_t": all_t})

    case("add-small", small_adds(3), ["add", 4, 1, {"n": 30, "s": 9}])
    case("add-first", [], ["add", 1, 1, {"n": 7, "s": 9}])
    case("add-empty-cmd", small_adds(2), ["add", 3, 1, {"n": 0}])
    case("add-exact-fill", small_adds(2), ["addfit", 1, 0, 3, 1, 5])
    case("add-one-under", small_adds(2), ["addfit", 1, -1, 3, 1, 5])
    case("add-grow-double", small_adds(2), ["addfit", 1, 1, 3, 1, 5])
    case("add-grow-2x-exact", small_adds(2), ["addfit", 2, 0, 3, 1, 5])
    case("add-grow-to-fit", small_adds(2), ["addfit", 2, 1, 3, 1, 5])
    case("add-grow-8x", [], ["addx", 8, 0, 1, 1, 5])
    case("add-after-delfrom", small_adds(6) + [["delfrom", 2]], ["add", 9, 2, {"n": 11, "s": 3}])      # stale bytes behind
    case("add-after-reopen", small_adds(3) + [["reopen", "abandon"]], ["add", 9, 2, {"n": 11, "s": 3}])
    case("clear-nonempty", small_adds(4), ["clear"])
    case("clear-empty", [], ["clear"])
    for r in (0, 1, 9, 10, 11, 20, 25, 30):
        case("delfrom-back%d" % r, small_adds(30), ["delfrom_back", r])
    case("delfrom-beyond", small_adds(3), ["delfrom", 8])
    for n in (0, 1, 2, 4, 5, 7):
        case("delto-%d" % n, small_adds(5), ["delto", n], all_t=(n == 2))
    case("delto-big-records", [["add", 1, 1, {"n": 900, "s": 1}], ["add", 2, 1, {"n": 900, "s": 2}], ["add", 3, 1, {"n": 900, "s": 3}]],
         ["delto", 1])                                                                                   # tmp file grows
    case("delto-tmp-grows-to-fit", [["add", 1, 1, {"n": 3, "s": 1}], ["add", 2, 1, {"n": 5000, "s": 2}]], ["delto", 1])
    case("delto-empty-journal", [], ["delto", 0])
    case("delto-after-reopen", small_adds(4) + [["reopen", "abandon"]], ["delto", 1], all_t=False)
    case("delto-after-delto", small_adds(6) + [["delto", 2]], ["delto", 1], all_t=False)
    case("delto-pending-ci", small_adds(3) + [["setci", 5], ["timer"], ["setci", 6]], ["delto", 1], [["timer"]], all_t=False)
    # head drop then tail drop (and the other order) in ONE session, records of pairwise different sizes: every
    # crash point of the second op, the completed one included, must reopen to the right prefix (seeded C08-13)
    mixed = [["add", i + 1, 1, {"n": n, "s": i}] for i, n in enumerate((3, 50, 7, 120, 1, 33, 64, 9, 200, 17, 0, 81))]
    case("headdrop-then-taildrop", mixed[:9] + [["delto", 2]], ["delfrom", 5], [["add", 20, 2, {"n": 13, "s": 20}], ["reopen", "destroy"]],
         all_t=False)
    case("headdrop-then-taildrop-1", mixed[:6] + [["delto", 4]], ["delfrom", 1], [["add", 20, 2, {"n": 13, "s": 20}], ["reopen", "abandon"]],
         all_t=False)
    case("headdrop-add-taildrop", mixed[:7] + [["delto", 3], ["add", 20, 2, {"n": 77, "s": 20}]], ["delfrom", 2], [["reopen", "destroy"]],
         all_t=False)
    case("headdrop-then-taildrop-12", mixed + small_adds(14, 30) + [["delto", 5]], ["delfrom", 9], [["reopen", "destroy"]], all_t=False)
    case("taildrop-then-headdrop", mixed[:9] + [["delfrom", 7]], ["delto", 2], [["add", 20, 2, {"n": 13, "s": 20}], ["reopen", "destroy"]],
         all_t=False)
    case("taildrop-headdrop-taildrop", mixed[:10] + [["delfrom", 8], ["delto", 3]], ["delfrom", 2], [["add", 20, 2, {"n": 13, "s": 20}],
                                                                                                  ["reopen", "abandon"]], all_t=False)
    # a stale <journal>.tmp left by a head drop killed at / before its rename: every later op is
    # indifferent to it, reopen ignores it, the next head drop removes it first (JR) - and is killed again
    # (1, 0) = killed after JC before JW: an EMPTY <journal>.tmp; (1, 23) = torn header write of the tmp file
    for kk, tt in ((1, 0), (2, 0), (1, 23), (4, 11), (0.999, 0)):
        stale = small_adds(5) + [["crashat", ["delto", 2], kk, tt]]
        case("stale-k%s-t%d-delto" % (kk, tt), stale, ["delto", 1], all_t=(kk == 0.999))
    stale = small_adds(5) + [["crashat", ["delto", 2], 0.999, 0]]
    case("stale-delto-all", stale, ["delto", 9])
    case("stale-delto-after-reopen", stale + [["reopen", "destroy"]], ["delto", 3], all_t=False)
    case("stale-add", stale, ["add", 9, 2, {"n": 10, "s": 4}])
    case("stale-add-grow", stale + [["reopen", "abandon"]], ["addfit", 2, 1, 9, 2, 4])
    case("stale-delfrom", stale, ["delfrom", 2])
    case("stale-clear", stale, ["clear"])
    case("stale-timer", stale + [["setci", 7]], ["timer"])
    case("stale-twice", stale + [["crashat", ["delto", 1], 1, 0], ["crashat", ["delto", 1], 0.999, 0]], ["delto", 2], all_t=False)
    case("timer-first", [["setci", 5]], ["timer"])
    case("timer-replace", [["setci", 5], ["timer"], ["add", 1, 1, {"n": 3, "s": 1}], ["setci", 9]], ["timer"])
    case("timer-idle", [["setci", 5], ["timer"]], ["timer"])
    case("timer-after-reopen", [["setci", 5], ["timer"], ["reopen", "destroy"], ["setci", 6], ["setci", 7]], ["timer"])
    case("setci", [["setci", 5], ["timer"]], ["setci", 8])
    # setTermAndVote: the whole meta dict through .meta.tmp + rename, at once
    case("settv-first", [], ["settv", 1, "n1:1"])
    case("settv-pending-ci", [["setci", 5]], ["settv", 1, "n1:1"], [["timer"]])
    case("settv-replace", [["setci", 5], ["settv", 1, "n1:1"], ["add", 1, 1, {"n": 3, "s": 1}], ["setci", 9]], ["settv", 2, None])
    case("settv-same-again", [["settv", 1, "n1:1"]], ["settv", 1, "n1:1"])
    case("settv-after-reopen", [["setci", 4], ["settv", 1, "n2:2"], ["reopen", "abandon"], ["setci", 6]], ["settv", 2, "n2:2"])
    case("timer-after-settv", [["settv", 3, "n1:1"], ["setci", 7]], ["timer"])
    case("add-after-settv", [["setci", 2], ["settv", 3, "n1:1"]], ["add", 1, 1, {"n": 9, "s": 2}])
    case("delto-after-settv", small_adds(4) + [["setci", 2], ["settv", 3, "n1:1"], ["setci", 3]], ["delto", 2], all_t=False)
    case("add-with-pending-ci", [["setci", 5], ["timer"], ["setci", 6]], ["add", 1, 1, {"n": 5, "s": 2}], [["timer"]])
    return cs


no_stored_ci = lib.no_stored_ci


def t_values(L, rng, all_t):
    """bytes of a tearable primitive of length L that made it: boundary values + random ones"""
    if L <= 0:
        return [0]
    ts = set(T_POINTS) | {L - 5, L - 4, L - 1, L // 2, rng.randrange(L), rng.randrange(L)}
    ts = sorted(t for t in ts if 0 <= t < L)
    if not all_t and len(ts) > 5:
        keep = {0, L - 1}
        keep |= set(rng.sample(ts, 3))
        ts = sorted(keep)
    return ts


class Walker(object):
    def __init__(self, jm, model, model2, tmp, cov, out):
        self.jm, self.model, self.model2, self.cov, self.out = jm, model, model2, cov, out
        self.path = os.path.join(tmp, "j")
        self.scratch = os.path.join(tmp, "img")
        self.killdir = os.path.join(tmp, "kill")
        os.makedirs(self.killdir, exist_ok=True)
        self.killpath = os.path.join(self.killdir, "j")
        self.tailpath = os.path.join(self.killdir, "tail")
        if model2 is not None:
            model2.new()                            # `load` keeps the APP_VERSION of the last `new`
        self.points = set()
        self.samples = []
        self.d15_example = None
        self.deadline = None          # absolute time after which no further crash point is started

    def over(self):
        """enough failures collected (a broken tree fails at nearly every point) or out of time"""
        mf, ds = self.cov.get("monitor_failures", 0), self.cov.get("disagreements_seen", 0)
        if mf >= 12 or (mf >= 1 and mf + ds >= 12) or ds >= 80:     # keep looking for a failing input for a while
            return True
        return self.deadline is not None and time.time() > self.deadline

    # -- reporting ---------------------------------------------------------------------------------
    def disagree(self, note, m, i, inp):
        d = {"input": inp, "model": str(m)[:500], "impl": str(i)[:500], "note": note}
        self.cov.hit("disagreements_seen")
        if len(self.out["disagreements"]) < 3 and note.split(":")[0] not in [x["note"].split(":")[0] for x in self.out["disagreements"]]:
            self.out["disagreements"].append(d)

    def violate(self, sig, what, inp, kind="crash"):
        self.cov.hit("monitor_failures")
        if sig not in [v["signature"] for v in self.out["violations"]] and len(self.out["violations"]) < 5:
            self.out["violations"].append({"signature": sig, "what": what, "replay": dict(inp, kind=kind)})

    # -- one crash point ---------------------------------------------------------------------------
    def point(self, pre, op, snap, pending, prims, final, old, allowed, k, t, do_kill, cont_rng, tv_old=(0, None)):
        jm, cov = self.jm, self.cov
        np_ = len(prims)
        inp = {"pre": pre, "op": op, "k": k, "t": t}
        line = lib.op_line(op)
        kind = op[0]
        cov.hit("points." + kind)
        self.points.add(lib.ops_hash([pre, op, k, t]))
        if k < np_ and t > 0:
            cov.hit("points_torn")
            cov.hit("torn." + prims[k][0])
        if kind == "add" and any(p[0] == "R" for p in prims):
            cov.hit("points.add_with_growth")
        if kind == "delfrom" and np_ > 1:
            cov.hit("points.delfrom_with_intermediate_header_writes")
        if kind == "timer" and np_:
            cov.hit("points.timer_TC_TW_TM")
        if kind == "settv" and pending is not None:
            cov.hit("points.settv_with_pending_ci")
        if kind == "delto" and np_ and prims[-1][0] == "JM":
            cov.hit("points.delto_after_rename" if k == np_ else "points.delto_before_rename")
            if prims[0][0] == "JR":
                cov.hit("points.delto_with_stale_tmp")
            if [p[0] for p in prims].count("JZ") > 1:
                cov.hit("points.delto_tmp_grows")
        if snap[3] is not None:
            cov.hit("points.with_stale_tmp")
        img = lib.apply_prims(snap, prims, k, t)
        if k == np_ and img != final:
            self.disagree("interception: the recorded primitives do not reproduce the files after the op",
                          "-", "file %d bytes vs %d" % (len(img[0]), len(final[0])), inp)
        # (B) really kill
        if do_kill:
            cov.hit("kills_executed")
            imgB, killed, done, exc = lib.real_kill(jm, self.killpath, snap, pending, op, k, t)
            lib.remove_files(self.killpath)
            if exc is not None:
                self.violate("journal.%s:exception:%s" % (kind, type(exc).__name__), "%s raised %r" % (op[:3], exc), inp)
            if killed != (k < np_) or imgB != img:
                which = [n for n, a, b in zip(("journal", ".meta", ".meta.tmp", "journal.tmp"), img, imgB) if a != b]
                self.disagree("kill: files after a real kill differ from snapshot + recorded primitives", "-",
                              "killed=%s differing=%s prims done=%s" % (killed, which, lib.prims_str(done, jm)), inp)
        if img[0] is None:
            # no journal file at all (the model cannot express that): judged by the property monitor only
            cov.hit("points.journal_file_missing")
            m = lib.judge_image(jm, self.scratch, img, op, old, allowed, tv_old, cov)
            if m is not None:
                self.violate(m[0], m[1] + " (kill at primitive %d of %d: %s)" % (k, np_, lib.prims_str(prims[:k], jm)[-120:]), inp)
            return
        # reopen with the real class
        o = lib.open_image(jm, self.scratch, img)
        try:
            if "err" in o:
                post = "err " + o["err"]
            else:
                post = "len=%d cur=%d ci=%d ents=%s" % (o["len"], o["cur"], o["ci"], lib.ents_str(o["ents"]))
            mine = "ok np=%d %s | %s" % (np_, o["disk"], post)
            if self.model is not None:
                reply = self.model.ask("crash %d %d %s" % (k, t, line))
                if reply != mine:
                    self.disagree("crash image / reopen: " + lib.first_diff(reply, mine), reply, mine, inp)
                elif len(img[0]) <= lib.FULL_IMG_LIMIT:
                    cov.hit("crashimg_compared")
                    h = self.model.ask("crashimg %d %d %s" % (k, t, line))
                    if (b"" if h == "-" else bytes.fromhex(h)) != img[0]:
                        self.disagree("crash image bytes differ", h[:200], img[0].hex()[:200], inp)
                    if img[3] is not None and len(img[3]) <= lib.FULL_IMG_LIMIT:
                        cov.hit("crashjt_compared")
                        h = self.model.ask("crashjt %d %d %s" % (k, t, line))
                        if h == "absent" or (b"" if h == "-" else bytes.fromhex(h)) != img[3]:
                            self.disagree("crash image bytes of <journal>.tmp differ", h[:200], img[3].hex()[:200], inp)
            # reopening must leave a stale <journal>.tmp alone
            if "real" in o and img[3] is not None:
                cov.hit("reopen_with_stale_tmp")
                if lib._read(self.scratch + ".tmp") != img[3]:
                    self.disagree("reopen touched <journal>.tmp", "unchanged", "changed or removed", inp)
            # property monitor (model-free)
            if "err" in o:
                self.violate("journal.%s:reopen-raises-after-kill:%s" % (kind, o["err"]),
                             "reopening after a kill inside %s at primitive %d (+%d bytes) raises %s" % (op[:3], k, t, o["err"]), inp)
            else:
                m = lib.crash_monitor(op, old, o["ents"], o["ci"], allowed)
                tv_ok = {tuple(tv_old)} | ({(op[1], op[2])} if kind == "settv" else set())
                if m is None and o["tv"] not in tv_ok:
                    m = ("journal.setTermAndVote:lost-or-invented-after-kill",
                         "(term, vote) after kill+reopen is %r, admissible: %s" % (o["tv"], sorted(tv_ok, key=repr)))
                if m is not None:
                    if m[0] == lib.D15_SIGNATURE:
                        cov.hit("d15_headdrop_losses")
                    self.violate(m[0], m[1] + " (kill at primitive %d of %d, +%d bytes)" % (k, np_, t), inp)
                else:
                    # fixed model-free tail on fresh copies of the image: drop tail, add, drop head, add, reopen /
                    # drop everything (walks back over every record), add, reopen
                    cov.hit("tail.expected")
                    tl = lib.judge_tail(jm, self.tailpath, img, lib.METHOD.get(kind, kind), cov)
                    if tl is not None:
                        self.violate(tl[0], "%s killed at primitive %d of %d (+%d bytes; done: %s): %s"
                                     % (op[:3], k, np_, t, lib.prims_str(prims[:k], jm)[-100:], tl[1]), dict(inp, tail=tl[2]))
                # drive the reopened image on
                if cont_rng is not None and img[2] is None and self.model2 is not None:
                    self.continue_from(o, img, cont_rng, inp)
        finally:
            if "real" in o:
                o["real"].abandon()
            lib.remove_files(self.scratch)

    def continue_from(self, o, img, rng, inp):
        """the crash image as a starting state: model `load` (with the left-over <journal>.tmp if there
        is one), then a few ops on both sides - reopen and further head drops included"""
        jm = self.jm
        r2 = o["real"]
        self.cov.hit("continued_after_crash")
        stale = img[3] is not None
        if stale:
            self.cov.hit("continued_with_stale_tmp")
        meta = lib.meta_str(jm, self.scratch)
        reply = self.model2.ask("load %s %s%s" % (img[0].hex() or "-", meta, " " + (img[3].hex() or "-") if stale else ""))
        mine = "ok " + r2.summary(r2.open_prims)
        if reply != mine:
            self.disagree("load of a crash image: " + lib.first_diff(reply, mine), reply, mine, inp)
            return
        ref = list(r2.entries())
        n = len(ref)
        ops = []
        for _ in range(3):
            c = rng.random()
            if c < (0.3 if stale else 0.5):
                op = ["add", rng.randrange(1, 99), rng.randrange(1, 9), {"n": rng.choice([0, 5, 40, 1500]), "s": rng.randrange(99)}]
            elif c < (0.4 if stale else 0.65):
                op = ["delfrom", max(len(ref) - rng.choice([0, 1, 2, 10]), 0)]
            elif c < (0.7 if stale else 0.8):
                op = ["delto", rng.randrange(len(ref) + 2)]
            elif c < 0.9:
                op = ["reopen", rng.choice(["destroy", "abandon"])]
            else:
                op = rng.choice([["clear"], ["setci", 77], ["timer"]] + ([["settv", 7, "n2:2"]] * 2 if r2.has_tv() else []))
            ops.append(op)
            try:
                if op[0] == "reopen":
                    r2 = o["real"] = lib.reopen(r2, op[1])
                    prims = r2.open_prims
                else:
                    prims = r2.apply(op)
                    if op[0] == "delto" and prims and prims[0][0] == "JR":
                        self.cov.hit("continued_delto_removes_stale_tmp")
            except Exception as e:                       # noqa
                self.violate("journal.%s:exception:%s" % (op[0], type(e).__name__),
                             "after kill+reopen, %s raised %r" % (op[:3], e), dict(inp, then=ops))
                return
            reply = self.model2.ask(lib.op_line(op))
            mine = "ok " + r2.summary(prims)
            lib.ref_apply(ref, op)
            if reply != mine:
                self.disagree("ops after a crash image: " + lib.first_diff(reply, mine), reply, mine, dict(inp, then=ops))
                return
            if r2.entries() != ref:
                self.violate("journal.%s:list-divergence-after-crash-recovery" % op[0],
                             "after kill+reopen (%d entries) and %s the journal holds %s, a list %s"
                             % (n, ops, lib.short_ents(r2.entries()), lib.short_ents(ref)), dict(inp, then=ops))
                return

    # -- creation of the journal file as an examined operation ---------------------------------------
    def creation(self, with_meta):
        """kill points of FileJournal(path) on a missing / zero-length journal file: before FC, after it
        (zero-length file), inside the header write, before and after R1024 - each really killed, reopened
        with the real class (must be an empty, usable journal that still reads the stored meta data),
        compared with the model (`crashnew`, or `load` when a .meta exists); plus the fs-level images"""
        jm, cov, model, model2 = self.jm, self.cov, self.model, self.model2
        meta, ci, tv = lib.make_meta(jm, self.killdir) if with_meta else (None, 1, (0, None))
        for start in ("missing", "zero"):
            snap = ({"missing": None, "zero": b""}[start], meta, None, None)
            base = {"kind": "create", "start": start, "meta": bool(with_meta)}
            lib.write_snapshot(self.path, snap)
            fsimgs = []
            try:
                r = lib.Real(jm, self.path, fs_hook=lambda n, when, prim: fsimgs.append((n, when, prim, lib.snapshot(self.path))))
            except Exception:                            # noqa  e.g. ValueError on a zero-length file (D74)
                lib.remove_files(self.path)
                m, obs = lib.judge_creation_image(jm, self.scratch, snap, ci, tv, cov)
                cov.hit("points.create")
                cov.hit("points.create_zero_length")
                if m is not None:
                    self.violate(m[0], "FileJournal(path) on a %s journal file%s: %s"
                                 % (start, " with a stored .meta" if with_meta else "", m[1]), dict(base), kind="create")
                if model is not None:
                    self.disagree("creation on a zero-length file: real raises", model.ask("new " + model.ver)[:120], "exception", dict(base))
                continue
            prims, final = r.open_prims, lib.snapshot(self.path)
            r.abandon()
            lib.remove_files(self.path)
            self.out["cases"] += 1
            cov.hit("pairs.create")
            np_ = len(prims)
            for k, t in lib.creation_points(prims):
                inp = dict(base, k=k, t=t)
                cov.hit("points.create")
                self.points.add(lib.ops_hash(["create", start, with_meta, k, t]))
                img = lib.apply_prims(snap, prims, k, t)
                if img[0] is not None and len(img[0]) == 0:
                    cov.hit("points.create_zero_length")
                elif img[0] is not None and len(img[0]) < lib.FIRST:
                    cov.hit("points.create_torn_header")
                if with_meta:
                    cov.hit("points.create_with_meta")
                if k == np_ and img != final:
                    self.disagree("interception: the recorded primitives do not reproduce the files after the creation",
                                  "-", lib.prims_str(prims, jm), inp)
                imgB, killed, done, exc = lib.kill_creation(jm, self.killpath, snap, kill=(k, t))
                cov.hit("kills_executed")
                if exc is not None or killed != (k < np_) or imgB != img:
                    self.disagree("kill: files after a real kill of the creation differ from snapshot + recorded primitives", "-",
                                  "killed=%s exc=%r done=%s" % (killed, exc, lib.prims_str(done, jm)), inp)
                m, obs = lib.judge_creation_image(jm, self.scratch, img, ci, tv, cov)
                if m is not None:
                    self.violate(m[0], "FileJournal(path) killed at creation primitive %d of %d (+%d bytes), %s journal file%s: %s"
                                 % (k, np_, t, start, " with a stored .meta" if with_meta else "", m[1]), inp, kind="create")
                # model
                hexs = "-" if not img[0] else img[0].hex()
                if not with_meta and model is not None:
                    cov.hit("create.crashnew_compared")
                    reply = model.ask("crashnew %s %d %d" % (model.ver, k, t))
                    if "summary" in obs:
                        mine = "ok np=%d %s | len=%d cur=%d ci=%d fsize=%d fsum=%d P %s" % (
                            np_, obs["disk"], obs["len"], obs["cur"], obs["ci"], obs["fsize"], obs["fsum"], obs["prims"])
                    else:
                        mine = "exception " + str(obs.get("reopen"))
                    if reply != mine:
                        self.disagree("creation crash image / reopen: " + lib.first_diff(reply, mine), reply, mine, inp)
                elif with_meta and model2 is not None:
                    cov.hit("create.load_compared")
                    reply = model2.ask("load %s %s" % (hexs, lib.meta_value_str(jm, meta)))
                    mine = "ok " + obs["summary"] if "summary" in obs else "exception " + str(obs.get("reopen"))
                    if reply != mine:
                        self.disagree("creation crash image with .meta / reopen: " + lib.first_diff(reply, mine), reply, mine, inp)
            # fs-level images of the creation, straight from the directory
            seen = set()
            for n, when, prim, img in fsimgs:
                cov.hit("fs_images")
                cov.hit("fs_images.create")
                if img in seen:
                    continue
                seen.add(img)
                m, obs = lib.judge_creation_image(jm, self.scratch, img, ci, tv, cov)
                if m is not None:
                    self.violate(m[0], "FileJournal(path) killed %s %s (%s journal file%s): %s"
                                 % (when, lib.prim_str_short(prim), start, ", stored .meta" if with_meta else "", m[1]),
                                 dict(base, fs_index=n, when=when), kind="create")

    # -- one sequence ------------------------------------------------------------------------------
    def walk(self, case, rng, kill_p, cont_p):
        jm, model, cov = self.jm, self.model, self.cov
        lib.remove_files(self.path)
        try:
            real = lib.Real(jm, self.path)
        except Exception as e:                           # noqa
            self.violate("journal.open:exception:" + type(e).__name__, "creating a fresh journal raised %r" % (e,),
                         {"pre": [], "op": ["timer"], "k": 0, "t": 0})
            return
        if model is not None:
            model.new()
        ref, allowed, pre = [], set(), []          # values passed to setRaftCommitIndex so far
        tv = (0, None)                             # (term, vote) last stored by setTermAndVote
        crash = case.get("crash", "all")
        source = case.get("source")
        aops = case.get("ops")
        i = -1
        try:
            while True:
                i += 1
                if self.over():
                    break
                if source is not None:
                    op = source.next(real.view())
                    if op is None:
                        break
                else:
                    if i >= len(aops):
                        break
                    op = lib.resolve(aops[i], real.view())
                if op[0] == "add" and (op[1] >= lib.U64 or op[2] >= lib.U64):
                    continue
                if op[0] == "settv" and not real.has_tv():
                    continue                              # tree without setTermAndVote: op skipped silently
                if op[0] == "reopen":
                    if os.path.exists(self.path + ".tmp"):
                        cov.hit("walk.reopen_with_stale_tmp")
                    real = lib.reopen(real, op[1])
                    reply = model.ask("reopen") if model is not None else None
                    prims = real.open_prims
                elif op[0] == "crashat":
                    # a head drop really killed at / before its rename, then reopened: the list must be
                    # unchanged; the model takes its own crash image as the new state
                    op, _ = lib.concretise_crashat(jm, self.killpath, real, op)
                    real, _killed = lib.crash_reopen(real, op[1], op[2], op[3])
                    prims = real.open_prims
                    cov.hit("walk.crashat")
                    tl = lib.judge_tail(jm, self.tailpath, lib.snapshot(self.path), "deleteEntriesTo", cov)
                    if tl is not None:
                        self.violate(tl[0], "head drop %s killed at primitive %d (+%d bytes) and reopened: %s" % (op[1], op[2], op[3], tl[1]),
                                     {"pre": list(pre) + [op], "op": ["timer"], "k": 0, "t": 0, "tail": tl[2]})
                    if os.path.exists(self.path + ".tmp"):
                        cov.hit("walk.crashat_leaves_stale_tmp")
                        if os.path.getsize(self.path + ".tmp") == 0:
                            cov.hit("walk.crashat_leaves_empty_tmp")
                    reply = None
                    if model is not None:
                        reply = lib.model_crash_load(model, op[1], op[2], op[3])
                        if reply is None:
                            self.disagree("crashat: model image has a .meta.tmp", "-", "-", {"pre": list(pre), "op": op})
                            break
                else:
                    enum = crash == "all" or (crash == "some" and rng.random() < case.get("p", 0.4)) or \
                        (isinstance(crash, set) and i in crash)
                    if enum:
                        snap = lib.snapshot(self.path)
                        pending = real.pending_ci()
                        old = list(ref)
                    fsimgs = None
                    try:
                        if enum:
                            prims, fsimgs = lib.fs_images(real, op)
                        else:
                            prims = real.apply(op)
                    except Exception as e:               # noqa  (no kill planned here: the op itself fails)
                        self.violate("journal.%s:exception:%s" % (op[0], type(e).__name__),
                                     "%s after %d ops raised %r" % (op[:3], len(pre), e),
                                     {"pre": list(pre), "op": op, "k": 10 ** 6, "t": 0})
                        if model is not None:
                            self.disagree("real raises %s: %s" % (type(e).__name__, op[0]), model.ask(lib.op_line(op))[:200],
                                          "exception %r" % e, {"pre": list(pre), "op": op})
                        break
                    if op[0] == "setci":
                        allowed.add(op[1])
                    if enum:
                        final = lib.snapshot(self.path)
                        self.out["cases"] += 1
                        cov.hit("pairs." + op[0])
                        np_ = len(prims)
                        if model is not None:
                            r0 = model.ask("crash 0 0 " + lib.op_line(op))
                            mnp = lib.parse_kv(r0).get("np")
                            if mnp != str(np_):
                                self.disagree("number of primitives of the op", r0[:200], "np=%d %s" % (np_, lib.prims_str(prims, jm)),
                                              {"pre": list(pre), "op": op})
                        if case.get("name") in ("delto-2", "delfrom-back25", "timer-replace") and len(self.samples) < 3:
                            self.samples.append({"name": case["name"], "entries_before": len(old), "op": op,
                                                 "primitives": lib.prims_str(prims, jm),
                                                 "crash_points": "k=0..%d, every sampled t really killed and reopened" % np_})
                        # file-system level images, straight from the directory, judged model-free
                        adm = set(allowed) | ({1} if no_stored_ci(jm, snap) else set())
                        for sig, what, n, when in lib.judge_fs_images(jm, self.scratch, fsimgs, op, old, adm, tv, cov):
                            self.violate(sig, "%s on %d entries %s" % (lib.METHOD.get(op[0], op[0]), len(old), what),
                                         {"pre": list(pre), "op": op, "fs_index": n, "when": when}, kind="fs")
                        ks = list(range(np_ + 1))
                        if np_ > 14 and not case.get("kill_all", False):
                            # long head drops in the seeded stream: both ends + a sample of the middle
                            ks = sorted(set(ks[:4] + ks[-3:] + rng.sample(ks, 6)))
                            cov.hit("pairs.k_sampled")
                        for k in ks:
                            L = lib.prim_len(prims[k]) if k < np_ else 0
                            for t in t_values(L, rng, case.get("all_t", False)):
                                if self.over():
                                    break
                                do_kill = case.get("kill_all", False) or rng.random() < kill_p
                                crng = rng if rng.random() < cont_p else None
                                # the default 1 is admissible only while no commit index had been stored
                                # (no .meta, or a .meta written by setTermAndVote before any setRaftCommitIndex)
                                adm = set(allowed) | ({1} if no_stored_ci(jm, snap) else set())
                                self.point(list(pre), op, snap, pending, prims, final, old, adm, k, t, do_kill, crng, tv)
                    reply = model.ask(lib.op_line(op)) if model is not None else None
                if reply is not None:
                    mine = "ok " + real.summary(prims)
                    if reply != mine:
                        self.disagree("state while building: " + lib.first_diff(reply, mine), reply, mine, {"pre": list(pre), "op": op})
                        break
                lib.ref_apply(ref, op)
                pre.append(op)
                if op[0] == "settv":
                    tv = (op[1], op[2])
                if real.tv() != tv:
                    self.violate("journal.setTermAndVote:not-persisted", "after %s getTermAndVote() = %r, last stored %r"
                                 % (op[:2], real.tv(), tv), {"pre": list(pre[:-1]), "op": op, "k": 10 ** 6, "t": 0})
                    break
                if real.entries() != ref:
                    self.violate("journal.%s:list-divergence" % op[0], "journal %s, list %s" % (lib.short_ents(real.entries()), lib.short_ents(ref)),
                                 {"pre": list(pre[:-1]), "op": op, "k": len(prims), "t": 0})
                    break
        finally:
            real.abandon()
            lib.remove_files(self.path)


# ---------------------------------------------------------------------------------------------------
def _shrink_disagreements(ctx, jm, model, tmp, out):
    """drop state-building ops while the same (op, k, t) still disagrees"""
    res = []
    for d in out["disagreements"]:
        inp = d["input"]
        if "k" not in inp or "pre" not in inp:
            res.append(d)
            continue

        def again(pre, inp=inp):
            o2 = {"cases": 0, "disagreements": [], "violations": []}
            w = Walker(jm, model, None, os.path.join(tmp, "shrink"), lib.Cov(), o2)
            os.makedirs(os.path.join(tmp, "shrink"), exist_ok=True)
            w.walk({"ops": pre + [inp["op"]], "crash": {len(pre)}, "kill_all": True, "all_t": True}, ctx.rng("journal_crash/shrink"), 1.0, 0.0)
            return o2["disagreements"]
        pre = [list(o) for o in inp["pre"]]
        i = len(pre) - 1
        runs = 0
        while i >= 0 and runs < 40:
            cand = pre[:i] + pre[i + 1:]
            runs += 1
            if again(cand):
                pre = cand
            i -= 1
        ds = again(pre)
        res.append(ds[0] if ds else d)
    out["disagreements"] = res[:3]


def run(ctx):
    t0 = time.time()
    jm = lib.load_journal(ctx.repo)
    rng = ctx.rng("journal_crash")
    tmp = ctx.tmpdir()
    model, model2 = lib.Model(jm), lib.Model(jm)
    cov = lib.Cov()
    out = {"cases": 0, "distinct": 0, "coverage": cov, "samples": [], "disagreements": [], "violations": []}
    w = Walker(jm, model, model2, tmp, cov, out)
    budget = ctx.scale(24.0, 230.0)       # safety net only
    w.deadline = t0 + budget
    try:
        # creation of the journal file (D74): kill points of the constructor on a missing / zero-length file
        w.creation(False)
        w.creation(True)
        # phase 0 (fast, model-free): the file-system level images of every op of every directed sequence
        for c in directed_cases():
            for v in lib.fs_check_sequence(jm, tmp, c["ops"], cov=cov, limit=2):
                cov.hit("monitor_failures")
                if v["signature"] not in [x["signature"] for x in out["violations"]] and len(out["violations"]) < 5:
                    out["violations"].append(v)
            cov.hit("sequences.fs_pass")
        for c in directed_cases():
            if w.over():
                break
            w.walk(c, ctx.rng("journal_crash/" + c["name"]), 1.0, 0.2)
            cov.hit("sequences.directed")
        n_rand = ctx.scale(14, 1200)
        done = 0
        for i in range(n_rand):
            if time.time() - t0 > budget or len(out["disagreements"]) >= 3 or w.over():
                break
            crng = ctx.rng("journal_crash/%d" % i)
            src = lib.RandomSource(crng, crng.choice([5, 10, 18, 30]), crng.choice([4096, 8192, 16384, 16384, 65536]))
            w.walk({"source": src, "crash": "some", "p": 0.35}, crng, 0.25, 0.15)
            cov.hit("sequences.random")
            done += 1
        cov["random_planned"], cov["random_done"] = n_rand, done
        if out["disagreements"]:
            _shrink_disagreements(ctx, jm, model, tmp, out)
    finally:
        model.close()
        model2.close()
    out["distinct"] = len(w.points)
    cov["crash_points"] = len(w.points)
    cov.setdefault("d15_headdrop_losses", 0)
    out["samples"] = w.samples
    out["coverage"] = dict(sorted(cov.items()))
    out["wall_s"] = round(time.time() - t0, 2)
    floors = [("points.add", 100), ("points.clear", 4), ("points.delfrom", 20), ("points.delto", 50), ("points.timer", 10),
              ("points.setci", 1), ("points_torn", 100), ("torn.S", 50), ("torn.TW", 5), ("kills_executed", 200),
              ("points.add_with_growth", 20), ("points.delfrom_with_intermediate_header_writes", 8),
              ("points.timer_TC_TW_TM", 10), ("crashimg_compared", 200), ("continued_after_crash", 20),
              # head drop by new file + rename
              ("points.delto_before_rename", 100), ("points.delto_after_rename", 10), ("torn.JS", 30), ("torn.JW", 10),
              ("points.delto_with_stale_tmp", 30), ("points.delto_tmp_grows", 20), ("points.with_stale_tmp", 50),
              ("reopen_with_stale_tmp", 50), ("crashjt_compared", 50), ("continued_with_stale_tmp", 10),
              ("continued_delto_removes_stale_tmp", 2), ("walk.crashat_leaves_stale_tmp", 5),
              ("points.settv", 30), ("points.settv_with_pending_ci", 8),
              # file-system level images
              ("fs_images", 200), ("fs_images.between_two_fs_calls_of_one_op", 100), ("fs.headdrop_calls", 20),
              ("fs_calls.delto", 20), ("fs_calls.timer", 9), ("fs_calls.settv", 9),
              # creation of the journal file
              ("points.create", 10), ("points.create_zero_length", 2), ("points.create_torn_header", 4),
              ("points.create_with_meta", 5), ("fs_images.create", 8), ("walk.crashat_leaves_empty_tmp", 1),
              # fixed continuation after every crash + reopen
              ("tail.points", 500), ("tail.steps", 3000), ("tail.after.add", 100), ("tail.after.deleteEntriesTo", 100),
              ("tail.after.deleteEntriesFrom", 10), ("tail.after.create", 10)]
    missed = ["%s=%d<%d" % (k, cov.get(k, 0), f) for k, f in floors if cov.get(k, 0) < f]
    if cov.get("tail.points", 0) < cov.get("tail.expected", 0):
        missed.append("fixed tail ran on %d crash points, %d were reopened cleanly" % (cov.get("tail.points", 0), cov.get("tail.expected", 0)))
    if cov.get("fs.headdrop_calls_with_before_and_after", 0) != cov.get("fs.headdrop_calls", 0):
        missed.append("head-drop file-system calls without a before AND an after image: %d of %d have both"
                      % (cov.get("fs.headdrop_calls_with_before_and_after", 0), cov.get("fs.headdrop_calls", 0)))
    if done < n_rand // 2 and len(out["disagreements"]) < 3:
        missed.append("random sequences %d < %d (time budget)" % (done, n_rand // 2))
    if missed and not out["violations"] and not out["disagreements"]:
        out["inconclusive"] = "journal_crash coverage floor missed: " + ", ".join(missed)
    return out


# ---------------------------------------------------------------------------------------------------
def search(ctx, unproved):
    """monitor-only crash fuzz on the real code (no model); D15 is left to its witness"""
    jm = lib.load_journal(ctx.repo)
    tmp = ctx.tmpdir()
    out = {"cases": 0, "disagreements": [], "violations": []}
    w = Walker(jm, None, None, tmp, lib.Cov(), out)
    t0 = time.time()
    limit = ctx.scale(4.0, 30.0)
    cases = directed_cases()
    i = 0
    while time.time() - t0 < limit and len(out["violations"]) < 2:
        crng = ctx.rng("journal_crash/search/%d" % i)
        if i < len(cases):
            c = dict(cases[i], kill_all=False)
            w.walk(c, crng, 0.1, 0.0)
        else:
            src = lib.RandomSource(crng, crng.choice([5, 10, 18]), 16384)
            w.walk({"source": src, "crash": "some", "p": 0.5}, crng, 0.1, 0.0)
        i += 1
    return out["violations"]


def replay_crash(jm, tmp, rp):
    """re-run one crash point with a REAL kill; returns (monitor verdict or None, description)"""
    path = os.path.join(tmp, "j")
    lib.remove_files(path)
    try:
        real = lib.Real(jm, path)
    except Exception as e:                               # noqa
        return ("journal.open:exception:" + type(e).__name__, "creating a fresh journal raised %r" % (e,)), False
    ref, allowed, tv = [], set(), (0, None)
    try:
        for op in rp.get("pre", []):
            if op[0] == "reopen":
                real = lib.reopen(real, op[1])
            elif op[0] == "crashat":
                op, _ = lib.concretise_crashat(jm, os.path.join(tmp, "dry"), real, op)
                real, _k = lib.crash_reopen(real, op[1], op[2], op[3])
            elif op[0] == "settv" and not real.has_tv():
                continue
            else:
                real.apply(op)
                if op[0] == "setci":
                    allowed.add(op[1])
                if op[0] == "settv":
                    tv = (op[1], op[2])
            lib.ref_apply(ref, op)
        op = rp["op"]
        if op[0] == "setci":
            allowed.add(op[1])
        snap = lib.snapshot(path)
        pending = real.pending_ci()
        if no_stored_ci(jm, snap):
            allowed.add(1)
    finally:
        real.abandon()
    kp = os.path.join(tmp, "k")
    img, killed, done, exc = lib.real_kill(jm, kp, snap, pending, op, rp.get("k", 0), rp.get("t", 0))
    if exc is not None:
        lib.remove_files(kp)
        return ("journal.%s:exception:%s" % (op[0], type(exc).__name__), "%s raised %r" % (op[:3], exc)), killed
    if img[0] is None:
        lib.remove_files(path)
        return lib.judge_image(jm, kp, img, op, ref, allowed, tv), killed
    o = lib.open_image(jm, kp, img)
    try:
        if "err" in o:
            return ("journal.%s:reopen-raises-after-kill:%s" % (op[0], o["err"]), "reopen raises " + o["err"]), killed
        m = lib.crash_monitor(op, ref, o["ents"], o["ci"], allowed)
        tv_ok = {tv} | ({(op[1], op[2])} if op[0] == "settv" else set())
        if m is None and o["tv"] not in tv_ok:
            m = ("journal.setTermAndVote:lost-or-invented-after-kill", "(term, vote) after kill+reopen is %r" % (o["tv"],))
        if m is None and rp.get("then"):
            r2, ref2 = o["real"], list(o["ents"])
            for op2 in rp["then"]:
                try:
                    r2.apply(op2)
                except Exception as e:                   # noqa
                    return ("journal.%s:exception:%s" % (op2[0], type(e).__name__), "%s raised %r" % (op2[:3], e)), killed
                lib.ref_apply(ref2, op2)
            if r2.entries() != ref2:
                m = ("journal.%s:list-divergence-after-crash-recovery" % rp["then"][-1][0], "journal %s list %s"
                     % (lib.short_ents(r2.entries()), lib.short_ents(ref2)))
        if m is not None:
            return m, killed
    finally:
        if "real" in o:
            o["real"].abandon()
        lib.remove_files(kp)
        lib.remove_files(path)
    tl = lib.judge_tail(jm, kp, img, lib.METHOD.get(op[0], op[0]))
    return (None if tl is None else tl[:2]), killed


def replay(ctx, violation):
    jm = lib.load_journal(ctx.repo)
    rp = violation.get("replay") or {}
    tmp = ctx.tmpdir()
    try:
        if rp.get("kind") == "create":
            m, killed = lib.replay_create(jm, tmp, rp)
        elif rp.get("kind") == "fs" or "fs_index" in rp:
            m, killed = lib.replay_fs(jm, tmp, rp)
        else:
            m, killed = replay_crash(jm, tmp, rp)
    finally:
        shutil.rmtree(tmp, ignore_errors=True)      # ./check --replay does not clean up the ctx
    return {"violated": m is not None, "signature": m and m[0], "what": m and m[1], "killed": killed, "tree": ctx.repo}
