"""C17 correspondence `versions.apply` + property monitors on the real code.

A *script* (list of ops, replayable) is executed on REAL SyncObj instances built from generated class sources
(single node, dummy transport, injected log) and on `driver versions`; after every op the abstract state
(enabled version, name table incl. the funcID a real call produces, lastApplied, commit, log, waiting
subscribers) and the ordered observations of every `__applyLogEntries` call (implementations run, callbacks,
onCodeVersionChanged, logged WrongVer / blocked) are diffed.

Ops: node (inject state) | fresh (restart: new instance, optionally other code) | apply | commit | append | sub |
setver | call (a real `obj.f(x)`; the command it produces is appended to the log) | dump | compact | load.
Dump modes: in memory, file (`fullDumpFile`, no fork), user serializer (enabled version next to the internal data, repair D22).

Registered for C01 as well (same families; signatures C01_SIGS: a node caught up by snapshot / dump that does not know the
enabled version, or that applies entries although the cluster is on a version its code lacks).
Registered for C09 as well (`ctx.pid == "C09"`): only the dump / load / install families run (directed restore cases with
the code ahead of the enabled version, pair scripts with dumps) and only the signatures about the restored enabled
version / name table are reported (C09: a snapshot restores the object state "enabled code version included").

Monitors (written against the property text, evaluated on the real observations only):
  M1 nothing is applied at or after a VERSION entry the node's code does not have; no entry is applied twice
  M2 a call resolves to the newest implementation whose version is <= getCodeVersion(), also after load/restart
  M3 a node whose enabled version is above its code applies nothing
  M4 old and new code run the same method for every entry (pair scripts)
  M6 along the applied log the enabled version of a node never decreases (D71)
  M5 inside conf.onCodeVersionChanged(old, new): getCodeVersion() == new and every replicated call issued from the hook
     (one real call per method of the object and of every consumer) resolves to the newest implementation <= new
"""
import collections
import gzip
import hashlib
import io
import json
import os
import random
import re
import traceback

from harness.corr import versions_lib as L

PROPERTIES = ["C17", "C09", "C01", "C11"]
ORDER = 45

# unknown function ids: since the D9 repair the KeyError of `_idToMethod[funcID]` is caught in `__doApplyCommand`,
# logged and returned as the command's result (model: `Ev.unknownId` + `Res.keyError`, entry consumed, loop goes on).
INCLUDE_UNKNOWN_IDS = True

SIG_AFTER = "syncobj.applyLogEntries:applied-after-unsupported-version"
SIG_TWICE = "syncobj.applyLogEntries:entry-applied-twice"
SIG_BLOCKED = "syncobj.applyLogEntries:applied-with-unsupported-enabled-version"
SIG_TABLE = "syncobj.loadDumpFile:call-not-newest-version-le-enabled"
SIG_LOST = "syncobj.loadDumpFile:enabled-version-not-restored"
SIG_LOST_USER = "syncobj.loadDumpFile:enabled-version-not-restored-with-user-serializer"
RESTORE_SIGS = (SIG_TABLE, SIG_LOST, SIG_LOST_USER, "syncobj.loadDumpFile:call-from-install-callback-not-newest-version-le-enabled")     # what the C09 plan reports (restored enabled version / name table)
SIG_REFUSED = "syncobj.doApplyCommand:supported-version-refused"
SIG_DOWN = "syncobj.doApplyCommand:enabled-version-decreased"
# what the C01 plan reports: a node caught up by snapshot / dump does not know the enabled version, or applies entries
# although the cluster is on a version its code lacks (its state is then not the execution of the prefix it reports)
C01_SIGS = (SIG_LOST, SIG_LOST_USER, SIG_BLOCKED, SIG_AFTER)
# what the C11 plan reports: a command executed twice / executed although an unsupported version entry precedes it
# (C11: "every replica executes the method exactly once with equal arguments")
C11_SIGS = (SIG_TWICE, SIG_AFTER)
PLAN_SIGS = {"C09": RESTORE_SIGS, "C01": C01_SIGS, "C11": C11_SIGS}
SIG_TABLE_APPLY = "syncobj.doApplyCommand:call-not-newest-version-le-enabled"
SIG_PAIR = "syncobj.applyLogEntries:old-and-new-code-run-different-method"
SIG_GUARD = "syncobj.setCodeVersion:unsupported-or-lower-version-accepted"
SIG_HOOK = "syncobj.doApplyCommand:call-from-version-hook-not-newest-version-le-enabled"
SIG_HOOK_VER = "syncobj.doApplyCommand:version-hook-sees-other-enabled-version"
SIG_CB_LOAD = "syncobj.loadDumpFile:call-from-install-callback-not-newest-version-le-enabled"


def _spec_self_ver(spec):
    return max([v for _, _, v in L.decls_of(spec)] + [0])


class Runner(object):
    """Executes a script on the real code; collects driver lines + expected answers + monitor verdicts."""

    def __init__(self, ctx, ns, specs, mode, seed):
        self.ctx, self.ns, self.specs, self.mode = ctx, ns, specs, mode
        self.rng = random.Random(seed)
        self.b = None
        self.cur = None
        self.lines, self.expect = [], []
        self.viol = []
        self.arg2idx = {}
        self.ran_since_reset = []        # idx of implementations run since the last node/fresh/load
        self.all_built = []
        self.have_dump = False
        self.mem_dump = None
        self.dump_enabled = None         # getCodeVersion() of the node that took the dump, at that moment
        self.dump_last = None            # index of the dump's last entry
        self.loaded_enabled = None       # enabled version of the dump this instance installed (None: none installed)
        self.error = None
        self.tmp = None
        self.pair_trace = {}             # specname -> {idx: (obj, orig, ver)}
        self.after_load = False
        self.cov = collections.Counter()
        self.tok = None

    # ---- helpers -------------------------------------------------------------------------------
    def _conf_kw(self):
        if self.mode == "mem":
            return {}
        if self.tmp is None:
            self.tmp = self.ctx.tmpdir()
        path = os.path.join(self.tmp, "dump.bin")
        if self.mode == "file":
            return {"fullDumpFile": path}
        pk = self.ns["pickle"]

        def ser(fileName, data):
            with open(fileName, "wb") as f:
                f.write(pk.dumps(data))

        def deser(fileName):
            with open(fileName, "rb") as f:
                return pk.loads(f.read())
        return {"fullDumpFile": path, "serializer": ser, "deserializer": deser}

    def _build(self, name):
        if self.tok is not None:
            L.remove_log_capture(self.tok)
        spec = self.specs[name]
        src = L.source_of(spec, random.Random(self.rng.random()))
        b = L.build(self.ns, spec, src, self._conf_kw())
        self.tok = L.install_log_capture(b)
        self.all_built.append(b)
        self.b, self.cur = b, name
        self.ran_since_reset = []
        self.loaded_enabled = None
        return b

    def close(self):
        if self.tok is not None:
            L.remove_log_capture(self.tok)
            self.tok = None
        for b in self.all_built:
            L.destroy(b)

    def _table_with_ids(self):
        b = self.b
        tab = L.extract_table(b)
        out = {}
        for (o, orig), nm in tab.items():
            out[(o, orig)] = (nm, L.call_id(b, o, orig))
        return out

    def _state(self):
        st = L.extract_state(self.b)
        st["table"] = self._table_with_ids()
        return st

    def _emit(self, line, kind, exp):
        self.lines.append(L.jdump(line))
        self.expect.append((kind, exp, line))

    def _violation(self, sig, what, script):
        if len(self.viol) < 3:
            self.viol.append({"signature": sig, "what": what})

    # ---- monitors ------------------------------------------------------------------------------
    def _monitor_table(self, site):
        """M2: every key resolves to the newest implementation <= getCodeVersion() that this code has."""
        b = self.b
        spec = self.specs[self.cur]
        e = b.obj.getCodeVersion()
        ids, _ = L.extract_ids(b)
        for (o, orig) in sorted({(o, nm) for o, nm, _ in L.decls_of(spec)}):
            want = L.expected_impl_version(spec, o, orig, e)
            cid = L.call_id(b, o, orig)
            got = None if cid is None else ids[cid][0]
            ok = (cid is None) if want is None else (cid is not None and ids[cid][0] == want and ids[cid][1] == o
                                                    and ids[cid][3] == orig)
            if not ok:
                self._violation(SIG_TABLE if site == "load" else SIG_TABLE_APPLY,
                                "after %s: getCodeVersion()=%d but a call of %s on object %d runs version %r (newest <= enabled: %r)"
                                % (site, e, orig, o, got, want), None)
                return

    def _monitor_hook(self, ev):
        """M5: inside onCodeVersionChanged(old, new) getCodeVersion() == new and every replicated call issued from the
        hook resolves to the newest implementation not above new (KeyError only when there is none)."""
        spec = self.specs[self.cur]
        ids, _ = L.extract_ids(self.b)
        for e in ev:
            if e[0] == "cbOpen" and len(e) == 4:
                # a (None, LEADER_CHANGED) callback fired inside __loadDumpFile: calls made from it must resolve for the
                # version getCodeVersion() reports there (the snapshot's)
                _, cbid, seen, tab = e
                old, new, where, sig = None, seen, "the LEADER_CHANGED callback %d fired inside __loadDumpFile" % cbid, SIG_CB_LOAD
                self.cov["m5_load_cb_checked"] += 1
            elif e[0] == "verChanged" and len(e) == 5:
                _, old, new, seen, tab = e
                where, sig = "onCodeVersionChanged(%d, %d)" % (old, new), SIG_HOOK
                self.cov["m5_checked"] += 1
                if seen != new:
                    self._violation(SIG_HOOK_VER, "onCodeVersionChanged(%d, %d) ran while getCodeVersion() was %r" % (old, new, seen), None)
            else:
                continue
            got = {(o, L.name_str(orig)): (L.name_str(nm), cid) for o, orig, nm, cid in tab}
            for (o, orig) in sorted({(o, nm) for o, nm, _ in L.decls_of(spec)}):
                want = L.expected_impl_version(spec, o, orig, new)
                g = got.get((o, orig))
                if want is None:
                    ok = g is None
                else:
                    ok = g is not None and g[1] is not None and ids[g[1]][0] == want and ids[g[1]][1] == o \
                        and ids[g[1]][3] == orig
                if not ok:
                    ran = None if (g is None or g[1] is None) else ids[g[1]][2]
                    self._violation(sig, "a call of %s on object %d issued from %s "
                                    "(getCodeVersion()=%r) resolves to %r, newest implementation not above %d is version %r"
                                    % (orig, o, where, seen, ran if g else "KeyError", new, want), None)
                    return

    def _monitor_apply(self, before, ev):
        """M1 / M3 on one real __applyLogEntries call."""
        spec = self.specs[self.cur]
        sv = _spec_self_ver(spec)
        la0, commit, enabled0 = before["lastApplied"], before["commit"], before["enabled"]
        if self.loaded_enabled is not None:
            enabled0 = max(enabled0, self.loaded_enabled)    # the version of the snapshot position, whatever the node believes
        ran = [e for e in ev if e[0] == "ran"]
        # M6: along the applied log the enabled version of a node never decreases (a request for a lower version is rejected,
        # also when it only shows when the entry is applied)
        now = self.b.obj.getCodeVersion()
        down = [e for e in ev if e[0] == "verChanged" and e[2] < e[1]]
        self.cov["m6_checked"] += 1
        if now < before["enabled"] or down:
            self._violation(SIG_DOWN, "enabled version went down while entries %d..%d were applied: getCodeVersion() %d -> %d, "
                            "onCodeVersionChanged calls %r" % (la0 + 1, commit, before["enabled"], now,
                                                              [e[1:3] for e in ev if e[0] == "verChanged"]), None)
        for e in ev:
            if e[0] == "wrongVer" and e[2] <= sv:
                self._violation(SIG_REFUSED, "VERSION %d refused (WrongVer, self version reported %d) although the code has "
                                "methods up to version %d (object and consumers)" % (e[2], e[1], sv), None)
        if enabled0 > sv:
            self.cov["m3_checked"] += 1
            if ran or self.b.obj._SyncObj__raftLastApplied != la0:
                self._violation(SIG_BLOCKED, "enabled version %d is above the code's %d but entries were applied: %r"
                                % (enabled0, sv, ran[:3]), None)
            return
        bad = None
        for cmd, idx, term in before["log"]:
            if la0 < idx <= commit and cmd[0] == "ver" and cmd[1] > sv:
                bad = idx
                break
        if bad is not None:
            self.cov["m1_checked"] += 1
            late = [e for e in ran if e[1] >= bad or e[1] == -1]
            if late or self.b.obj._SyncObj__raftLastApplied >= bad:
                self._violation(SIG_AFTER, "VERSION entry at %d is not supported by this code (max %d) but lastApplied=%d, ran after it: %r"
                                % (bad, sv, self.b.obj._SyncObj__raftLastApplied, late[:3]), None)
        for e in ran:
            if e[1] in self.ran_since_reset:
                self._violation(SIG_TWICE, "entry %d was applied twice by the same node (%r)" % (e[1], e), None)
            self.ran_since_reset.append(e[1])
            self.pair_trace.setdefault(self.cur, {})[e[1]] = (e[2][1], L.name_str(e[2][2]), e[2][0])

    # ---- ops -----------------------------------------------------------------------------------
    def op(self, o):
        k = o[0]
        self.cov["op_" + k] += 1
        b = self.b
        if k == "node":
            _, name, st = o
            b = self._build(name)
            L.inject(b, st, self.rng)
            for cmd, idx, term in st["log"]:
                if cmd[0] == "reg":
                    self.arg2idx[cmd[2]] = idx
            line = dict(st)
            line.update({"op": "node", "cls": L.cls_json(self.specs[name])})
            self._emit(line, "state", self._state())
            self.after_load = False
        elif k == "fresh":
            _, name = o
            old = self.b
            b = self._build(name)
            if self.mode == "mem" and self.mem_dump is not None:
                b.obj._SyncObj__serializer._Serializer__inMemorySerializedData = self.mem_dump
            self._emit({"op": "restart", "cls": L.cls_json(self.specs[name]), "keepLog": False}, "state", self._state())
        elif k == "apply":
            before = L.extract_state(b)
            calls0 = b.hook_calls
            ev = L.apply_real(b, self.arg2idx)
            self.cov["hook_calls"] += b.hook_calls - calls0
            self._monitor_hook(ev)
            self._monitor_apply(before, ev)
            st = self._state()
            self._emit({"op": "apply"}, "apply", (ev, st))
            for e in ev:
                self.cov["ev_" + e[0]] += 1
                if e[0] == "cb":
                    self.cov["cb_ok" if e[3] else "cb_discarded"] += 1
                    if isinstance(e[2], list) and e[2] and e[2][0] == "keyError":
                        self.cov["cb_keyError"] += 1
                    if isinstance(e[2], list) and e[2] and e[2][0] == "lowerVersion":
                        self.cov["cb_lowerVersion"] += 1
            if any(e[0] == "verChanged" for e in ev):
                self._monitor_table("apply")
        elif k == "commit":
            b.obj._SyncObj__raftCommitIndex = o[1]
            self._emit({"op": "setCommit", "v": o[1]}, "ok", None)
        elif k == "append":
            L.append_entries(b, o[1], self.rng)
            for cmd, idx, term in o[1]:
                if cmd[0] == "reg":
                    self.arg2idx[cmd[2]] = idx
            self._emit({"op": "append", "entries": o[1]}, "ok", None)
        elif k == "sub":
            _, idx, term, cb = o
            b.obj._SyncObj__commandsWaitingCommit[idx].append((term, L.make_cb(b, cb)))
            self._emit({"op": "subscribe", "idx": idx, "term": term, "cb": cb}, "ok", None)
        elif k == "setver":
            v = o[1]
            q = b.obj._SyncObj__commandsQueue
            spec = self.specs[self.cur]
            try:
                b.obj.setCodeVersion(v, callback=None)
                item = q.get_nowait()
                assert item[0] == b"\x03" + self.ns["pickle"].dumps(v), item
                r = ["queued", v]
            except Exception as e:
                msg = str(e)
                m = re.match(r"wrong version, current version is (\d+), requested version is (\d+)", msg)
                m2 = re.match(r"wrong version, enabled version is (\d+), requested version is (\d+)", msg)
                if m:
                    r = ["tooHigh", int(m.group(1)), int(m.group(2))]
                elif m2:
                    r = ["tooLow", int(m2.group(1)), int(m2.group(2))]
                else:
                    raise
            self.cov["setver_" + r[0]] += 1
            # property: requests to enable an unsupported or lower version are rejected
            if r[0] != "queued" and b.obj.getCodeVersion() <= v <= _spec_self_ver(spec):
                self._violation("syncobj.setCodeVersion:supported-version-rejected",
                                "setCodeVersion(%d) rejected (%r): the code has methods up to version %d, enabled is %d"
                                % (v, r, _spec_self_ver(spec), b.obj.getCodeVersion()), None)
            if r[0] == "queued" and (v > _spec_self_ver(spec) or v < b.obj.getCodeVersion()):
                self._violation(SIG_GUARD, "setCodeVersion(%d) accepted: code has up to %d, enabled is %d"
                                % (v, _spec_self_ver(spec), b.obj.getCodeVersion()), None)
            self._emit({"op": "setver", "v": v}, "setver", r)
        elif k == "ver":
            idx = b.obj._SyncObj__raftLog[-1][1] + 1
            ent = [["ver", o[1]], idx, o[2]]
            L.append_entries(b, [ent], self.rng)
            self._emit({"op": "append", "entries": [ent]}, "ok", None)
        elif k == "commit_end":
            c = b.obj._SyncObj__raftLog[-1][1]
            b.obj._SyncObj__raftCommitIndex = c
            self._emit({"op": "setCommit", "v": c}, "ok", None)
        elif k == "call":
            _, obj_no, orig, arg, term = o
            cid = L.call_id(b, obj_no, orig, arg)
            if cid is None:
                self.cov["call_keyerror"] += 1
                return
            idx = b.obj._SyncObj__raftLog[-1][1] + 1
            ent = [["reg", cid, arg], idx, term]
            L.append_entries(b, [ent], self.rng)
            self.arg2idx[arg] = idx
            self._emit({"op": "append", "entries": [ent]}, "ok", None)
        elif k == "dump":
            so = b.obj
            ser = so._SyncObj__serializer
            so._SyncObj__lastSerializedEntry = None
            so._SyncObj__forceLogCompaction = True
            ser._Serializer__pid = 0
            so._SyncObj__tryLogCompaction()
            made = ser._Serializer__pid == -1
            assert ser._Serializer__pid in (0, -1), ser._Serializer__pid
            exp = None
            if made:
                if self.mode == "mem":
                    raw = ser._Serializer__inMemorySerializedData
                    self.mem_dump = raw
                    data = self.ns["pickle"].loads(gzip.GzipFile(fileobj=io.BytesIO(raw)).read())
                elif self.mode == "file":
                    data = self.ns["pickle"].loads(gzip.open(self.b.conf.fullDumpFile).read())
                else:
                    data = (None,) + self.ns["pickle"].loads(open(self.b.conf.fullDumpFile, "rb").read())
                sd = data[0]
                if sd is not None and b.consumers:
                    sd = sd[0]
                if sd is None:
                    en = data[4] if len(data) > 4 else None
                else:
                    en = sd.get("_SyncObj__enabledCodeVersion")
                exp = {"enabled": en, "last": [L.dec_cmd(self.ns, data[1][0]), data[1][1], data[1][2]],
                       "prev": [L.dec_cmd(self.ns, data[2][0]), data[2][1], data[2][2]]}
                self.have_dump = True
                self.dump_enabled = b.obj.getCodeVersion()
                self.dump_last = exp["last"][1]
            self.cov["dump_made" if made else "dump_none"] += 1
            self._emit({"op": "dump"}, "dump", exp)
            return made
        elif k == "compact":
            if not self.have_dump:
                self.cov["skipped_no_dump"] += 1
                return
            b.obj._SyncObj__tryLogCompaction()
            self._emit({"op": "compact"}, "state", self._state())
        elif k == "load":
            if not self.have_dump:
                self.cov["skipped_no_dump"] += 1
                return
            del b.rec[:]
            pre = L.extract_state(b)
            b.obj._SyncObj__loadDumpFile(clearJournal=o[1])
            post = L.extract_state(b)
            if o[1]:
                # coverage only: did the received-snapshot path install or keep log and state?
                self.cov["load_clear_kept" if (post["log"] == pre["log"] and post["lastApplied"] == pre["lastApplied"])
                         else "load_clear_installed"] += 1
            if ("loadFailed",) in b.rec:
                # the real code swallowed an exception in __loadDumpFile ('failed to load full dump'): judged by the
                # monitors below and by the correspondence (the model has no such event), never a harness crash
                self.cov["load_failed"] += 1
                self.load_failure = getattr(self.tok[1], "last_exc", "")[-400:]
            installed = pre["lastApplied"] < (self.dump_last or 0) and post["lastApplied"] == self.dump_last
            if installed:
                self.cov["load_installed"] += 1
                self.loaded_enabled = self.dump_enabled
                if b.obj.getCodeVersion() != self.dump_enabled:
                    # C09/C01/C17: the snapshot carries the enabled code version of its position
                    self._violation(SIG_LOST_USER if self.mode == "user" else SIG_LOST,
                                    "dump taken at enabled version %r, after loading it (lastApplied %r -> %r) getCodeVersion() is %r"
                                    % (self.dump_enabled, pre["lastApplied"], post["lastApplied"], b.obj.getCodeVersion()), None)
            self.ran_since_reset = []
            ev = L.canon_real_events(b, list(b.rec), self.arg2idx)
            del b.rec[:]
            for e in ev:
                self.cov["load_ev_" + e[0]] += 1
            self._monitor_hook(ev)
            self._emit({"op": "load", "clear": o[1]}, "apply", (ev, self._state()))
            self._monitor_table("load")
            sv = _spec_self_ver(self.specs[self.cur])
            self.cov["load_enabled_gt_self" if b.obj.getCodeVersion() > sv else "load_enabled_le_self"] += 1
            if b.obj.getCodeVersion() > 0:
                self.cov["load_after_switch"] += 1
            if b.obj.getCodeVersion() < sv:
                self.cov["load_self_gt_enabled"] += 1      # code ahead of the enabled version (rolling upgrade)
        else:
            raise ValueError(o)


# -------------------------------------------------------------------------------------------------
# script generators
# -------------------------------------------------------------------------------------------------
def _gen_log(rng, nids, sv, first, n, term0, argc, unknown_ok):
    out = []
    for i in range(n):
        r = rng.random()
        if r < 0.55 and nids > 0:
            fid = rng.randrange(nids)
            if unknown_ok and rng.random() < 0.04:
                fid = nids + rng.randrange(3)
            argc[0] += 1
            cmd = ["reg", fid, argc[0]]
        elif r < 0.8:
            cmd = ["ver", rng.choice([0, 0, 1, max(sv - 1, 0), sv, sv, sv + 1, sv + 1, sv + 7])]
        elif r < 0.88:
            cmd = ["noop"]
        elif r < 0.94:
            cmd = ["mem"]
        else:
            cmd = ["other", rng.choice([4, 5, 9, 200])]
        out.append([cmd, first + i, term0 + (1 if rng.random() < 0.2 and i > n // 2 else 0)])
    return out


def gen_handler_script(rng, forbidden, argc):
    """Injected state + a few ops around the apply loop."""
    spec = L.gen_spec(rng, forbidden, max_methods=4, vers=[0, 0, 1, 1, 2, 3, 9, 10])
    specs = {"A": spec}
    ids = len(L.decls_of(spec))
    sv = _spec_self_ver(spec)
    first = rng.choice([1, 1, 2, 7])
    n = rng.randint(2, 9)
    log = _gen_log(rng, ids, sv, first, n, 1, argc, INCLUDE_UNKNOWN_IDS)
    last = first + n - 1
    la = rng.choice([first, first, first + 1, max(first - 1, 0), rng.randint(first, last)])
    commit = rng.choice([last, last, la, la + 1, max(la - 1, 0), last + 2, rng.randint(first, last)])
    enabled = rng.choice([0, 0, 0, min(1, sv), sv, rng.randint(0, sv)])
    waiting = []
    for _ in range(rng.choice([0, 1, 2, 3])):
        idx = rng.randint(first, last + 1)
        t = [e[2] for e in log if e[1] == idx]
        subs = [[rng.choice(t + t + [5]) if t else 1, 100 + len(waiting) * 10 + j] for j in range(rng.randint(1, 2))]
        if idx not in [w[0] for w in waiting]:
            waiting.append([idx, subs])
    st = {"enabled": enabled, "tableVer": enabled, "lastApplied": la, "commit": commit, "log": log, "waiting": waiting}
    script = [["node", "A", st], ["apply"]]
    nxt = last + 1
    for _ in range(rng.randint(1, 5)):
        r = rng.random()
        if r < 0.35:
            script.append(["apply"])
        elif r < 0.5:
            commit = min(commit + rng.randint(1, 4), nxt + 1)
            script.append(["commit", commit])
            script.append(["apply"])
        elif r < 0.7:
            more = _gen_log(rng, ids, sv, nxt, rng.randint(1, 3), 2, argc, INCLUDE_UNKNOWN_IDS)
            nxt += len(more)
            script.append(["append", more])
            commit = nxt - 1
            script.append(["commit", commit])
        elif r < 0.8:
            script.append(["sub", rng.randint(first, nxt), rng.choice([1, 2]), 500 + rng.randrange(100)])
        else:
            script.append(["setver", rng.choice([0, 1, sv, sv + 1, max(enabled - 1, 0), enabled, enabled + 1, sv + 5])])
    script.append(["apply"])
    return specs, script


def gen_pair_script(rng, forbidden, argc, with_dump):
    """New code N produces a log through REAL calls and version switches; old code O replays it (in batches, or from
    a dump of N taken after the switch). Positions of switch / calls / dump / restart are random."""
    old = L.gen_spec(rng, forbidden, max_methods=3, vers=[0, 0, 1, 2])
    new = L.gen_added(rng, forbidden, old, strictly_higher=True)
    if new is None:
        return None
    # a consumer list must be the same on both codes for a dump to be loadable on the other one
    if len(new["objs"]) != len(old["objs"]):
        new["objs"] = new["objs"][:len(old["objs"])]
        if new == old or not L.spec_ok(new):
            return None
        if not all(v > _spec_self_ver(old) for d in L.decls_of(new) if d not in L.decls_of(old) for v in [d[2]]):
            return None
    specs = {"O": old, "N": new}
    svn, svo = _spec_self_ver(new), _spec_self_ver(old)
    keys = sorted({(o, nm) for o, nm, _ in L.decls_of(new)})
    st0 = {"enabled": 0, "tableVer": 0, "lastApplied": 1, "commit": 1, "log": [[["noop"], 1, 0]], "waiting": []}
    script = [["node", "N", st0]]
    idx = 1
    vers = sorted({v for _, _, v in L.decls_of(new)} | {0})
    plan = []
    cur = 0
    for _ in range(rng.randint(3, 9)):
        if rng.random() < 0.3:
            ups = [v for v in vers if v >= cur]
            v = rng.choice(ups + [cur])
            plan.append(("ver", v))
            cur = max(cur, v)
        else:
            plan.append(("call",))
    dump_at = rng.randrange(len(plan) + 1) if with_dump else None
    dumped = False
    for i, p in enumerate(plan):
        if dump_at == i and i >= 1:
            script += [["dump"], ["compact"]] if rng.random() < 0.5 else [["dump"]]
            dumped = True
        if p[0] == "ver":
            script.append(["ver", p[1], 1])
        else:
            o, nm = rng.choice(keys)
            argc[0] += 1
            script.append(["call", o, nm, argc[0], 1])
        script.append(["commit_end"])
        script.append(["apply"])
    if with_dump and not dumped:
        script += [["dump"]]
        dumped = True
    return specs, script, dumped


# -------------------------------------------------------------------------------------------------
def _finish_pair(ctx, ns, specs, script, rng, mode, seed):
    """Run N's part, then make O (and a restarted N) follow: via log replay or via N's dump."""
    R = Runner(ctx, ns, specs, mode, seed)
    dumped = any(o[0] == "dump" for o in script)
    try:
        made = False
        for o in script:
            r = R.op(o)
            if o[0] == "dump":
                made = bool(r)
        n_log = [[c, i, t] for c, i, t in L.extract_state(R.b)["log"]]
        n_commit = R.b.obj._SyncObj__raftCommitIndex
        n_enabled = R.b.obj.getCodeVersion()
        first_idx = n_log[0][1]
        followers = ["O", "N"] if rng.random() < 0.5 else ["O"]
        for who in followers:
            if dumped and made and rng.random() < 0.7:
                # restart / catch up from the snapshot taken by N, then the entries after it
                R.op(["fresh", who])
                R.op(["load", rng.random() < 0.5])
                la = R.b.obj._SyncObj__raftLastApplied
                rest = [e for e in n_log if e[1] > R.b.obj._SyncObj__raftLog[-1][1]]
                if rest:
                    R.op(["append", rest])
                R.cov["follower_from_dump"] += 1
            elif first_idx == 1:
                st0 = {"enabled": 0, "tableVer": 0, "lastApplied": 1, "commit": 1, "log": n_log, "waiting": []}
                R.op(["node", who, st0])
                R.cov["follower_from_log"] += 1
            else:
                continue
            la = R.b.obj._SyncObj__raftLastApplied
            c = la
            while c < n_commit:
                c = min(n_commit, c + rng.randint(1, 4))
                R.op(["commit", c])
                R.op(["apply"])
                if rng.random() < 0.3:
                    R.op(["apply"])
            R.op(["apply"])
            if who == "N" and R.b.obj.getCodeVersion() != n_enabled:
                R._violation(SIG_LOST_USER if mode == "user" else SIG_LOST, "restarted node on the same code has enabled version %d, the node that wrote the log has %d"
                             % (R.b.obj.getCodeVersion(), n_enabled), None)
        # M4: same method for every entry both codes executed
        tn, to = R.pair_trace.get("N", {}), R.pair_trace.get("O", {})
        for idx, impl in to.items():
            if idx in tn:
                R.cov["m4_checked"] += 1
                if tn[idx] != impl:
                    R._violation(SIG_PAIR, "entry %d runs %r on the new code and %r on the old code" % (idx, tn[idx], impl), None)
        return R
    except Exception:
        R.error = traceback.format_exc()[-1500:]
        return R
    finally:
        R.close()


def _compare(R, out, disagreements, cov):
    assert len(out) == len(R.expect), (len(out), len(R.expect))
    for (kind, exp, line), raw in zip(R.expect, out):
        res = json.loads(raw)
        diff = None
        if "error" in res:
            diff = ("driver error", res, exp)
        elif kind == "state":
            m = L.canon_model_state(res["state"])
            m["table"] = {(o, L.name_str(orig)): (L.name_str(nm), cid) for o, orig, nm, cid in res["state"]["table"]}
            if m != exp:
                diff = ("state", m, exp)
        elif kind == "apply":
            ev, st = exp
            m = L.canon_model_state(res["state"])
            m["table"] = {(o, L.name_str(orig)): (L.name_str(nm), cid) for o, orig, nm, cid in res["state"]["table"]}
            for x in res["ev"]:
                if x[0] == "verChanged" and len(x) == 5:
                    x[4] = sorted(x[4])      # the table is a dict on the real side: order is not an observation
                if x[0] == "cbOpen" and len(x) == 4:
                    x[3] = sorted(x[3])
            if res["ev"] != json.loads(json.dumps(ev)):
                diff = ("apply events", res["ev"], ev)
            elif m != st:
                diff = ("state after apply", m, st)
        elif kind == "setver":
            if res["setver"] != exp:
                diff = ("setver", res["setver"], exp)
        elif kind == "dump":
            if res["dump"] != exp:
                diff = ("dump", res["dump"], exp)
        if diff is not None:
            cov["diff"] += 1
            return {"note": diff[0], "model": _js(diff[1]), "impl": _js(diff[2]), "at": line}
    return None


def _js(x):
    if isinstance(x, dict):
        return {str(k): _js(v) for k, v in x.items()}
    if isinstance(x, (list, tuple)):
        return [_js(v) for v in x]
    return x


def _run_script(ctx, ns, specs, script, mode, seed):
    R = Runner(ctx, ns, specs, mode, seed)
    try:
        for o in script:
            R.op(o)
    except Exception:
        # an exception out of the real code path (or an injector that no longer fits): reported as a broken
        # correspondence of this case; what the monitors saw up to here is kept
        R.error = traceback.format_exc()[-1500:]
    finally:
        R.close()
    return R


def _shrink(ctx, ns, specs, script, mode, seed, still_fails):
    """drop ops from the end / middle while the case still fails"""
    cur = list(script)
    changed = True
    while changed and len(cur) > 2:
        changed = False
        for i in range(len(cur) - 1, 0, -1):
            cand = cur[:i] + cur[i + 1:]
            try:
                if still_fails(cand):
                    cur = cand
                    changed = True
                    break
            except Exception:
                pass
    return cur


def _directed(argc):
    """Boundary cases ahead of the random stream: VERSION entry == / == +1 own version in the middle of a batch,
    subscribers on it, dump after a switch, load on older code."""
    r = "r"
    new = {"objs": [[("f", 0, r), ("g", 0, r), ("g", 1, r)]]}
    old = {"objs": [[("f", 0, r), ("g", 0, r)]]}
    out = []
    for v, sub_term in ((1, 1), (1, 2), (2, 1), (0, 1)):
        log = [[["noop"], 1, 0], [["reg", 0, 9001], 2, 1], [["ver", v], 3, 1], [["reg", 1, 9002], 4, 1], [["reg", 0, 9003], 5, 1]]
        for name in ("N", "O"):
            st = {"enabled": 0, "tableVer": 0, "lastApplied": 1, "commit": 5, "log": log,
                  "waiting": [[3, [[sub_term, 77]]], [4, [[1, 78], [2, 79]]]]}
            out.append(({"N": new, "O": old}, [["node", name, st], ["apply"], ["apply"], ["setver", v], ["setver", 0]], "mem"))
    # D71: VERSION 2 then VERSION 1 (then VERSION 2 again) in the log, subscribers on them; one batch / entry by entry
    three = {"objs": [[("f", 0, r), ("f", 1, r), ("f", 2, r)], [("g", 0, r), ("g", 2, r)]]}
    log = [[["noop"], 1, 0], [["reg", 0, 9501], 2, 1], [["ver", 2], 3, 1], [["ver", 1], 4, 1], [["reg", 0, 9502], 5, 1],
           [["ver", 2], 6, 1], [["ver", 0], 7, 1], [["reg", 1, 9503], 8, 1]]
    st = {"enabled": 0, "tableVer": 0, "lastApplied": 1, "commit": 8, "log": log,
          "waiting": [[3, [[1, 71]]], [4, [[1, 72], [2, 73]]], [7, [[1, 74]]]]}
    out.append(({"N": three}, [["node", "N", st], ["apply"], ["setver", 1], ["setver", 2]], "mem"))
    st1 = dict(st, commit=2)
    out.append(({"N": three}, [["node", "N", st1], ["apply"]] + sum([[["commit", c], ["apply"]] for c in range(3, 9)], []), "mem"))
    # unknown method id in the middle of a batch, subscribers of the same and of another term on it (D9 path)
    log = [[["noop"], 1, 0], [["reg", 0, 9201], 2, 1], [["reg", 99, 9202], 3, 1], [["reg", 1, 9203], 4, 1], [["ver", 1], 5, 1],
           [["reg", 7, 9204], 6, 1]]
    for name in ("N", "O"):
        st = {"enabled": 0, "tableVer": 0, "lastApplied": 1, "commit": 6, "log": log,
              "waiting": [[3, [[1, 81], [2, 82]]], [6, [[1, 83]]]]}
        out.append(({"N": new, "O": old}, [["node", name, st], ["apply"], ["apply"]], "mem"))
    # D61: subscribers on indices the dump covers (2, 4: answered LEADER_CHANGED in index order) and beyond it (5: kept);
    # own dump file (installed), received snapshot already applied (skipped: nothing answered), fresh node (installed)
    log = [[["noop"], 1, 0], [["reg", 1, 9301], 2, 1], [["ver", 1], 3, 1], [["reg", 2, 9302], 4, 1]]
    st = {"enabled": 0, "tableVer": 0, "lastApplied": 1, "commit": 4, "log": log, "waiting": []}
    subs = [["sub", 4, 1, 91], ["sub", 2, 1, 92], ["sub", 5, 1, 93], ["sub", 4, 2, 94]]
    for tail in ([["load", False]], [["load", True]], [["fresh", "N"]] + subs + [["load", True]],
                 [["fresh", "O"]] + subs + [["load", False]]):
        out.append(({"N": new, "O": old}, [["node", "N", st], ["apply"], ["dump"]] + subs + tail + [["apply"]], "mem"))
    # dump after the switch, reload on same and on older code, in every mode
    for mode in ("mem", "file", "user"):
        log = [[["noop"], 1, 0], [["reg", 1, 9101], 2, 1], [["ver", 1], 3, 1], [["reg", 2, 9102], 4, 1]]
        st = {"enabled": 0, "tableVer": 0, "lastApplied": 1, "commit": 4, "log": log, "waiting": []}
        more = [[["reg", 0, 9103], 5, 1], [["reg", 2, 9104], 6, 1]]
        for who in ("N", "O"):
            out.append(({"N": new, "O": old},
                        [["node", "N", st], ["apply"], ["dump"], ["compact"], ["fresh", who], ["load", False],
                         ["append", more], ["commit", 6], ["apply"], ["apply"]], mode))
            out.append(({"N": new, "O": old},
                        [["node", "N", st], ["apply"], ["dump"], ["load", True], ["apply"], ["setver", 0], ["setver", 1]], mode))
    return out


def _directed_restore():
    """Restore while the code is AHEAD of the enabled version (rolling upgrade before setCodeVersion): the dump says
    version 0 or 1, the code has up to 2. Restart from the dump (same instance / fresh instance), install of a snapshot
    received from the leader (clearJournal), in memory / file / user serializer. After every load the name table and
    the id of a REAL call per method are compared with the model and checked against the enabled version (M2)."""
    r = "r"
    code = {"objs": [[("f", 0, r), ("g", 0, r), ("g", 1, r), ("g", 2, "rs")], [("h", 0, r), ("h", 2, r), ("k", 1, r)]]}
    out = []
    for enabled_at_dump in (0, 1):
        log = [[["noop"], 1, 0], [["reg", 0, 9401], 2, 1]] + ([[["ver", 1], 3, 1]] if enabled_at_dump else [[["reg", 1, 9402], 3, 1]]) + \
            [[["reg", 2, 9403], 4, 1]]
        st = {"enabled": 0, "tableVer": 0, "lastApplied": 1, "commit": 4, "log": log, "waiting": []}
        more = [[["reg", 0, 9404], 5, 1], [["ver", 2], 6, 1], [["reg", 1, 9405], 7, 1]]
        for mode in ("mem", "file", "user"):
            for tail in ([["load", False]], [["compact"], ["fresh", "N"], ["load", False]], [["compact"], ["fresh", "N"], ["load", True]]):
                out.append(({"N": code}, [["node", "N", st], ["apply"], ["dump"]] + tail +
                            [["apply"], ["append", more], ["commit", 5], ["apply"], ["commit", 7], ["apply"]], mode))
    return out


def _corpus(ctx):
    """corpus/versions/*.json: minimised past failures (handler scripts), run first."""
    d = os.path.join(ctx.verif, "corpus", "versions")
    out = []
    if os.path.isdir(d):
        for fn in sorted(os.listdir(d)):
            if fn.endswith(".json"):
                c = json.load(open(os.path.join(d, fn)))
                specs = {k: {"objs": [[tuple(x) for x in o] for o in sp["objs"]]} for k, sp in c["specs"].items()}
                out.append((specs, c["script"], c.get("mode", "mem")))
    return out


def run(ctx):
    ns = L.load(ctx.repo)
    rng = ctx.rng("versions.apply")
    forbidden = L._forbidden_names()
    clock = L.Clock(ns)
    cov = collections.Counter()
    disagreements, violations, samples = [], [], []
    distinct = set()
    argc = [10000]
    # C09 / C01 plans: only the dump / load / install families, only that property's signatures (PLAN_SIGS)
    c09 = ctx.pid in PLAN_SIGS
    n_handler = (ctx.scale(700, 8000) if ctx.pid == "C11" else 0) if c09 else ctx.scale(1500, 24000)
    n_pair = ctx.scale(70, 3000) if c09 else ctx.scale(500, 8000)
    cases = 0
    runs = []
    try:
        todo = [("corpus", s, sc, m) for s, sc, m in _corpus(ctx)]
        todo += [("directed", s, sc, m) for s, sc, m in _directed_restore()]
        todo += [("directed", s, sc, m) for s, sc, m in _directed(argc)]
        if c09:
            todo = [t for t in todo if any(o[0] == "load" for o in t[2])]
        for i in range(n_handler):
            todo.append(("handler",) + gen_handler_script(rng, forbidden, argc) + (rng.choice(["mem", "mem", "mem", "file", "user"]),))
        for kind, specs, script, mode in todo:
            seed = rng.randrange(1 << 30)
            if mode != "mem" and kind == "handler" and rng.random() < 0.5:
                subs = [["sub", rng.randint(1, 12), rng.choice([1, 2]), 700 + j] for j in range(rng.randint(0, 3))]
                script = script + [["dump"], ["compact"], ["apply"]] + \
                    (subs + [["load", rng.random() < 0.5], ["apply"]] if rng.random() < 0.7 else [])
            R = _run_script(ctx, ns, specs, script, mode, seed)
            runs.append((R, specs, script, mode, seed, kind))
            cases += 1
        for i in range(n_pair):
            g = gen_pair_script(rng, forbidden, argc, with_dump=c09 or rng.random() < 0.6)
            if g is None:
                continue
            specs, script, dumped = g
            seed = rng.randrange(1 << 30)
            mode = rng.choice(["mem", "mem", "file", "user"])
            R = _finish_pair(ctx, ns, specs, script, random.Random(seed), mode, seed)
            runs.append((R, specs, script, mode, seed, "pair"))
            cases += 1
    finally:
        clock.restore()

    lines = []
    for R, *_ in runs:
        if R.error is None:
            lines.extend(R.lines)
    out = ctx.driver("versions", lines)
    pos = 0
    for R, specs, script, mode, seed, kind in runs:
        if R.error is not None:
            cov["case_raised"] += 1
            if len(disagreements) < 3:
                disagreements.append({"note": "exception while the case ran on the real code", "model": None, "impl": R.error,
                                      "at": {"op": "?"}, "input": {"specs": _js(specs), "script": script, "mode": mode,
                                                                   "seed": seed, "kind": kind}})
            part = None
        else:
            part = out[pos:pos + len(R.lines)]
            pos += len(R.lines)
        cov.update(R.cov)
        cov["mode_" + mode] += 1
        cov["kind_" + kind] += 1
        distinct.add(hashlib.sha1("\n".join(R.lines).encode()).hexdigest())
        d = _compare(R, part, disagreements, cov) if part is not None else None
        if c09 and d is not None and d["at"].get("op") not in ("load", "dump", "compact", "restart"):
            d = None                    # anything else is C17's business and reported there
        if d is not None and len(disagreements) < 3:
            d["input"] = {"specs": _js(specs), "script": script, "mode": mode, "seed": seed, "kind": kind}
            disagreements.append(d)
        for v in R.viol:
            if c09 and v["signature"] not in PLAN_SIGS[ctx.pid]:
                continue
            if len(violations) < 3:
                v = dict(v)
                v["replay"] = {"specs": _js(specs), "script": script, "mode": mode, "seed": seed, "kind": kind}
                violations.append(v)
        if len(samples) < 2 and kind not in ("directed", "corpus"):
            samples.append({"kind": kind, "mode": mode, "script": script[:12],
                            "classes": {k: L.decls_of(s) for k, s in specs.items()}})

    res = {"cases": cases, "distinct": len(distinct), "coverage": dict(cov), "samples": samples,
           "disagreements": disagreements[:3], "violations": violations[:3]}
    floors = ["ev_ran", "ev_wrongVer", "ev_verChanged", "ev_blocked", "cb_ok", "cb_discarded", "setver_tooHigh",
              "setver_tooLow", "setver_queued", "dump_made", "dump_none", "op_load", "op_compact", "mode_file", "mode_user",
              "m1_checked", "m3_checked", "m4_checked", "follower_from_dump", "follower_from_log", "load_after_switch",
              "load_enabled_gt_self", "load_clear_kept", "load_clear_installed", "load_ev_cbOpen", "hook_calls", "m5_checked", "m6_checked", "cb_lowerVersion", "m5_load_cb_checked"] + (["ev_unknownId", "cb_keyError"] if INCLUDE_UNKNOWN_IDS else [])
    floors += ["load_self_gt_enabled", "load_installed"]
    if ctx.pid == "C11":
        floors = ["m1_checked"]
    elif ctx.pid == "C01":
        floors = ["op_load", "dump_made", "load_installed", "follower_from_dump", "load_after_switch", "load_enabled_gt_self",
                  "m3_checked", "load_clear_installed"]
    elif c09:
        floors = ["op_load", "op_dump", "dump_made", "mode_file", "mode_user", "mode_mem", "load_clear_installed", "load_clear_kept",
                  "follower_from_dump", "load_after_switch", "load_self_gt_enabled", "load_enabled_gt_self"]
    missed = [f for f in floors if not cov.get(f)]
    if missed and not disagreements and not violations:
        res["inconclusive"] = "coverage floor missed: %s" % missed
    return res


def search(ctx, unproved):
    """More of the same monitors on the real code (pair scripts with dumps are where the version defects live)."""
    ns = L.load(ctx.repo)
    rng = ctx.rng("versions.apply.search")
    forbidden = L._forbidden_names()
    clock = L.Clock(ns)
    argc = [50000]
    found = []
    try:
        for i in range(ctx.scale(300, 5000)):
            g = gen_pair_script(rng, forbidden, argc, with_dump=True)
            if g is None:
                continue
            specs, script, dumped = g
            seed = rng.randrange(1 << 30)
            R = _finish_pair(ctx, ns, specs, script, random.Random(seed), "mem", seed)
            for v in R.viol:
                if ctx.pid in PLAN_SIGS and v["signature"] not in PLAN_SIGS[ctx.pid]:
                    continue
                v = dict(v)
                v["replay"] = {"specs": _js(specs), "script": script, "mode": "mem", "seed": seed, "kind": "pair"}
                found.append(v)
            if found:
                break
    finally:
        clock.restore()
    return found[:3]


def replay(ctx, violation):
    ns = L.load(ctx.repo)
    rp = violation["replay"]
    specs = {k: {"objs": [[tuple(d) for d in o] for o in s["objs"]]} for k, s in rp["specs"].items()}
    clock = L.Clock(ns)
    try:
        if rp["kind"] == "pair":
            R = _finish_pair(ctx, ns, specs, rp["script"], random.Random(rp["seed"]), rp["mode"], rp["seed"])
        else:
            R = _run_script(ctx, ns, specs, rp["script"], rp["mode"], rp["seed"])
    finally:
        clock.restore()
        ctx.cleanup()
    return {"violated": bool(R.viol), "violations": R.viol, "ops": len(rp["script"])}
