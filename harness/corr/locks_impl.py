"""C16 correspondence `locks.impl`: the real `_ReplLockManagerImpl` (replicated methods called with
`_doApply=True`, exactly what `SyncObj.__doApplyCommand` does) against the Lean model `PSO.Locks`
(`driver locks`), op by op: return value and complete lock table after every operation, `isAcquired`
probes at the boundary times t0+U-1, t0+U, t0+U+1.  Systematic boundary enumerator first, then seeded
random op sequences over few lock / client ids with non-monotone stamps; plus directed checks of the
property's own clauses on the real code (release by a non-holder, obtainability after expiry)."""
import glob
import hashlib
import json
import os
import time

from harness.corr import locks_common as lc

PROPERTIES = ["C16"]
ORDER = 40

FLOORS = ["acq.new", "acq.expired.self", "acq.expired.other", "acq.held.self.fwd", "acq.held.self.back",
          "acq.held.self.eq", "acq.refused", "pro.drop", "pro.refresh.fwd", "pro.refresh.back", "pro.keep.other",
          "pro.empty", "rel.holder", "rel.nonholder", "rel.missing", "isacq.true", "isacq.false.expired",
          "isacq.false.other", "isacq.false.missing",
          "acq.delta=-1", "acq.delta=0", "acq.delta=1", "pro.delta=-1", "pro.delta=0", "pro.delta=1",
          "isacq.delta=-1", "isacq.delta=0", "isacq.delta=1", "U=0", "rebuild.lock-held", "rebuild.empty",
          "rebuild.other-unlock-time"]


# ---------------------------------------------------------------------------------------------------
# generators
# ---------------------------------------------------------------------------------------------------
def systematic():
    """every guard of the four methods on both sides of its boundary (and at equality)."""
    cases = []
    for U in (0, 1, 4, 10):
        t0 = 20
        around = sorted(set(x for x in (t0 + U - 1, t0 + U, t0 + U + 1, t0 - 1, t0, t0 + 1, 0) if x >= 0))
        for t in around:
            for who in (1, 2):                      # holder is client 1
                cases.append({"U": U, "ops": [("acq", 1, 1, t0), ("acq", 1, who, t), ("isacq", 1, 1, t), ("isacq", 1, 2, t)]})
                cases.append({"U": U, "ops": [("acq", 1, 1, t0), ("acq", 2, 2, t0 + 1), ("pro", who, t),
                                              ("isacq", 1, 1, t), ("isacq", 2, 2, t)]})
                cases.append({"U": U, "ops": [("acq", 1, 1, t0), ("isacq", 1, who, t)]})
        for (l, c) in ((1, 1), (1, 2), (2, 1)):
            cases.append({"U": U, "ops": [("acq", 1, 1, t0), ("rel", l, c), ("isacq", 1, 1, t0), ("acq", 1, 2, t0)]})
        cases.append({"U": U, "ops": [("pro", 1, 5), ("rel", 1, 1), ("isacq", 1, 1, 0)]})
        # snapshot: the rebuilt replica (created with another autoUnlockTime, holding something stale) must
        # behave like the original at the expiry boundaries
        for u in (U, U + 3, 0):
            for t in (t0 + U - 1, t0 + U, t0 + U + 1):
                cases.append({"U": U, "ops": [("acq", 1, 1, t0), ("rebuild", u), ("isacq", 1, 1, max(0, t)), ("acq", 1, 2, max(0, t)),
                                              ("pro", 2, t0 + U + 1), ("rebuild", u)]})
        cases.append({"U": U, "ops": [("rebuild", U + 1), ("acq", 1, 1, t0), ("acq", 1, 2, t0 + U + 1)]})
    return cases


def random_case(rng):
    U = rng.choice((0, 1, 2, 3, 5, 8, 10, 16))
    nl, nc = rng.choice((1, 2, 3)), rng.choice((2, 3))
    n = rng.randrange(5, 40)
    now = rng.randrange(0, 30)
    ops = []
    known = {}        # lock -> last time we believe is stored (only to aim at boundaries; may be stale)
    for _ in range(n):
        r = rng.random()
        now += rng.choice((0, 0, 1, 1, 2, U // 2, U, U + 1))
        # the stamp of a command: mostly `now`, sometimes an older reading, sometimes aimed at a boundary
        t = now
        q = rng.random()
        if q < 0.2:
            t = max(0, now - rng.randrange(0, U + 3))
        elif q < 0.55 and known:
            t = max(0, rng.choice(list(known.values())) + U + rng.choice((-1, 0, 1)))
        l, c = rng.randrange(1, nl + 1), rng.randrange(1, nc + 1)
        if rng.random() < 0.06:
            ops.append(("rebuild", rng.choice((U, U + 1, 0, 7))))
        if r < 0.4:
            ops.append(("acq", l, c, t))
            known[l] = t
        elif r < 0.6:
            ops.append(("pro", c, t))
        elif r < 0.75:
            ops.append(("rel", l, c))
        else:
            ops.append(("isacq", l, c, t))
        if rng.random() < 0.3 and known:
            l2 = rng.choice(list(known))
            ops.append(("isacq", l2, rng.randrange(1, nc + 1), max(0, known[l2] + U + rng.choice((-1, 0, 1)))))
    return {"U": U, "ops": ops}


# ---------------------------------------------------------------------------------------------------
# the two sides
# ---------------------------------------------------------------------------------------------------
def op_line(op):
    return " ".join(str(x) for x in op)


def run_real(bat, case, cov=None):
    """replies of the real code in the driver's reply format"""
    U = case["U"]
    impl = bat._ReplLockManagerImpl(U)
    out = []
    for op in case["ops"]:
        op = tuple(op)
        pre = dict((e[0], (e[1], e[2])) for e in lc.table_of(impl))
        if cov is not None:
            classify(cov, U, pre, op)
        try:
            if op[0] == "rebuild":
                new = lc.fresh_impl(bat, op[1])
                new._deserialize(lc.snapshot_of(impl))
                impl = new
                out.append("%s %s" % (lc.unlock_time_of(impl), lc.table_str(lc.table_of(impl))))
                continue
            if op[0] == "isacq":
                r = impl.isAcquired(lc.lock_name(op[1]), lc.client_name(op[2]), op[3])
                out.append("1" if r is True else "0" if r is False else "?%r" % (r,))
                continue
            r = lc.apply_cmd(impl, op)
            rs = "1" if r is True else "0" if r is False else "-" if r is None else "?%r" % (r,)
            out.append("%s %s" % (rs, lc.table_str(lc.table_of(impl))))
        except Exception as e:                          # the model has no raising branch
            out.append("raised %s" % type(e).__name__)
    return out


def model_lines(case, mono=1):
    return ["conf %d %d" % (case["U"], mono)] + [op_line(op) for op in case["ops"]]


def run_model_batch(ctx, cases, mono=1):
    lines = []
    for c in cases:
        lines += model_lines(c, mono)
    out = ctx.driver("locks", lines)
    res, i = [], 0
    for c in cases:
        n = len(c["ops"])
        assert out[i] == "ok", out[i]
        res.append(out[i + 1:i + 1 + n])
        i += 1 + n
    return res


def classify(cov, U, pre, op):
    def hit(k):
        cov[k] = cov.get(k, 0) + 1
    if U == 0:
        hit("U=0")
    k = op[0]
    if k == "acq":
        _, l, c, t = op
        if l not in pre:
            hit("acq.new")
            return
        c0, t0 = pre[l]
        d = t - t0 - U
        if -1 <= d <= 1:
            hit("acq.delta=%d" % d)
        if d > 0:
            hit("acq.expired.self" if c0 == c else "acq.expired.other")
        elif c0 == c:
            hit("acq.held.self.fwd" if t > t0 else "acq.held.self.back" if t < t0 else "acq.held.self.eq")
        else:
            hit("acq.refused")
    elif k == "pro":
        _, c, t = op
        if not pre:
            hit("pro.empty")
        for l, (c0, t0) in pre.items():
            d = t - t0 - U
            if -1 <= d <= 1:
                hit("pro.delta=%d" % d)
            if d > 0:
                hit("pro.drop")
            elif c0 == c:
                hit("pro.refresh.fwd" if t >= t0 else "pro.refresh.back")
            else:
                hit("pro.keep.other")
    elif k == "rebuild":
        hit("rebuild.lock-held" if pre else "rebuild.empty")
        if op[1] != U:
            hit("rebuild.other-unlock-time")
    elif k == "rel":
        _, l, c = op
        hit("rel.missing" if l not in pre else "rel.holder" if pre[l][0] == c else "rel.nonholder")
    else:
        _, l, c, now = op
        if l not in pre:
            hit("isacq.false.missing")
            return
        c0, t0 = pre[l]
        d = now - t0 - U
        if -1 <= d <= 1:
            hit("isacq.delta=%d" % d)
        if c0 != c:
            hit("isacq.false.other")
        elif d < 0:
            hit("isacq.true")
        else:
            hit("isacq.false.expired")


def first_diff(a, b):
    for i, (x, y) in enumerate(zip(a, b)):
        if x != y:
            return i
    return None if len(a) == len(b) else min(len(a), len(b))


def shrink(ctx, bat, case):
    """greedy: cut after the first differing op, then drop single ops while the two sides still differ."""
    def differs(c):
        if not c["ops"]:
            return False
        return first_diff(run_real(bat, c), run_model_batch(ctx, [c])[0]) is not None
    i = first_diff(run_real(bat, case), run_model_batch(ctx, [case])[0])
    cur = {"U": case["U"], "ops": list(case["ops"][:(i or 0) + 1])}
    budget = 80
    changed = True
    while changed and budget > 0:
        changed = False
        for j in range(len(cur["ops"]) - 1, -1, -1):
            cand = {"U": cur["U"], "ops": cur["ops"][:j] + cur["ops"][j + 1:]}
            budget -= 1
            if budget <= 0:
                break
            if differs(cand):
                cur, changed = cand, True
                break
    return cur


# ---------------------------------------------------------------------------------------------------
# property clauses checked directly on the real code (statement of C16, not the model)
# ---------------------------------------------------------------------------------------------------
def property_checks(bat, rng, n):
    """(a) releasing a lock one does not hold has no effect; (b) a lock whose holder's last stamp is t0
    is obtainable by another client with any stamp > t0+U; (c) it is NOT obtainable by another client
    strictly before the stored lock time + U (two replicas asked at the same instant)."""
    viols, done = [], 0
    for _ in range(n):
        U = rng.choice((0, 1, 3, 10))
        impl = bat._ReplLockManagerImpl(U)
        t0 = rng.randrange(0, 50)
        stamps = sorted(rng.randrange(0, t0 + 1) for _ in range(rng.randrange(0, 4))) + [t0]
        rng.shuffle(stamps)                      # holder's stamps arrive in any order; the last (greatest) is t0
        lc.apply_cmd(impl, ("acq", 1, 1, stamps[0]))
        for s in stamps[1:]:
            lc.apply_cmd(impl, ("pro", 1, s) if rng.random() < 0.5 else ("acq", 1, 1, s))
        before = lc.table_of(impl)
        lc.apply_cmd(impl, ("rel", 1, 2))
        lc.apply_cmd(impl, ("rel", 2, 1))
        done += 1
        if lc.table_of(impl) != before:
            viols.append({"signature": "batteries._ReplLockManagerImpl.release:non-holder-release-has-effect",
                          "what": "release by a client that does not hold the lock changed the table %s -> %s"
                                  % (before, lc.table_of(impl)),
                          "replay": {"kind": "prop", "U": U, "stamps": stamps}})
        # before the auto-unlock time has passed since the *stored* lock time nobody else may get the lock:
        # checked as the property states it -- two replicas (with / without the competitor's command) asked
        # at the same instant.  (Exactly at stored+U the property text decides nothing; the model does.)
        stored = before[0][2] if before else None       # None: the holder let its own lock lapse
        if stored is not None and U >= 1:
            now = stored + U - 1
            other = bat._ReplLockManagerImpl(U)
            getattr(other, "_ReplLockManagerImpl__locks").update(getattr(impl, "_ReplLockManagerImpl__locks"))
            other.acquire(lc.lock_name(1), lc.client_name(2), now, _doApply=True)
            if impl.isAcquired(lc.lock_name(1), lc.client_name(1), now) and other.isAcquired(lc.lock_name(1), lc.client_name(2), now):
                viols.append({"signature": "batteries._ReplLockManagerImpl.acquire:lock-stolen-before-expiry",
                              "what": "lock held by 1 since %d, U=%d: acquire by 2 with stamp %d granted; at time %d the holder's replica "
                                      "(command not yet applied) and the competitor's replica both answer isAcquired=True"
                                      % (stored, U, now, now),
                              "replay": {"kind": "prop", "U": U, "stamps": stamps}})
        d = rng.choice((1, 1, 2, 7))
        ok = impl.acquire(lc.lock_name(1), lc.client_name(2), t0 + U + d, _doApply=True)
        if ok is not True or lc.table_of(impl) != [(1, 2, t0 + U + d)]:
            viols.append({"signature": "batteries._ReplLockManagerImpl.acquire:expired-lock-not-obtainable",
                          "what": "holder's last stamp %d, U=%d, acquire by another client with stamp %d answered %r, table %s"
                                  % (t0, U, t0 + U + d, ok, lc.table_of(impl)),
                          "replay": {"kind": "prop", "U": U, "stamps": stamps}})
    # (d) command logs whose stamps are arbitrarily older than the entries around them (commit delay per
    # command 0, < U/4, ~U, > U, several U): a held lock leaves its holder only by his release or by a stamp
    # later than lock time + U
    for _ in range(n):
        U = rng.choice((1, 4, 8, 10))
        keep = lc.KeepMonitor(bat, U)
        now, cmds = rng.randrange(0, 20), []
        for _ in range(rng.randrange(3, 14)):
            now += rng.choice((0, 1, max(1, U // 2 - 1), U, U + 1))
            t = max(0, now - rng.choice((0, 0, 0, max(1, U // 4) - 1, U - 1, U + 1, U + 2, 2 * U + 1, 3 * U)))
            c, l = rng.randrange(1, 4), rng.randrange(1, 3)
            q = rng.random()
            cmd = ("acq", l, c, t) if q < 0.5 else ("pro", c, t) if q < 0.9 else ("rel", l, c)
            if rng.random() < 0.15:
                cmds.append(("rebuild", rng.choice((U, U + 2, 0))))
                kv = keep.rebuild(bat, cmds[-1][1])
                if kv is not None:
                    kv["what"] = "log %s (U=%d): %s" % ([x if x[0] == "rebuild" else lc.cmd_str(x) for x in cmds], U, kv["what"])
                    kv["replay"] = {"kind": "prop-keep", "U": U, "cmds": [list(x) for x in cmds]}
                    viols.append(kv)
                    break
            cmds.append(cmd)
            _, kv, _ = keep.apply(cmd)
            if kv is not None:
                kv["what"] = "log %s (U=%d): %s" % ([x if x[0] == "rebuild" else lc.cmd_str(x) for x in cmds], U, kv["what"])
                kv["replay"] = {"kind": "prop-keep", "U": U, "cmds": [list(x) for x in cmds]}
                viols.append(kv)
                break
        done += 1
    return viols, done


# ---------------------------------------------------------------------------------------------------
def corpus_cases(ctx):
    res = []
    for p in sorted(glob.glob(os.path.join(ctx.verif, "corpus", "locks", "impl-*.json"))):
        d = json.load(open(p))
        res.append({"U": d["U"], "ops": [tuple(o) for o in d["ops"]]})
    return res


def run(ctx):
    t0 = time.time()
    bat = lc.load_batteries(ctx.repo)
    rng = ctx.rng("locks.impl")
    cases = corpus_cases(ctx) + systematic()
    nrand = ctx.scale(1500, 60000)
    cases += [random_case(rng) for _ in range(nrand)]
    cov = {}
    disagreements, seen, ops_total = [], set(), 0
    real = [run_real(bat, c, cov) for c in cases]
    model = run_model_batch(ctx, cases)
    for c, r, m in zip(cases, real, model):
        ops_total += len(c["ops"])
        seen.add(hashlib.sha1(repr((c["U"], c["ops"])).encode()).hexdigest())
        if r != m and len(disagreements) < 3:
            s = shrink(ctx, bat, c)
            sr, sm = run_real(bat, s), run_model_batch(ctx, [s])[0]
            i = first_diff(sr, sm)
            disagreements.append({"input": {"U": s["U"], "ops": [list(o) for o in s["ops"]]},
                                  "model": sm[i] if i is not None and i < len(sm) else sm,
                                  "impl": sr[i] if i is not None and i < len(sr) else sr,
                                  "note": "first differing reply at op %s (after shrinking); replies are '<ret> <table l:c:t,...>'" % i})
    variant_note = ""
    if disagreements:
        # diagnosis only: does the tree behave like the pinned-code variant of the model (Cfg.mono = false)?
        pinned = run_model_batch(ctx, cases, mono=0)
        npin = sum(1 for r, m in zip(real, pinned) if r != m)
        variant_note = "; against the pinned-code variant of the model (mono=0): %d of %d cases differ%s" % (
            npin, len(cases), " -> the tree lacks fixes/D19-lock-time-monotone.diff" if npin == 0 else "")
        for d in disagreements:
            d["note"] += variant_note
    viols, nprop = property_checks(bat, ctx.rng("locks.impl.prop"), ctx.scale(300, 5000))
    res = {"cases": len(cases) + nprop, "distinct": len(seen), "coverage": dict(sorted(cov.items())),
           "samples": [{"U": cases[-1]["U"], "ops": [list(o) for o in cases[-1]["ops"][:8]], "replies": real[-1][:8]}],
           "disagreements": disagreements, "violations": viols[:3], "wall_s": round(time.time() - t0, 2),
           "notes": "%d ops compared (return value + full table after each)%s" % (ops_total, variant_note)}
    missing = [k for k in FLOORS if not cov.get(k)]
    if missing:
        res["inconclusive"] = "coverage floor missed: " + ",".join(missing)
    return res


def search(ctx, unproved):
    """a disagreement of this component or a broken theorem: look for a failing input of the property on
    the real code (impl-level clauses here; the schedule-level search is in locks_monitor)."""
    bat = lc.load_batteries(ctx.repo)
    viols, _ = property_checks(bat, ctx.rng("locks.impl.search"), ctx.scale(3000, 50000))
    return viols[:3]


def replay(ctx, violation):
    bat = lc.load_batteries(ctx.repo)
    rp = violation.get("replay") or {}
    if rp.get("kind") == "prop-keep":
        keep = lc.KeepMonitor(bat, rp["U"])
        for cmd in rp["cmds"]:
            kv = keep.rebuild(bat, cmd[1]) if cmd[0] == "rebuild" else keep.apply(tuple(cmd))[1]
            if kv is not None:
                return {"violated": kv["signature"] == violation.get("signature"), "what": kv["what"],
                        "table": lc.table_of(keep.impl)}
        return {"violated": False, "table": lc.table_of(keep.impl)}
    viols, _ = property_checks(bat, ctx.rng("locks.impl.prop"), ctx.scale(300, 5000))
    viols += property_checks(bat, ctx.rng("locks.impl.search"), ctx.scale(3000, 50000))[0]
    same = [v for v in viols if v["signature"] == violation.get("signature")]
    return {"violated": bool(same), "first": same[:1]}
