"""C09, first sentence: a snapshot taken at log position k holds exactly the object state obtained by
executing the log up to k (member set and enabled code version included).

Property monitor on the REAL code: real clusters under harness/sim.py take snapshots (forced compaction,
in-memory and file serializer, inline) at arbitrary moments — in particular while committed entries are
still UNAPPLIED (apply blocked by an entry that switches to a code version the node lacks, or simply
between a commit advance and the next tick) — and every snapshot is read back with the node's own
`Serializer.deserialize()`: its position must be the node's `raftLastApplied` at the time of the
compaction, its state the object state at that time = the commands executed at positions ≤ k, its
`prev`/`last` entries the log entries k−1 and k, its cluster the member set.
"""
import os
import time

from harness.sim import Sim
from harness import monitors

PROPERTIES = ["C09", "C06", "C03", "C05"]
ORDER = 30


def _check_snapshot(sim, i, before, viols, label):
    o = sim.objs[i]
    ser = sim.P(i, "serializer")
    try:
        data = ser.deserialize()
    except Exception as e:  # no snapshot yet
        return False
    if data is None:
        return False
    state, last, prev, cluster = data[0], data[1], data[2], data[3]
    k = last[1]
    la, log_then, entries = before
    if k != la:
        viols.append({"signature": "snapshot:position-not-last-applied",
                      "what": "%s: node %s took a snapshot labelled position %d while raftLastApplied was %d (commit %d)"
                              % (label, i, k, la, o.raftCommitIndex)})
    sl = state.get("log") if isinstance(state, dict) else None
    if sl is not None and list(sl) != list(log_then):
        viols.append({"signature": "snapshot:state-not-state-at-position",
                      "what": "%s: node %s snapshot at %d holds state %r, object state at compaction was %r"
                              % (label, i, k, list(sl)[-5:], list(log_then)[-5:])})
    # state must be the execution of the common sequence up to k
    common = {}
    for n, ex in sim.execs.items():
        for (pos, cmd) in ex:
            common.setdefault(pos, cmd)
    expect = [common[p] for p in sorted(common) if p <= k]
    if sl is not None and list(sl) != expect:
        viols.append({"signature": "snapshot:state-not-fold-of-log-prefix",
                      "what": "%s: node %s snapshot at position %d holds %r, executing the log up to %d gives %r"
                              % (label, i, k, list(sl)[-5:], k, expect[-5:])})
    if entries.get(k) is not None and (last[1], last[2]) != entries[k]:
        viols.append({"signature": "snapshot:last-entry-mismatch", "what": "%s: node %s" % (label, i)})
    if entries.get(k - 1) is not None and (prev[1], prev[2]) != entries[k - 1]:
        viols.append({"signature": "snapshot:prev-entry-mismatch", "what": "%s: node %s" % (label, i)})
    return True


def _before(sim, i):
    o = sim.objs[i]
    ents = {idx: (idx, term) for (idx, term, _) in sim.log_of(i)}
    return (o.raftLastApplied, list(o.log), ents)


def scenario_blocked(repo, seed, tmpdir=None, n_after=3):
    """Apply is blocked by an unsupported VERSION entry; more entries commit; then compaction."""
    kw = {}
    if tmpdir:
        kw = {"journal_dir": tmpdir, "dump": True, "conf": {"useFork": False}}
    sim = Sim(repo, ["a", "b", "c"], seed=seed, **kw)
    so = sim.so
    sim.connect_all()
    L = sim.elect()
    if L is None:
        return sim, [], "no leader"
    for k in range(4):
        sim.submit(L, "p%d" % k)
    sim.run(8)
    import pysyncobj.pickle as ppickle
    # a switch to code version 1, which this code (version 0 only) lacks: apply stops there on every node
    sim._call(L, sim.objs[L]._applyCommand, ppickle.dumps(1), None, so._COMMAND_TYPE.VERSION)
    for k in range(n_after):
        sim.submit(L, "q%d" % k)
    sim.run(8)
    viols = []
    took = 0
    for i in sim.voters:
        o = sim.objs[i]
        if o.raftCommitIndex <= o.raftLastApplied:
            continue
        before = _before(sim, i)
        sim.compact(i)
        sim.tick(i, 0.0625)
        sim.tick(i, 0.0625)
        if _check_snapshot(sim, i, before, viols, "apply blocked by unsupported version"):
            took += 1
    return sim, viols, None if took else "no snapshot taken while apply was blocked"


def scenario_plain(repo, seed, tmpdir=None):
    """Snapshots at arbitrary moments of a running cluster, object keeps applying afterwards."""
    kw = {}
    if tmpdir:
        kw = {"journal_dir": tmpdir, "dump": True, "conf": {"useFork": False}}
    sim = Sim(repo, ["a", "b", "c"], seed=seed, **kw)
    sim.connect_all()
    L = sim.elect()
    if L is None:
        return sim, [], "no leader"
    rng = sim.rng
    viols = []
    took = 0
    for rnd in range(6):
        for k in range(rng.randrange(1, 4)):
            sim.submit(rng.choice(sim.voters), "r%d_%d" % (rnd, k))
        sim.run(rng.randrange(1, 5))
        i = rng.choice(sim.voters)
        before = _before(sim, i)
        sim.compact(i)
        sim.tick(i, 0.0)           # same instant: nothing new applied between the observation and the compaction
        # further applies while the snapshot exists must not change it
        sim.submit(L, "after%d" % rnd)
        sim.run(3)
        if _check_snapshot(sim, i, _adjust(before, sim, i), viols, "running cluster"):
            took += 1
    viols += monitors.sm_safety(sim)
    return sim, viols, None if took else "no snapshot"


def scenario_members(repo, seed, tmpdir=None, committed=False):
    """A membership change is in the log AFTER the snapshot position (appended, not applied): the member set of the
    snapshot is the one of its position.  With `committed` the change is applied first and belongs to the snapshot."""
    import pickle as _p
    kw = {}
    if tmpdir:
        kw = {"journal_dir": tmpdir, "dump": True}
    sim = Sim(repo, ["a", "b", "c"], seed=seed, conf={"dynamicMembershipChange": True, "useFork": False}, **kw)
    sim.connect_all()
    L = sim.elect()
    if L is None:
        return sim, [], "no leader"
    for k in range(3):
        sim.submit(L, "m%d" % k)
    sim.run(8)
    if not committed:
        for j in sim.voters:
            if j != L:
                sim.cut(L, j)          # silent: L keeps leading, nothing commits any more
    o = sim.objs[L]
    sim._call(L, o.addNodeToCluster, sim.Node("d"), callback=lambda r, e: None)
    sim.tick(L, 0.0625)
    if committed:
        sim.run(8)
    sim.compact(L)
    sim.tick(L, 0.0625)
    sim.tick(L, 0.0625)
    viols = []
    try:
        data = sim.P(L, "serializer").deserialize()
    except Exception:
        data = None
    if data is None:
        return sim, [], "no snapshot"
    k = data[1][1]
    cluster = sorted(getattr(n, "id", n) for n in data[3])
    want = set(["a", "b", "c"])
    ents = []
    for (idx, term, cmd) in sim.log_of(L):
        if cmd[:1] == b"\x02":
            req = _p.loads(cmd[1:])
            ents.append((idx, req[0], req[1]))
            if idx <= k:
                if req[0] == "add":
                    want.add(req[1])
                else:
                    want.discard(req[1])
    if cluster != sorted(want):
        viols.append({"signature": "snapshot:member-set-not-at-its-position",
                      "what": "node %s took a snapshot at position %d; membership entries in its log %s; the snapshot stores "
                              "member set %s, the commands up to %d define %s" % (L, k, ents, cluster, k, sorted(want))})
    if not ents or (not committed and ents[-1][0] <= k) or (committed and ents[-1][0] > k):
        return sim, viols, "membership entry not on the intended side of the snapshot position"
    return sim, viols, None


def scenario_members_follower(repo, seed, tmpdir=None):
    """TWO membership entries about the SAME node (add d, then remove d) are appended and unapplied on a FOLLOWER when it
    compacts: the member set of its snapshot is still the one of its position.  A follower gets into that state when the
    entries reach it with a commit index below both of them - a leader elected after a restart starts from its stored,
    older commit index; here the leader's real entries are delivered in one append_entries message whose commit_index is
    the follower's own (added for seeded change C09-17: undoing pending changes in log order instead of backwards)."""
    import pickle as _p
    kw = {}
    if tmpdir:
        kw = {"journal_dir": tmpdir, "dump": True}
    # 4 voters: {a,b,c,e}+d has a majority without the cut-off follower
    sim = Sim(repo, ["a", "b", "c", "e"], seed=seed, conf={"dynamicMembershipChange": True, "useFork": False}, **kw)
    sim.connect_all()
    L = sim.elect()
    if L is None:
        return sim, [], "no leader"
    for k in range(3):
        sim.submit(L, "m%d" % k)
    sim.run(8)
    F = [j for j in sim.voters if j != L][-1]
    others = [j for j in sim.voters if j != F]
    if sim.objs[F].raftLastApplied != sim.objs[L].raftLastApplied:
        return sim, [], "follower not up to date before the changes"
    k0 = sim.objs[F].raftLastApplied
    sim.cut(L, F)
    for j in others:
        if j != L:
            sim.cut(j, F)
    o = sim.objs[L]
    for fn in (o.addNodeToCluster, o.removeNodeFromCluster):
        sim._call(L, fn, sim.Node("d"), callback=lambda r, e: None)
        sim.run(8, among=others)
    lg = sim.log_of(L)
    tail = [(cmd, idx, term) for (idx, term, cmd) in lg if idx > k0]
    prev = [(idx, term) for (idx, term, cmd) in lg if idx == k0]
    mem = [(idx, _p.loads(cmd[1:])[0]) for (cmd, idx, term) in tail if cmd[:1] == b"\x02"]
    if [x[1] for x in mem] != ["add", "rem"] or not prev:
        return sim, [], "leader did not accept add d and remove d (%s)" % mem
    sim.inject(L, F, {"type": "append_entries", "term": o.raftCurrentTerm, "commit_index": k0, "entries": tail,
                      "prevLogIdx": prev[0][0], "prevLogTerm": prev[0][1]})
    f = sim.objs[F]
    if sim.last_index(F) != tail[-1][1] or f.raftLastApplied != k0:
        return sim, [], "follower did not store the entries unapplied"
    sim.compact(F)
    sim.tick(F, 0.0625)
    sim.tick(F, 0.0625)
    try:
        data = sim.P(F, "serializer").deserialize()
    except Exception:
        data = None
    if data is None:
        return sim, [], "no snapshot"
    k = data[1][1]
    cluster = sorted(getattr(n, "id", n) for n in data[3])
    if k != k0:
        return sim, [], "snapshot not at the position before the two changes"
    viols = []
    if cluster != ["a", "b", "c", "e"]:
        viols.append({"signature": "snapshot:member-set-not-at-its-position",
                      "what": "follower %s took a snapshot at position %d with 'add d' at %d and 'rem d' at %d appended and unapplied; "
                              "the snapshot stores member set %s, the commands up to %d define ['a', 'b', 'c', 'e']"
                              % (F, k, mem[0][0], mem[1][0], cluster, k)})
    return sim, viols, None


def scenario_own_vs_installed(repo, seed, tmpdir=None, extra=8, then_elect=False):
    """A follower's OWN compaction is pending (started on one tick, completed on the next) when the leader's newer
    snapshot and further entries arrive in between: completing the own compaction must not touch the new log (its
    position lies below the installed snapshot); the follower converges."""
    kw = {}
    if tmpdir:
        kw = {"journal_dir": tmpdir, "dump": True}
    sim = Sim(repo, ["a", "b", "c"], seed=seed, conf={"useFork": False}, **kw)
    sim.connect_all()
    L = sim.elect()
    if L is None:
        return sim, [], "no leader"
    B, C = [i for i in sim.voters if i != L]
    for k in range(8):
        sim.submit(L, "s%d" % k)
    sim.run(8)
    sim.disconnect(C, L)
    sim.disconnect(C, B)
    for k in range(3):
        sim.submit(L, "t%d" % k)
    sim.run(8, among=[L, B])
    for i in (L, B):
        sim.compact(i)
    sim.run(3, among=[L, B])
    if sim.log_of(L)[0][0] <= sim.objs[C].raftLastApplied:
        return sim, [], "leader's snapshot is not ahead of the lagging node"
    sim.cut(L, B)                           # silent: the next commands stay uncommitted
    for k in range(extra):
        sim.submit(L, "u%d" % k)
    sim.tick(L, 0.0625)
    own_pos = sim.objs[C].raftLastApplied
    sim.connect(C, L)
    sim.compact(C)
    sim.tick(C, 0.0)                        # C starts its own compaction (position own_pos)
    for _ in range(3):                      # the leader's snapshot and entries arrive before C's next tick
        sim.tick(L, 0.125)
        while sim.deliver(L, C):
            pass
    installed = sim.log_of(C)[0][0] > own_pos
    sim.tick(C, 0.0625)                     # ... which completes the own compaction
    sim.connect(L, B)
    sim.run(24)
    viols = monitors.sm_safety(sim) + monitors.errors(sim)
    lo, co = sim.objs[L], sim.objs[C]
    idx = [e[0] for e in sim.log_of(C)]
    if idx != list(range(idx[0], idx[0] + len(idx))):
        viols.append({"signature": "snapshot:own-compaction-damages-installed-log",
                      "what": "log of %s is not contiguous after its own compaction (position %d) completed over the installed snapshot: %s"
                              % (C, own_pos, idx)})
    if co.raftLastApplied != lo.raftLastApplied or list(co.log) != list(lo.log):
        viols.append({"signature": "snapshot:own-compaction-damages-installed-log",
                      "what": "node %s started its own compaction at position %d, installed the leader's snapshot before the compaction "
                              "completed, and does not converge: applied %d (commit %d, log %d..%d), leader applied %d"
                              % (C, own_pos, co.raftLastApplied, co.raftCommitIndex, idx[0], idx[-1], lo.raftLastApplied)})
    if then_elect:
        # C03: the node that went through this is made LEADER (the old leader is cut off, only its timer runs): its log or
        # snapshot must hold every committed command
        committed_to = lo.raftCommitIndex
        for j in (B, C):
            sim.disconnect(L, j)
        sim.connect(C, B)
        for _ in range(200):
            sim.tick(C, 0.0625)
            sim.deliver_all(among={B, C})
            sim.tick(B, 0.0)
            sim.deliver_all(among={B, C})
            if sim.objs[C]._isLeader():
                break
        viols = [v for v in viols if v["signature"].startswith("sm-safety")]
        if not sim.objs[C]._isLeader():
            return sim, viols, "the node did not win the election"
        try:
            snap_last = sim.P(C, "serializer").deserialize()[1][1]
        except Exception:
            snap_last = 1
        have = set(e[0] for e in sim.log_of(C))
        missing = [p for p in range(2, committed_to + 1) if p > snap_last and p not in have]
        if missing:
            viols.append({"signature": "leader-completeness:leader-lacks-committed-entry",
                          "what": "node %s (own compaction at %d completed over an installed snapshot) became leader of term %d; committed "
                                  "positions %s are neither in its log (%d..%d) nor covered by its snapshot (up to %d)"
                                  % (C, own_pos, sim.objs[C].raftCurrentTerm, missing[:6], min(have), max(have), snap_last)})
        return sim, viols, None if installed else "snapshot was not installed between the two ticks"
    return sim, viols, None if installed else "snapshot was not installed between the two ticks"


def scenario_restore_removal(repo, seed, tmpdir=None):
    """The member set RESTORED from a snapshot is the one of the snapshot: a node removed before the snapshot position
    is gone on a node that learns of the removal only through the snapshot (schedule of corr.c10_membership)."""
    import random as _r
    from harness.corr import c10_membership as m

    class _Ctx(object):
        pass
    cx = _Ctx()
    cx.repo = repo
    c, v, note = m.directed_snapshot_removal(cx, _r.Random(seed))
    out = []
    for x in v:
        if x["signature"] in (m.SIG_FOLD, m.SIG_AGREE):
            out.append({"signature": "snapshot:restored-member-set-not-at-its-position", "what": x["what"]})
    return c.sim, out, note


def _adjust(before, sim, i):
    """The tick that performs the compaction first applies newly committed entries: the snapshot position is
    the applied index of THAT tick; recover it from the snapshot label only when it lies between the
    observation and now (the monitor then checks state and entries for that position)."""
    la, log_then, ents = before
    try:
        k = sim.P(i, "serializer").deserialize()[1][1]
    except Exception:
        return before
    if la <= k <= sim.objs[i].raftLastApplied:
        common = {}
        for n, ex in sim.execs.items():
            for (pos, cmd) in ex:
                common.setdefault(pos, cmd)
        log_at_k = [common[p] for p in sorted(common) if p <= k]
        ents2 = dict(ents)
        for (idx, term, _) in sim.log_of(i):
            ents2[idx] = (idx, term)
        return (k, log_at_k, ents2)
    return before


def run(ctx):
    import logging
    logging.getLogger("pysyncobj").setLevel(logging.CRITICAL)
    logging.getLogger("pysyncobj.syncobj").setLevel(logging.CRITICAL)
    t0 = time.time()
    viols, cases, notes, samples = [], 0, [], []
    seen = set()
    if ctx.pid == "C03":
        for sd in range(ctx.seed * 10, ctx.seed * 10 + ctx.scale(3, 12)):
            for extra in (8, 2):
                sim, v, note = scenario_own_vs_installed(ctx.repo, sd, None, extra=extra, then_elect=True)
                cases += 1
                seen.add(("own-vs-installed-then-leader", "mem", note is None))
                if note:
                    notes.append(note)
                for x in v:
                    x["replay"] = {"component": "corr.c09_capture", "scenario": "own-vs-installed-then-leader", "mode": "mem",
                                   "seed": sd, "extra": extra}
                viols.extend(v)
            if viols:
                break
        r = {"name": "corr.c09_capture", "cases": cases, "distinct": len(seen), "violations": viols[:3],
             "coverage": {"scenarios": sorted(str(s) for s in seen), "notes": sorted(set(notes))[:6]},
             "samples": samples, "wall_s": round(time.time() - t0, 2)}
        if not any(s[2] for s in seen):
            r["inconclusive"] = "the node with the interrupted compaction never became leader"
        return r
    if ctx.pid == "C05":
        # C05: "no node stays permanently behind": the follower whose own compaction was pending while the leader's
        # snapshot and further entries arrived must converge
        for sd in range(ctx.seed * 10, ctx.seed * 10 + ctx.scale(3, 12)):
            for extra in (8, 2, 14):
                sim, v, note = scenario_own_vs_installed(ctx.repo, sd, None, extra=extra)
                cases += 1
                seen.add(("own-vs-installed", "mem", note is None))
                v = [x for x in v if x["signature"] == "snapshot:own-compaction-damages-installed-log" and "converge" in x["what"]]
                for x in v:
                    x["replay"] = {"component": "corr.c09_capture", "scenario": "own-vs-installed", "mode": "mem", "seed": sd}
                viols.extend(v)
            if viols:
                break
        r = {"name": "corr.c09_capture", "cases": cases, "distinct": len(seen), "violations": viols[:3],
             "coverage": {"scenarios": sorted(str(s) for s in seen)}, "samples": samples, "wall_s": round(time.time() - t0, 2)}
        if not any(s[2] for s in seen):
            r["inconclusive"] = "no snapshot installed while an own compaction was pending"
        return r
    for sd in range(ctx.seed * 10, ctx.seed * 10 + ctx.scale(2, 10)):
        for mode in ("mem", "file"):
            for name, fn in (("blocked", scenario_blocked), ("plain", scenario_plain),
                             ("members-pending", scenario_members),
                             ("members-applied", lambda r, s_, t: scenario_members(r, s_, t, committed=True)),
                             ("own-vs-installed", scenario_own_vs_installed),
                             ("members-pending-follower", scenario_members_follower),
                             ("restore-removal", scenario_restore_removal)):
                tmp = ctx.tmpdir() if mode == "file" else None
                sim, v, note = fn(ctx.repo, sd, tmp)
                cases += 1
                seen.add((name, mode, note is None))
                if note:
                    notes.append("%s/%s: %s" % (name, mode, note))
                for x in v:
                    x["replay"] = {"component": "corr.c09_capture", "scenario": name, "mode": mode, "seed": sd}
                viols.extend(v)
                if len(samples) < 2:
                    samples.append({"scenario": name, "mode": mode, "events": len(sim.trace)})
        if viols:
            break
    reached_blocked = any(s[0] == "blocked" and s[2] for s in seen)
    r = {"name": "corr.c09_capture", "cases": cases, "distinct": len(seen), "violations": viols[:5],
         "coverage": {"scenarios": sorted(str(s) for s in seen), "notes": sorted(set(notes))[:6]},
         "samples": samples, "wall_s": round(time.time() - t0, 2)}
    if not reached_blocked:
        r["inconclusive"] = "no snapshot taken while committed entries were unapplied"
    elif not any(s[0] == "own-vs-installed" and s[2] for s in seen):
        r["inconclusive"] = "no snapshot installed while an own compaction was pending"
    elif not any(s[0] == "members-pending" and s[2] for s in seen):
        r["inconclusive"] = "no snapshot taken while a membership entry was appended and unapplied"
    elif not any(s[0] == "members-pending-follower" and s[2] for s in seen):
        r["inconclusive"] = "no follower snapshot taken while add and remove of one node were appended and unapplied"
    return r


def replay(ctx, violation):
    rp = violation.get("replay", {})
    fns = {"blocked": scenario_blocked, "plain": scenario_plain, "members-pending": scenario_members,
           "own-vs-installed": scenario_own_vs_installed, "restore-removal": scenario_restore_removal,
           "members-pending-follower": scenario_members_follower,
           "members-applied": lambda r, s_, t: scenario_members(r, s_, t, committed=True)}
    if rp.get("scenario") == "own-vs-installed-then-leader":
        sim, v, note = scenario_own_vs_installed(ctx.repo, rp.get("seed", 1), None, extra=rp.get("extra", 8), then_elect=True)
        return {"violated": bool(v), "violations": v[:5], "note": note}
    fn = fns.get(rp.get("scenario"), scenario_plain)
    tmp = ctx.tmpdir() if rp.get("mode") == "file" else None
    sim, v, note = fn(ctx.repo, rp.get("seed", 1), tmp)
    return {"violated": bool(v), "violations": v[:5], "note": note}
