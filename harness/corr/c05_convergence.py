"""C05 validation on REAL clusters (harness/sim.py: real SyncObj instances, simulated transport, per-node virtual
clocks).  This is a property monitor on the real code, NOT the proof: it tries many seeded fault histories and
then demands what the property statement demands.  The theorems (lean/PSO/Props/C05.lean) are about the model.

One case = one *fault history* followed by HEAL and a QUIET PERIOD:

  fault history   2-5 voters + 0-2 read-only nodes; conf variations (tiny appendEntriesBatchSizeBytes so that
                  catching up needs several batches, tiny logCompactionBatchSize so that a snapshot travels in
                  several chunks, logCompactionMinEntries/MinTime small = automatic compaction on every node,
                  leaderFallbackTimeout 0.5..30 s, snapshots in memory or in a dump file); events: partitions of
                  every shape (`cut` noticed by both ends / one end / nobody / much later), a connection dying in
                  the middle of a delivery burst, stale leaders that keep accepting submissions while the majority
                  side elects another leader and commits, ticks with uneven dt, messages held in their channels
                  while other things happen, forced compaction on any node at any time, followers / read-only
                  nodes lagging so far that the leader has compacted past their position, submissions on any node.
                  A systematic set of directed histories (each fault class at each cluster size) precedes the
                  random stream; corpus/c05/*.json (minimised histories that caught mutants / past wedges) runs first.
  heal            faults cease for a MAJORITY of the voters: every pair (voter-voter, observer-voter) of the connected
                  side is `connect`ed (an endpoint that never noticed the loss gets a second onNodeConnected, as with
                  the real TCP transport); nothing is held back any more.  The history parameter `down` (a role -
                  the node that lagged, the old leader, another voter, as many voters as a strict minority allows -
                  or a concrete list; absent = nobody) names nodes that stay cut off from everybody for the whole
                  quiet period, either noticed by both ends (`disconnect`) or silently (`cut` after a fresh `connect`:
                  the connected side believes in the link and sends into the void).  Down nodes keep ticking or not.
                  EVERY oracle below looks at the connected side only (a down node that still believes it is leader
                  is no leader view).  Directed kind `old_long_vs_new_short`: the bare majority that is left is a
                  node with a longer log of an older term plus a node with a shorter log of a newer term (and the
                  mirror image), nobody leader, terms grown while everybody was alone.
  quiet period    at most QUIET x raftMaxTimeout of virtual time in steps of 1/16 s: every node ticks each step,
                  every message is delivered each step.  Two fresh commands are submitted on seeded nodes (leader /
                  follower / read-only node / the node that lagged): `early` the first time one leader is named by
                  everybody, `post` once that has been the same leader for STABLE x raftMaxTimeout (nobody is about
                  to start an election any more), at the latest after half of the period.  The run ends
                  TAIL x raftMaxTimeout after everything below held for the first time (stability), or when the
                  period is used up.

  exact multiple  over-sized commands whose pickled log entry is EXACTLY 2, 3, 4 x appendEntriesBatchSizeBytes long (the last
                  piece ends on the batch boundary; 1 x cannot occur, see Hist.exact_payload): kind `exact_multiple_entry`
                  (replicated at once / to a node that was away / after a compaction), as the quiet-period commands
                  (`exact_post`, `exact_early`), and in some random histories.  Coverage measures on the wire how many
                  piecewise transmissions really were exact multiples, by k; floor for each k.
  bandwidth       history parameter `link_rate` = at most that many messages per directed link and step during the quiet
                  period (FIFO, nothing lost, timely ticks; absent = everything is delivered each step).  Kind
                  `slow_snapshot`: a voter / read-only node needs a snapshot of MANY chunks (hardly compressible state,
                  logCompactionBatchSize 32..128, memory and dump-file mode) over such a link, so the transfer takes
                  several election timeouts (measured: first to last chunk delivered; floor).  Random histories get
                  link_rate 2..8 with p=0.2.  Variant `pending` (conf `dump_checker`): the public conf option
                  `serializeChecker` keeps the leader's forced dump "in the making" for 40..64 ticks, the returning
                  node gets nothing but `serialized: None` for longer than an election timeout (no rate limit there:
                  the leader's send loop floods the link with thousands of those).
  member option   `dynamicMembershipChange=True` in 30 % of all confs (no membership command is ever issued) and always in
                  kind `snapshot_then_leader_down`: a voter catches up by snapshot, gets a few more entries alone, the
                  leader (with 5 voters: one more) becomes unreachable for good; the snapshot node must win.
  even split      kind `even_split` (4 or 6 voters, observers on either half; also a phase inside random histories over
                  4 voters): the voters fall into two equal halves that cannot talk (silent or noticed) while
                  elections run - at start-up before anybody leads, or after the leader was lost - both halves tick
                  in lock-step and are offered different commands; with half of the votes nobody may win.  Coverage
                  (only; C05 speaks about the time after the heal) records whether both halves ran elections, whether
                  a node claimed leadership with half of the voters, and two leaders of one term.
  long walk back  kind `long_walkback` (and `stale_leader` with a short leaderFallbackTimeout + a minority down in the
                  random stream): the returning old leader is NEEDED for the majority and answers nothing but
                  rejections for longer than leaderFallbackTimeout (0.25 / 0.5 / 1 s against a stale tail of 6 / 20 /
                  60 entries; thorough tier: the default 30 s against 300 / 420 entries) while the new leader steps
                  back one index per round trip.  Coverage counts the histories whose walk really outlasted T.
  restarts        (`kill` = kill -9, the peers are not told; `restart` = new process, it connects again and the peers
                  get a second onNodeConnected)
                  * a READ-ONLY node loses everything and comes back (kind `observer_restart`: confirmed and caught
                    up / lagging / in the middle of a multi-chunk snapshot transfer; leader unchanged or leadership
                    changing around it; also an event of random histories) - always safe, observers never count;
                  * VOTERS with journal + dump file (the C06 setting) are killed and restarted at any time (kind
                    `voter_restart_journal`, and an event of random histories that run with `journal`): they keep
                    term, vote and log;
                  * a STATELESS voter restart appears ONLY in kind `voter_restart_leader_stays`: exactly one follower
                    F (never the leader) comes back empty (default conf) or with an older dump file only, at a
                    moment when it has confirmed entries to the current leader; the leader stays connected to the
                    other voters, F is reconnected at once and NO fault follows the restart, so no election can
                    succeed and nothing committed can be lost through what F forgot.  It is deliberately NOT part of
                    random histories and never combined with a later leader change: replicas could then
                    legitimately differ (that needs the journal premise of C06/C07).

Monitors = the property statement, read through public observations only (`_isLeader()`, `_getLeader()`,
callbacks, `raftLastApplied`, the free state machine's list `obj.log`), evaluated at the END of the quiet period
(the messages on the wire are consulted only to choose the detail suffix of a signature):

  convergence:no-single-leader                     not exactly one voter reports leader, some node's `_getLeader()` does
                                                   not name it, or the leader keeps changing (not the same one for TAIL
                                                   election timeouts)
  convergence:terms-keep-growing                   during the last TAIL election timeouts of the quiet period the term of a
                                                   connected node still rose: elections do not stop
  convergence:post-heal-command-not-acknowledged:<detail>
        command `post`  (submitted once the same single leader was named by everybody for STABLE election timeouts):
                        its callback must fire with SUCCESS.  detail = no-callback | error-<FAIL_REASON> |
                        submitter-stays-behind | skipped-by-snapshot-on-submitter
        command `early` (submitted the first time one leader is named by everybody; leadership may still change, so
                        an error callback is accepted - LEADER_CHANGED etc. leave the outcome open): no message is lost
                        after the heal, so if it ends up applied on all replicas its submitter must have got a callback.
                        detail = applied-without-callback | submitter-stays-behind | skipped-by-snapshot-on-submitter
  convergence:replica-stays-behind:<detail>        a voter / read-only node has another `raftLastApplied` than the leader;
                                                   detail = alternating-reset-hints | repeated-reset-hint | no-rejections
  convergence:states-differ                        two nodes at the same applied position hold different `obj.log`
  tick:exception-escapes                           an exception left doTick / a transport callback

Virtual time inside one tick: see Hist._guard (the only place where the harness touches a clock by itself).
Reads besides the public API: `_getTerm()` (coverage only: stale leader at heal time) and the log end through the
Sim helper `sim.log_of(i)` (COVERAGE classification only: which of the connected voters has the longer log / the
newer last term at heal time) and, when a node is killed / reconnected, the leader's private
`_SyncObj__raftMatchIndex` via `sim.P` and `sim.last_index` (COVERAGE classification only: was the restarted node
confirmed with an unchanged leader, is the leader's matchIndex beyond what the node has left).  No oracle uses any of these.
"""
import collections
import hashlib
import json
import logging
import os
import random as _random
import time

from harness import sim as simmod

PROPERTIES = ["C05"]
ORDER = 60

QUIET = 40          # quiet period, in raftMaxTimeouts
TAIL = 3            # stability tail after first convergence, in raftMaxTimeouts
STABLE = 1.25       # the fresh command is submitted once the same leader was named by all for this long (raftMaxTimeouts)
FAIL_NAMES = {0: "SUCCESS", 1: "QUEUE_FULL", 2: "MISSING_LEADER", 3: "DISCARDED", 4: "NOT_LEADER", 5: "LEADER_CHANGED",
              6: "REQUEST_DENIED"}
DT = 0.0625
HERE = os.path.dirname(os.path.abspath(__file__))
CORPUS = os.path.join(os.path.dirname(os.path.dirname(HERE)), "corpus", "c05")
DTS = [0.0, 0.0009765625, 0.03125, 0.0625, 0.0625, 0.125, 0.125, 0.25, 0.5, 1.0, 2.0]
BIG = 2 ** 16
_COUNTER = __import__("itertools").count()
_ALPH = "abcdefghijklmnopqrstuvwxyzABCDEFGHIJKLMNOPQRSTUVWXYZ0123456789+/"
SPIN_DT = 0.0009765625     # virtual cost of one useless send inside the leader's send loop, see Hist._guard
SEND_CAP = 400000


class Runaway(BaseException):
    """a single history sent an absurd number of messages (a loop that virtual time cannot end)"""


def _quiet_logs():
    logging.getLogger().setLevel(logging.CRITICAL + 1)
    for name in ("pysyncobj.syncobj", "pysyncobj.serializer", "pysyncobj"):
        lg = logging.getLogger(name)
        if not lg.handlers:
            lg.addHandler(logging.NullHandler())
        lg.propagate = False


# ------------------------------------------------------------------------------------------------
# a history on a live simulator: every executed event is recorded, a recorded list can be re-executed
# ------------------------------------------------------------------------------------------------
class Hist(object):
    def __init__(self, repo, p, workdir=None):
        _quiet_logs()
        self.p = p
        self.V = ["v%d" % k for k in range(p["nv"])]
        self.O = ["o%d" % k for k in range(p["no"])]
        self.A = self.V + self.O
        conf = dict(p.get("conf") or {})
        per = {}
        self.filedir = None
        jdir = None
        if p.get("dumpfile") or p.get("journal"):
            if workdir is None:
                raise RuntimeError("a history with dump files / journals needs a work directory")
            conf["useFork"] = False
            tag = hashlib.sha1(json.dumps(p, sort_keys=True).encode()).hexdigest()[:12]
            self.filedir = os.path.join(workdir, "%s-%d-%d" % (tag, os.getpid(), next(_COUNTER)))
            os.makedirs(self.filedir)
            if p.get("journal"):
                jdir = self.filedir                  # voters: journal + dump file (the C06 setting); observers: memory
            else:
                for i in self.A:
                    per[i] = {"fullDumpFile": os.path.join(self.filedir, "%s.dump" % i)}
        self.pend = {}
        if p.get("dump_checker"):
            # the public conf option `serializeChecker` lets the application say how long its dump is in the making:
            # while it answers SERIALIZING the node has no snapshot to hand out and sends `serialized: None`.
            # (Under the virtual clock a dump is otherwise always complete on the next tick.)  Armed by event `pend`.
            simmod.load_pysyncobj(repo)
            from pysyncobj.config import SERIALIZER_STATE as ST
            for i in self.A:
                def checker(i=i, h=self):
                    st = h.pend.get(i)
                    if st is None:
                        return ST.NOT_SERIALIZING
                    st["calls"] += 1
                    if st["calls"] == 1:
                        return ST.NOT_SERIALIZING            # the tick that starts the forced dump
                    if st["calls"] <= 1 + st["n"]:
                        return ST.SERIALIZING
                    del h.pend[i]
                    return ST.SUCCESS
                per.setdefault(i, {})["serializeChecker"] = checker
        self.sim = simmod.Sim(repo, self.V, observers=self.O, conf=conf, seed=p["seed"], per_node_conf=per,
                              journal_dir=jdir, dump=bool(jdir))
        self.rng = _random.Random("c05/%r" % (p["seed"],))
        self.events = []
        self.hold = set()
        self.seq = 0
        self.B = conf.get("appendEntriesBatchSizeBytes", BIG)
        self.pairs = [(a, b) for n, a in enumerate(self.V) for b in self.V[n + 1:]] + \
                     [(o, v) for o in self.O for v in self.V]
        self.notes = {}
        self.down, self.C, self.CV, self.CO = [], list(self.A), list(self.V), list(self.O)
        self.spins = 0
        self.rnd_len = 96
        self.kills = []            # coverage records of kill / restart / reconnect (see _note_kill)
        self.pending = {}          # restarted node -> its record, until it is connected to a leader again
        self._guard()

    def close(self):
        """release files of journaled / dump-file histories"""
        if self.filedir is None:
            return
        s = self.sim
        for o in list(s.objs.values()) + [o for o in getattr(s, "dead_all", [])]:
            try:
                o._doDestroy()
            except Exception:
                pass
        import shutil
        shutil.rmtree(self.filedir, ignore_errors=True)

    def alive(self, i):
        return i in self.sim.objs

    def _note_kill(self, i):
        """COVERAGE classification only (never used by an oracle): what the current leader believed about node i
        when it was killed (the leader's private `_SyncObj__raftMatchIndex`), and whether a snapshot transfer to i
        was under way (read off the wire)."""
        s = self.sim
        ls = [v for v in self.V if v in s.objs and v != i and s.objs[v]._isLeader()]
        rec = {"node": i, "observer": i in self.O, "leader": ls[0] if len(ls) == 1 else None, "match": None,
               "was_leader": i in self.V and s.objs[i]._isLeader(), "in_snapshot": False, "reconnect": None}
        if rec["leader"] is not None:
            rec["match"] = dict((n.id, m) for n, m in s.P(rec["leader"], "raftMatchIndex").items()).get(i)
        last = None
        for (a, b, m) in reversed(s.sent[-600:]):
            if b == i and m.get("type") == "append_entries" and m.get("serialized") is not None:
                last = m["serialized"]
                break
        inflight = any(m.get("serialized") is not None for c in s.chan if c[1] == i for m in s.chan[c])
        rec["in_snapshot"] = bool(inflight or (last is not None and not last[2]))
        self.kills.append(rec)
        return rec

    def _note_connect(self, a, b):
        """COVERAGE only: at the moment a restarted node meets a leader again - does that leader still hold a
        matchIndex for it that is beyond what the node has left?"""
        s = self.sim
        for x, y in ((a, b), (b, a)):
            rec = self.pending.get(x)
            if rec is None or y not in self.V or not s.objs[y]._isLeader():
                continue
            m = dict((n.id, v) for n, v in s.P(y, "raftMatchIndex").items()).get(x)
            rec["reconnect"] = {"leader": y, "same_leader": y == rec["leader"], "match": m, "log_end": s.last_index(x)}
            del self.pending[x]

    def _guard(self):
        """`__sendAppendEntries` ends its per-node loop by the wall clock only (`delta > appendEntriesPeriod`).  While
        the serializer is busy (`getTransmissionData` -> None, e.g. on the tick after a compaction started) a node
        that needs the snapshot makes that loop spin: it re-sends `serialized: None` until the clock stops it.
        Under a frozen virtual clock this never ends, so each such send costs the sender SPIN_DT of its own time
        (sending takes time on a real machine too); nothing else touches the clocks."""
        sim, orig, h = self.sim, self.sim._send, self

        def _send(a, b, msg):
            if msg.get("type") == "append_entries" and "serialized" in msg and msg["serialized"] is None:
                sim.now[a] += SPIN_DT
                h.spins += 1
            if len(sim.sent) > SEND_CAP:
                raise Runaway("more than %d messages in one history" % SEND_CAP)
            return orig(a, b, msg)
        sim._send = _send

    # -- event execution -------------------------------------------------------------------------
    def ev(self, *e):
        e = list(e)
        self.events.append(e)
        self.apply(e)

    def apply(self, e):
        s, k = self.sim, e[0]
        if k in ("tick", "submit", "compact", "notice", "connect", "kill") and \
                any(x not in s.objs for x in e[1:3] if isinstance(x, str) and x in self.A):
            return                   # the node is dead (a shrunk history may have lost the restart): nothing happens
        if k == "connect":
            self._note_connect(e[1], e[2])
            s.connect(e[1], e[2])
        elif k == "kill":
            rec = self._note_kill(e[1])
            o = s.kill(e[1])
            s.dead_all = getattr(s, "dead_all", []) + [o]
            self.pending[e[1]] = rec
        elif k == "restart":
            if e[1] not in s.objs:
                s.restart(e[1])
        elif k == "cut":
            s.cut(e[1], e[2])
        elif k == "notice":
            s.notice(e[1], e[2])
        elif k == "tick":
            s.tick(e[1], e[2])
        elif k == "deliver":
            for _ in range(e[3]):
                if s.deliver(e[1], e[2]) is None:
                    break
        elif k == "submit":
            s.submit(e[1], e[2])
        elif k == "compact":
            if self.p.get("dump_checker") and e[1] not in self.pend:
                self.pend[e[1]] = {"n": 0, "calls": 0}     # with a checker every dump must be reported done by it
            s.compact(e[1])
        elif k == "pend":
            if self.p.get("dump_checker"):
                self.pend[e[1]] = {"n": e[2], "calls": 0}
        elif k == "hold":
            self.hold.add((e[1], e[2]))
        elif k == "release":
            self.hold.discard((e[1], e[2]))
        elif k == "run":
            among = e[3]
            ids = among if among is not None else self.A
            for _ in range(e[1]):
                for i in ids:
                    if i in s.objs:
                        s.tick(i, e[2])
                self.deliver_all(among)
        else:
            raise ValueError("unknown event %r" % (e,))

    def deliver_all(self, among=None, limit=20000):
        s, n, progress = self.sim, 0, True
        amset = set(among) if among is not None else None
        while progress and n < limit:
            progress = False
            for c in sorted(s.chan.keys()):
                if c in self.hold or (amset is not None and (c[0] not in amset or c[1] not in amset)):
                    continue
                q = s.chan[c]
                while q and n < limit:
                    s.deliver(c[0], c[1])
                    n += 1
                    progress = True
        return n

    def deliver_limited(self, k, step, xfer):
        """bounded bandwidth: at most k messages per directed link in this step (FIFO, nothing lost, every link gets
        its turn).  `xfer` records, per destination, at which step a snapshot transfer started / completed."""
        s = self.sim
        budget = {}
        progress = True
        while progress:
            progress = False
            for c in sorted(s.chan.keys()):
                q = s.chan[c]
                while q and budget.get(c, 0) < k:
                    budget[c] = budget.get(c, 0) + 1
                    m = s.deliver(c[0], c[1])
                    progress = True
                    ser = m.get("serialized") if isinstance(m, dict) else None
                    if ser is not None:
                        x = xfer.setdefault(c[1], {"start": None, "chunks": 0, "longest": 0, "done": 0, "restarts": 0})
                        if ser[1]:
                            if x["start"] is not None:
                                x["restarts"] += 1
                            x["start"], x["chunks"] = step, 0
                        x["chunks"] += 1
                        if ser[2] and x["start"] is not None:
                            x["longest"] = max(x["longest"], step - x["start"])
                            x["done"] += 1
                            x["start"] = None

    # -- generator helpers -----------------------------------------------------------------------
    def run(self, steps, dt=DT, among=None):
        self.ev("run", steps, dt, list(among) if among is not None else None)

    def leaders(self, among=None):
        return [v for v in (among if among is not None else self.V)
                if v in self.V and v in self.sim.objs and self.sim.objs[v]._isLeader()]

    def leader(self, among=None):
        ls = self.leaders(among)
        return ls[0] if len(ls) == 1 else None

    def elect(self, among=None, max_steps=240):
        for _ in range(max_steps):
            l = self.leader(among)
            if l is not None:
                break
            self.run(1, DT, among)
        l = self.leader(among)
        if l is not None:
            self.notes.setdefault("stale", l)        # the first leader of the history = "the old leader"
        return l

    def payload(self, cls="tiny"):
        self.seq += 1
        x = "c%d" % self.seq
        B = self.B
        if cls == "rnd":                        # hardly compressible: makes the gzip'ed snapshot really big
            return x + "_" + "".join(self.rng.choice(_ALPH) for _ in range(self.rnd_len))
        if B >= BIG or cls == "tiny":
            return x
        if cls == "mid":
            return x + "m" * self.rng.randrange(B // 4, max(B // 2, B // 4 + 1))
        return x + "b" * (B * self.rng.choice([1, 1, 2, 3]) + self.rng.randrange(0, B))     # big: start/process/finish chunks

    def submit(self, i, cls="tiny", n=1):
        for _ in range(n):
            self.ev("submit", i, self.payload(cls))

    def exact_payload(self, prefix, k, idx, term):
        """a command value whose log entry, pickled the way `__sendAppendEntries` pickles an over-sized entry
        (`pickle.dumps((command, idx, term))`), is EXACTLY k x appendEntriesBatchSizeBytes long: the last piece ends
        on the boundary.  (1 x is impossible: the pickled entry is longer than the command, and only commands of at
        least one batch go the piecewise way.)  What really went over the wire is measured, see `_exact_on_wire`."""
        so = self.sim.so
        o = next(iter(self.sim.objs.values()))
        fid = o._methodToID[o._getFuncName("add")]
        B = self.B

        def plen(x):
            return len(so.pickle.dumps((so._bchr(0) + so.pickle.dumps((fid, (x,))), idx, term)))
        x = prefix
        for _ in range(24):
            d = k * B - plen(x)
            if d == 0:
                return x
            if len(x) + d < len(prefix):
                return None
            x = prefix + "x" * (len(x) - len(prefix) + d)
        return None

    def submit_exact(self, i, k):
        """submit on node i a command that becomes an exact k-batch entry if it is appended next by the present leader"""
        s = self.sim
        l = self.leader() or i
        self.seq += 1
        x = self.exact_payload("c%d_" % self.seq, k, s.last_index(l) + 1, s.objs[l]._getTerm()) if self.B < BIG else None
        self.ev("submit", i, x if x is not None else "c%d" % self.seq)

    def connect_all(self):
        for (a, b) in self.pairs:
            self.ev("connect", a, b)

    def links(self, group):
        g = set(group)
        return [(a, b) for (a, b) in self.pairs if (a in g) != (b in g)]

    def sever(self, a, b, mode):
        """mode: noticed | silent | first (only a notices) | second (only b notices)"""
        self.ev("cut", a, b)
        if mode in ("noticed", "first"):
            self.ev("notice", a, b)
        if mode in ("noticed", "second"):
            self.ev("notice", b, a)

    def isolate(self, group, mode):
        """cut every link between `group` and the rest; mode: noticed | silent | inside | outside"""
        g = set(group)
        for (a, b) in self.links(group):
            ins, out = (a, b) if a in g else (b, a)
            self.ev("cut", a, b)
            if mode in ("noticed", "inside"):
                self.ev("notice", ins, out)
            if mode in ("noticed", "outside"):
                self.ev("notice", out, ins)

    def kill(self, i):
        self.ev("kill", i)

    def restart(self, i, reconnect=True):
        """start the node again; its peers were never told about the crash (kill -9), the new process connects"""
        self.ev("restart", i)
        if reconnect:
            for (a, b) in self.pairs:
                if i in (a, b) and self.alive(a) and self.alive(b):
                    self.ev("connect", a, b)

    def side(self, group):
        """group plus the observers that still have a live link into it"""
        g = list(group)
        for o in self.O:
            if o not in g and any(frozenset((o, v)) in self.sim.alive for v in g if v in self.V):
                g.append(o)
        return g


# ------------------------------------------------------------------------------------------------
# directed histories: one per fault class
# ------------------------------------------------------------------------------------------------
def _minority_with(h, L, with_leader):
    """a group that is no majority of the voters: contains the leader or not"""
    n = len(h.V)
    size = max(1, (n - 1) // 2)
    others = [v for v in h.V if v != L]
    if with_leader:
        return [L] + others[:size - 1]
    return others[-size:]


def d_partition(h, var):
    """partition of a given shape; both sides live on and get submissions; optional late notice"""
    mode = var["mode"]
    h.connect_all()
    L = h.elect()
    if L is None:
        return
    h.submit(L, "mid", 3)
    h.run(4)
    grp = _minority_with(h, L, var["with_leader"])
    if h.O and var.get("obs_with_group"):
        grp = grp + h.O[:1]
    rest = [x for x in h.A if x not in grp]
    h.notes["lagging"] = grp[0]
    h.isolate(grp, mode)
    h.submit(L, "mid", 2)
    for g in (grp, rest):
        h.submit(g[0], "tiny", 1)
        h.submit(g[-1], "tiny", 1)
    for k in range(var["rounds"]):
        h.run(8, DT, grp)
        h.run(8, DT, rest)
        l2 = h.leader(rest)
        if l2 is not None and k % 2 == 0:
            h.submit(l2, "mid", 2)
        if k == var["rounds"] // 2 and var.get("late_notice"):
            g = set(grp)
            for (a, b) in h.links(grp):
                ins, out = (a, b) if a in g else (b, a)
                h.ev("notice", ins, out)
                h.ev("notice", out, ins)


def d_midburst(h, var):
    """a connection dies in the middle of a burst of batches (leader->follower) or of replies"""
    h.connect_all()
    L = h.elect()
    if L is None:
        return
    F = [v for v in h.A if v != L][var["victim"] % (len(h.A) - 1)]
    h.notes["lagging"] = F
    h.run(3)
    a, b = (L, F) if var["direction"] == "down" else (F, L)
    h.ev("hold", a, b)
    h.submit(L, "mid", 10)
    h.run(3)
    h.ev("deliver", a, b, var["k"])
    h.ev("release", a, b)
    pr = (L, F) if (L, F) in h.pairs else (F, L)
    h.sever(pr[0], pr[1], var["mode"])
    h.submit(L, "mid", 3)
    h.run(var["rounds"] * 4)
    if var.get("compact"):
        h.ev("compact", L)
        h.run(4)


def d_stale_leader(h, var):
    """the leader is cut off silently and keeps accepting submissions; the others elect and commit"""
    h.connect_all()
    L = h.elect()
    if L is None:
        return
    h.submit(L, "tiny", 2)
    h.run(4)
    grp = [L] + (h.O[:1] if (h.O and var.get("obs_with_leader")) else [])
    rest = [x for x in h.A if x not in grp]
    h.notes["lagging"] = L
    h.isolate(grp, var["mode"])
    h.submit(L, "mid", var["stale_cmds"])
    if h.O and var.get("obs_with_leader"):
        h.submit(h.O[0], "tiny", 1)
    h.run(2, DT, grp)
    restV = [v for v in rest if v in h.V]
    l2 = None
    for _ in range(120):
        h.run(1, DT, rest)
        h.run(1, DT, grp)
        l2 = h.leader(restV)
        if l2 is not None:
            break
    if l2 is not None:
        if var.get("pattern") and h.B < BIG:
            # s = small, B = over-sized (sent in start/process/finish pieces): an over-sized entry of the new leader
            # sits where the walk back over the old leader's stale tail passes, with more entries behind it
            for ch in var["pattern"]:
                h.submit(l2, "big" if ch == "B" else "tiny", 1)
                h.run(1, DT, rest)
        else:
            h.submit(l2, "mid", var["new_cmds"])
        h.run(6, DT, rest)
        if var.get("compact"):
            h.ev("compact", l2)
            h.run(3, DT, rest)
            h.submit(l2, "tiny", 2)
            h.run(3, DT, rest)
    h.submit(L, "tiny", 1)
    h.run(2, DT, grp)


def d_lag_snapshot(h, var):
    """a node is away while the leader commits and compacts past its position: catch-up needs a snapshot"""
    h.connect_all()
    L = h.elect()
    if L is None:
        return
    h.submit(L, "tiny", 2)
    h.run(4)
    if var["who"] == "observer" and h.O:
        F = h.O[-1]
    elif var["who"] == "leader" and len(h.V) >= 3:
        F = L
    else:
        F = [v for v in h.V if v != L][0]
        if len(h.V) == 2 and h.O:
            F = h.O[-1]                      # with two voters nothing commits without the other voter
    if var.get("own_compaction"):
        h.ev("compact", F)
        h.run(3)
    rest = [x for x in h.A if x != F]
    h.notes["lagging"] = F
    h.isolate([F], var["mode"])
    if F == L:
        h.submit(F, "mid", 3)                # uncommitted tail of the old leader: must be replaced by the snapshot
        h.run(2, DT, [F])
        L = h.elect([v for v in h.V if v != F])
        if L is None:
            return
    h.submit(L, "mid", var["m"])
    h.run(6, DT, rest)
    h.ev("compact", L)
    h.run(4, DT, rest)
    if var.get("others_compact"):
        for v in rest:
            if v != L:
                h.ev("compact", v)
        h.run(3, DT, rest)
    h.submit(L, "mid", var["after"])
    h.run(4, DT, rest)
    h.run(2, 0.25, [F])
    if var.get("torn"):
        # first reunion is cut in the middle of the chunk burst; the second one must start afresh
        pr = (L, F) if (L, F) in h.pairs else (F, L)
        h.ev("connect", pr[0], pr[1])
        h.ev("hold", F, L)
        h.ev("tick", L, 0.25)
        h.ev("deliver", L, F, var["torn"])
        h.ev("release", F, L)
        h.sever(pr[0], pr[1], var["torn_mode"])
        h.run(2, DT, rest)


def d_uneven(h, var):
    """uneven ticks per node and messages waiting in their channels while terms change"""
    rng = h.rng
    h.connect_all()
    L = h.elect()
    if L is None:
        return
    h.submit(L, "mid", 2)
    chans = [(a, b) for (a, b) in h.pairs] + [(b, a) for (a, b) in h.pairs]
    for rnd in range(var["rounds"]):
        for c in list(h.hold):
            if rng.random() < 0.5:
                h.ev("release", c[0], c[1])
        for _ in range(var["held"]):
            c = rng.choice(chans)
            if c not in h.hold:
                h.ev("hold", c[0], c[1])
        for _ in range(rng.randrange(4, 12)):
            i = rng.choice(h.A)
            h.ev("tick", i, rng.choice(DTS))
            if rng.random() < 0.6:
                h.deliver_recorded()
        l = h.leader()
        tgt = l if (l is not None and rng.random() < 0.6) else rng.choice(h.A)
        h.submit(tgt, rng.choice(["tiny", "mid"]), rng.randrange(1, 4))
        if rng.random() < 0.3:
            h.ev("compact", rng.choice(h.A))


def d_compactions(h, var):
    """forced compaction of every node in turn, automatic compaction everywhere, one node flapping"""
    rng = h.rng
    h.connect_all()
    L = h.elect()
    if L is None:
        return
    F = [x for x in h.A if x != L][var["victim"] % (len(h.A) - 1)]
    h.notes["lagging"] = F
    for rnd in range(var["rounds"]):
        l = h.leader() or L
        h.submit(l, "mid", rng.randrange(2, 6))
        h.run(rng.randrange(1, 4))
        h.ev("compact", h.A[rnd % len(h.A)])
        h.run(rng.randrange(1, 3))
        if rnd % 3 == 1:
            for (a, b) in h.links([F]):
                h.sever(a, b, rng.choice(["noticed", "silent", "first", "second"]))
        if rnd % 3 == 0 and rnd:
            for (a, b) in h.links([F]):
                h.ev("connect", a, b)
    h.submit(F, "tiny", 1)


def d_term_inflation(h, var):
    """a voter silently cut off keeps starting elections; its term runs far ahead"""
    h.connect_all()
    L = h.elect()
    if L is None:
        return
    h.submit(L, "tiny", 2)
    h.run(3)
    F = L if var["who"] == "leader" else [v for v in h.V if v != L][0]
    h.notes["lagging"] = F
    rest = [x for x in h.A if x != F]
    h.isolate([F], "silent" if var["mode"] == "silent" else "outside")
    for k in range(var["rounds"]):
        h.ev("tick", F, 2.0)
        h.run(4, DT, rest)
        l2 = h.leader([v for v in rest if v in h.V])
        if l2 is not None:
            h.submit(l2, "tiny", 1)
    if var.get("late_notice"):
        for (a, b) in h.links([F]):
            h.ev("notice", a, b)
            h.ev("notice", b, a)
        h.run(2)


def d_old_long_vs_new_short(h, var):
    """the only reachable majority after the (partial) heal is a node with a LONGER log of an OLDER term and a node
    with a SHORTER log of a NEWER term (orient = old_long), or the mirror image (orient = old_short); nobody is
    leader any more (leaderFallbackTimeout) and terms have grown while everybody was alone.  The up-to-date rule of
    the vote decides whether these two can ever elect anybody."""
    h.connect_all()
    L = h.elect()
    if L is None:
        return
    h.submit(L, "tiny", 3)
    h.run(6)
    rest = [x for x in h.A if x != L]
    restV = [v for v in rest if v in h.V]
    # every message from and to L is lost; the connections stay up
    h.isolate([L], "silent")
    n_old, n_new = (3, 1) if var["orient"] == "old_long" else (1, 3)
    h.submit(L, "tiny", n_old)                      # unreplicated tail of the old term
    h.run(3, DT, [L])
    N = None
    for _ in range(200):
        h.run(1, DT, rest)
        if var.get("old_ticks", True):
            h.run(1, DT, [L])
        N = h.leader(restV)
        if N is not None:
            break
    if N is None:
        return
    h.run(3, DT, rest)                              # the no-op of the newer term commits
    h.submit(N, "tiny", n_new)
    h.run(8, DT, rest)
    keep = [L, N]
    more = [v for v in restV if v != N]
    j = var.get("third", 0)
    while 2 * len(keep) <= len(h.V):                # fill up to a bare majority
        keep.append(more.pop(j % len(more)))
    keepO = h.O[:1] if (h.O and var.get("keep_obs")) else []
    h.notes["down"] = [x for x in h.A if x not in keep and x not in keepO]
    h.notes["lagging"] = L
    # now nobody reaches anybody: stale leaders fall back, everybody runs elections alone, terms grow
    for (a, b) in h.pairs:
        if a != L and b != L:
            h.sever(a, b, var["mode2"])
    h.run(var["alone"], var["alone_dt"])            # every link is dead: nothing is delivered, everybody ticks


def _split_phase(h, A, B, mode, rounds, steps, dt, rng=None):
    """an even cluster falls into two halves that cannot talk (silent: messages are lost, the connections stay up)
    WHILE ELECTIONS RUN; both halves tick in lock-step and get different commands.  Returns nothing; records for
    coverage which half sent `request_vote` during the split and who claimed leadership with half of the voters."""
    s = h.sim
    inA = set(A)
    cross = [(a, b) for (a, b) in h.pairs if (a in inA) != (b in inA)]
    for (a, b) in cross:
        h.sever(a, b, mode)
    n0 = len(s.sent)
    claimed = set()
    for rnd in range(rounds):
        h.run(steps, dt)                        # cross links are dead: each half lives alone, same clock pace
        for side in (A, B):
            ls = [v for v in side if v in h.V and s.objs[v]._isLeader()]
            claimed.update((v, s.objs[v]._getTerm()) for v in ls)
            tgt = ls[0] if ls else side[rnd % len(side)]
            h.submit(tgt, "tiny", 1 + rnd % 2)
        h.run(2, dt)
    voted = set(a for (a, b, m) in s.sent[n0:] if m.get("type") == "request_vote")
    rec = h.notes.setdefault("split", {"both_halves_voted": 0, "phases": 0, "leader_with_half": 0, "same_term_leaders": 0})
    rec["phases"] += 1
    rec["both_halves_voted"] += 1 if (voted & inA and voted & set(B)) else 0
    rec["leader_with_half"] += len(claimed)
    termsA = set(t for (v, t) in claimed if v in inA)
    rec["same_term_leaders"] += 1 if termsA & set(t for (v, t) in claimed if v not in inA) else 0


def d_exact_multiple_entry(h, var):
    """over-sized commands whose pickled log entry is exactly 2, 3, 4 batches long: replicated at once, replicated
    to a follower that was away (catch-up), and - through the history parameters exact_post / exact_early - as the
    commands of the quiet period"""
    h.connect_all()
    L = h.elect()
    if L is None:
        return
    F = [x for x in h.A if x != L][var.get("which", 0) % (len(h.A) - 1)]
    h.notes["lagging"] = F
    h.run(3)
    for k in var["ks"]:
        h.submit_exact(L, k)
        h.run(3)
    rest = [x for x in h.A if x != F]
    h.isolate([F], var["mode"])
    for k in var["ks_away"]:
        h.submit_exact(L, k)
        h.run(3, DT, rest)
    h.submit(L, "tiny", 1)
    h.run(3, DT, rest)
    if var.get("compact"):
        h.ev("compact", L)
        h.run(3, DT, rest)
        h.submit_exact(L, var["ks"][0])
        h.run(3, DT, rest)


def d_slow_snapshot(h, var):
    """a node (voter or read-only) lags behind the leader's compacted prefix, the state is big and hardly
    compressible, logCompactionBatchSize tiny: the snapshot is MANY chunks, and the quiet period runs with a
    bounded bandwidth (`link_rate` messages per link and step), so the transfer takes several election timeouts.
    Nothing is lost and ticks are timely; the chunks themselves are the leader's sign of life."""
    h.rnd_len = var.get("rnd_len", 96)
    h.connect_all()
    L = h.elect()
    if L is None:
        return
    F = h.O[-1] if (var["who"] == "observer" and h.O) else [v for v in h.V if v != L][var.get("which", 0) % (len(h.V) - 1)]
    h.notes["lagging"] = F
    rest = [x for x in h.A if x != F]
    h.submit(L, "tiny", 2)
    h.run(4)
    h.isolate([F], var["mode"])
    left = var["m"]
    while left > 0:
        h.submit(L, "rnd", min(8, left))
        left -= 8
        h.run(2, DT, rest)
    h.run(4, DT, rest)
    h.ev("compact", L)
    h.run(4, DT, rest)
    if var.get("others_compact"):
        for v in rest:
            if v != L:
                h.ev("compact", v)
        h.run(3, DT, rest)
    h.submit(L, "tiny", var.get("after", 2))
    h.run(3, DT, rest)
    if var.get("pending") and h.p.get("dump_checker"):
        # the leader starts another dump right before the lagging node returns and takes `pending` ticks to finish it:
        # all that time the node gets nothing but `serialized: None` (many per tick: the send loop spins)
        h.submit(L, "tiny", 2)
        h.run(2, DT, rest)
        h.ev("pend", L, var["pending"])
        h.ev("compact", L)
        h.run(1, DT, rest)


def d_snapshot_then_leader_down(h, var):
    """a voter F catches up by SNAPSHOT while everybody is there; then the leader replicates a few more entries to F
    only and goes away for good (with 5 voters: another one too): the rest is a bare majority in which F, the node
    that installed the snapshot, has the most complete log and must win.  Whatever F learnt about the member set
    from the snapshot decides whether it can."""
    h.connect_all()
    L = h.elect()
    if L is None:
        return
    others = [v for v in h.V if v != L]
    F = others[var.get("which", 0) % len(others)]
    rest = [x for x in h.A if x != F]
    h.submit(L, "mid", 2)
    h.run(4)
    h.isolate([F], var["mode"])
    h.submit(L, "mid", var["m"])
    h.run(6, DT, rest)
    h.ev("compact", L)
    h.run(4, DT, rest)
    for (a, b) in h.links([F]):
        h.ev("connect", a, b)
    h.run(var.get("catchup", 16))                    # F installs the snapshot and follows again
    if var.get("restart_snap") and h.p.get("journal"):
        h.kill(F)                                    # ... and comes back from its own dump file + journal
        h.run(2)
        h.restart(F)
        h.run(6)
    if h.leader() != L:
        return
    for v in others:                                 # the leader reaches F only
        if v != F:
            h.sever(*((L, v) if (L, v) in h.pairs else (v, L)), mode="noticed")
    h.submit(L, "tiny", var.get("tail", 2))
    h.run(3, DT, [L, F])
    down = [L]
    spare = [v for v in others if v != F]
    while len(down) < (len(h.V) - 1) // 2:
        down.append(spare.pop())
    h.notes["down"] = down
    h.notes["lagging"] = F
    h.notes["snapshot_node"] = F


def d_even_split(h, var):
    """EVEN number of voters (4, 6) split exactly in half while elections run: at start-up before anybody leads
    (`startup`), or after a normal start when the leader's half and the other half lose each other (`later`); the
    cut is silent or noticed; observers hang on either half.  With half of the votes nobody may win; different
    commands are offered to both halves; then everything heals."""
    n = len(h.V)
    A = h.V[:n // 2] + [o for k, o in enumerate(h.O) if k % 2 == var.get("obs_side", 0)]
    B = [x for x in h.A if x not in A]
    h.connect_all()
    if var["variant"] == "later":
        L = h.elect()
        if L is None:
            return
        h.submit(L, "mid", 3)
        h.run(5)
        if var.get("leader_half"):                      # which half the leader falls into
            x = [v for v in h.V if v != L]
            Av = [L] + x[:n // 2 - 1]
            A = Av + [o for o in A if o in h.O]
            B = [y for y in h.A if y not in A]
    h.notes["lagging"] = B[0]
    _split_phase(h, A, B, var["mode"], var["rounds"], var["steps"], var.get("dt", DT))
    if var.get("second"):                               # heal for a moment, split along another line
        for (a, b) in h.pairs:
            h.ev("connect", a, b)
        h.run(var["second"])
        A2 = h.V[::2] + [o for o in A if o in h.O]
        B2 = [y for y in h.A if y not in A2]
        _split_phase(h, A2, B2, var["mode"], max(1, var["rounds"] // 2), var["steps"], var.get("dt", DT))


def d_long_walkback(h, var):
    """a former leader comes back with an uncommitted tail of an OLDER term while the only other reachable voter(s)
    hold a LONGER log of a newer term; the remaining voters are down for good, so the returning node is NEEDED for the
    majority.  The new leader starts at its own log end and steps back one index per round trip over the whole
    stale tail: for longer than leaderFallbackTimeout it hears nothing but rejections from the node it depends on."""
    h.connect_all()
    L = h.elect()
    if L is None:
        return
    h.submit(L, "tiny", 2)
    h.run(4)
    rest = [x for x in h.A if x != L]
    restV = [v for v in rest if v in h.V]
    h.notes["lagging"] = L
    h.isolate([L], var["mode"])
    h.submit(L, "tiny", var["tail"])                 # accepted at once (before the fallback), never replicated
    h.run(1, DT, [L])
    N = None
    for _ in range(200):
        h.run(1, DT, rest)
        h.run(1, DT, [L])
        N = h.leader(restV)
        if N is not None:
            break
    if N is None:
        return
    h.run(2, DT, rest)
    h.submit(N, "tiny", var["tail"] + var.get("more", 3))     # the new log is longer: the walk starts at the top
    h.run(6, DT, rest)
    if var.get("reelect", True):
        # leadership on the majority side is lost and won again AFTER the log grew: the new leader's nextIndex for
        # the absent node starts at its own (long) log end, whatever it believed about the link before
        T = h.sim.conf.get("leaderFallbackTimeout", 30.0)
        inner = [(a, b) for (a, b) in h.pairs if a in restV and b in restV]
        for (a, b) in inner:
            h.sever(a, b, "noticed")
        h.run(int(T / DT) + 6, DT, rest)
        for (a, b) in inner:
            h.ev("connect", a, b)
        N = h.elect(restV, max_steps=160)
        if N is None:
            return
        h.run(3, DT, rest)
    keep = [L, N]
    more = [v for v in restV if v != N]
    while 2 * len(keep) <= len(h.V):
        keep.append(more.pop(0))
    keepO = h.O[:1]
    h.notes["down"] = [x for x in h.A if x not in keep and x not in keepO]
    h.run(var.get("before_heal", 2), DT, rest)


def d_observer_restart(h, var):
    """a READ-ONLY node loses everything (it has neither journal nor dump) and is started again: fully caught up
    and confirmed / lagging / in the middle of a multi-chunk snapshot transfer; the leader stays, or leadership
    changes around the restart.  Observers never vote and are never counted, so this is always safe."""
    h.connect_all()
    L = h.elect()
    if L is None or not h.O:
        return
    O = h.O[var.get("which", 0) % len(h.O)]
    h.notes["lagging"] = O
    h.submit(L, "mid", 4)
    h.run(6)
    rest = [x for x in h.A if x != O]
    when = var["when"]
    if when in ("lagging", "snapshot"):
        h.isolate([O], var["mode"])
        h.submit(L, "mid", var["m"])
        h.run(6, DT, rest)
        if when == "snapshot" or var.get("compact"):
            h.ev("compact", L)
            h.run(4, DT, rest)
    if when == "snapshot":
        pr = (O, L)
        h.ev("connect", pr[0], pr[1])
        h.ev("tick", L, 0.25)                     # probe at the leader's log end ...
        h.ev("deliver", L, O, 50)
        h.ev("deliver", O, L, 50)                 # ... the rejection hint points below the compacted prefix
        h.ev("hold", O, L)
        h.ev("tick", L, 0.25)                     # the whole chunk burst is in the channel now
        h.ev("deliver", L, O, var["chunks"])      # ... part of it arrives
        h.ev("release", O, L)
    h.kill(O)
    if var.get("k"):
        h.submit(L, "mid", var["k"])
        h.run(4, DT, rest)
        if var.get("compact_while_down"):
            h.ev("compact", L)
            h.run(3, DT, rest)
    change = var.get("change", "none")
    if change == "before":                        # leadership moves while the observer is dead
        h.isolate([L], "silent")
        h.elect([v for v in h.V if v != L], max_steps=120)
    h.restart(O, reconnect=var.get("reconnect", True))
    h.run(var.get("after", 2))
    if change == "after":                         # ... or right after it came back
        h.isolate([L], var.get("mode", "silent"))
        l2 = h.elect([v for v in h.V if v != L], max_steps=120)
        if l2 is not None:
            h.submit(l2, "mid", 2)
            h.run(4, DT, [x for x in h.A if x != L])
    elif change == "partition":
        grp = _minority_with(h, L, True)
        h.isolate(grp, var.get("mode", "noticed"))
        h.run(30, DT)
    if var.get("twice"):
        h.kill(O)
        h.run(2)
        h.restart(O)
        h.run(2)


def d_voter_restart_journal(h, var):
    """voters with journal + dump file (the C06 setting) are killed and started again: they keep term, vote and log,
    so this may happen at any time and together with any other fault"""
    rng = h.rng
    h.connect_all()
    L = h.elect()
    if L is None:
        return
    h.submit(L, "mid", 3)
    h.run(5)
    for rnd in range(var["rounds"]):
        l = h.leader()
        who = var["who"]
        X = l if (who == "leader" and l is not None) else rng.choice([v for v in h.V if v != l])
        h.notes["lagging"] = X
        if var.get("compact") and rnd == 0:
            h.ev("compact", X)
            h.run(3)
        if l is not None:
            h.submit(l, "mid", rng.randrange(1, 4))
            h.run(rng.randrange(0, 3))
        h.kill(X)
        others = [x for x in h.A if x != X]
        l2 = h.elect([v for v in h.V if v != X], max_steps=100) if 2 * (len(h.V) - 1) > len(h.V) else None
        if l2 is not None:
            h.submit(l2, "mid", var["k"])
            h.run(5, DT, others)
            if var.get("compact_while_down"):
                h.ev("compact", l2)
                h.run(3, DT, others)
        else:
            h.run(var.get("away", 8), DT, others)
        h.restart(X, reconnect=var.get("reconnect", True))
        h.run(rng.randrange(1, 6))
        if var.get("partition") and rnd == 0:
            l3 = h.leader()
            if l3 is not None:
                h.isolate([l3], rng.choice(["silent", "noticed"]))
                h.run(20, DT)


def d_voter_restart_leader_stays(h, var):
    """ONE follower F loses its volatile state (default conf: no journal, no dump -> comes back empty; or dump file
    only, older than its last confirmed entry) at a moment when it has confirmed entries to the current leader.
    The leader stays connected to the other voters the whole time, F is reconnected at once, and from the restart
    on NO further fault happens: no election can succeed, nothing committed can be lost through what F forgot."""
    h.connect_all()
    L = h.elect()
    if L is None:
        return
    F = [v for v in h.V if v != L][var.get("which", 0) % (len(h.V) - 1)]
    h.notes["lagging"] = F
    rest = [x for x in h.A if x != F]
    h.submit(L, "mid", 3)
    h.run(6)
    if var["variant"] == "dump_only":
        h.ev("compact", F)                        # F's dump file is written here ...
        h.run(3)
        h.submit(L, "mid", var.get("beyond", 3))  # ... and these are confirmed by F afterwards, in memory only
        h.run(6)
    h.kill(F)
    if var["k"]:
        h.submit(L, "mid", var["k"])
    h.run(3, DT, rest)
    if var.get("compact"):
        h.ev("compact", L)
        h.run(3, DT, rest)
    h.restart(F, reconnect=True)
    h.run(var.get("after", 0))


def _deliver_recorded(h):
    """deliver everything that is not held, as explicit events (so that a replay does the same)"""
    s = h.sim
    for c in sorted(s.chan.keys()):
        if c not in h.hold and s.chan[c]:
            h.ev("deliver", c[0], c[1], len(s.chan[c]))


Hist.deliver_recorded = _deliver_recorded


def d_random(h, var):
    """seeded random history with phases"""
    rng = h.rng
    s = h.sim
    n_ev = var["n"]
    for (a, b) in h.pairs:
        if rng.random() < 0.92:
            h.ev("connect", a, b)
    if rng.random() < 0.7:
        h.elect(max_steps=80)
    w_net = rng.choice([0.03, 0.06, 0.12])
    w_submit = rng.choice([0.08, 0.15, 0.25])
    w_compact = rng.choice([0.0, 0.02, 0.05, 0.1])
    w_hold = rng.choice([0.0, 0.03, 0.08])
    w_tick = rng.choice([0.1, 0.2, 0.3])
    w_part = rng.choice([0.02, 0.05])
    w_restart = rng.choice([0.0, 0.02, 0.04]) if (h.O or h.p.get("journal")) else 0.0
    chans = [(a, b) for (a, b) in h.pairs] + [(b, a) for (a, b) in h.pairs]
    count = 0
    split_at = rng.randrange(0, max(1, n_ev)) if (var.get("even_split") and len(h.V) % 2 == 0 and len(h.V) >= 4) else None
    while count < n_ev:
        if count == split_at:
            vs = list(h.V)
            rng.shuffle(vs)
            A = vs[:len(vs) // 2] + [o for o in h.O if rng.random() < 0.5]
            B = [x for x in h.A if x not in A]
            l = h.leader()
            if l is not None and rng.random() < 0.5:
                h.isolate([l], "silent")                # the leader is lost first: elections run during the split
            _split_phase(h, A, B, rng.choice(["silent", "silent", "noticed"]), rng.randrange(2, 6), rng.choice([8, 16, 24]),
                         rng.choice([DT, DT, 0.125]))
            if rng.random() < 0.5:
                for (a, b) in h.pairs:
                    h.ev("connect", a, b)
        count += 1
        r = rng.random()
        if r < w_net:
            a, b = rng.choice(h.pairs)
            k = rng.randrange(7)
            if k == 0:
                h.ev("cut", a, b)
            elif k == 1:
                h.ev("notice", a, b)
            elif k == 2:
                h.ev("notice", b, a)
            elif k == 3:
                h.sever(a, b, "noticed")
            else:
                h.ev("connect", a, b)
            continue
        r -= w_net
        if r < w_part:
            k = rng.randrange(4)
            l = h.leader()
            if k == 0 and l is not None:
                h.isolate([l], rng.choice(["silent", "silent", "noticed", "inside", "outside"]))
            elif k == 1:
                grp = rng.sample(h.A, rng.randrange(1, max(2, len(h.A) // 2 + 1)))
                h.isolate(grp, rng.choice(["silent", "noticed", "inside", "outside"]))
            elif k == 2:
                # lag: somebody away while the leader commits and compacts
                if l is not None:
                    f = rng.choice([x for x in h.A if x != l])
                    h.notes["lagging"] = f
                    h.isolate([f], rng.choice(["silent", "noticed", "inside", "outside"]))
                    h.submit(l, "mid", rng.randrange(4, 10))
                    rest = [x for x in h.A if x != f]
                    h.run(5, DT, rest)
                    h.ev("compact", l)
                    h.run(3, DT, rest)
            else:
                for (a, b) in h.pairs:
                    if rng.random() < 0.8:
                        h.ev("connect", a, b)
            continue
        r -= w_part
        if r < w_submit:
            l = h.leader()
            v = l if (l is not None and rng.random() < 0.6) else rng.choice(h.A)
            if var.get("exact") and h.B < BIG and rng.random() < 0.3:
                h.submit_exact(v, rng.choice([2, 2, 3, 4]))
                continue
            h.submit(v, rng.choice(["tiny", "mid", "mid", "big"]), 1 if rng.random() < 0.5 else rng.randrange(2, 7))
            continue
        r -= w_submit
        if r < w_compact:
            l = h.leader()
            h.ev("compact", l if (l is not None and rng.random() < 0.5) else rng.choice(h.A))
            continue
        r -= w_compact
        if r < w_restart:
            # a read-only node may lose everything at any time; a voter only when it has a journal (and a dump)
            cands = list(h.O) + (list(h.V) if h.p.get("journal") else [])
            if cands:
                x = rng.choice(cands)
                h.kill(x)
                h.run(rng.choice([0, 0, 1, 4, 12]))
                h.restart(x, reconnect=rng.random() < 0.7)
            continue
        r -= w_restart
        if r < w_hold:
            if h.hold and rng.random() < 0.5:
                c = rng.choice(sorted(h.hold))
                h.ev("release", c[0], c[1])
            else:
                c = rng.choice(chans)
                h.ev("hold", c[0], c[1])
            continue
        r -= w_hold
        if r < w_tick:
            h.ev("tick", rng.choice(h.A), rng.choice(DTS))
            continue
        r -= w_tick
        if r < 0.12:
            ch = [c for c in sorted(s.chan) if s.chan[c]]
            if ch:
                c = rng.choice(ch)
                h.ev("deliver", c[0], c[1], rng.randrange(1, 5))
                if rng.random() < 0.25:
                    pr = c if c in h.pairs else (c[1], c[0])
                    h.sever(pr[0], pr[1], rng.choice(["silent", "noticed", "first", "second"]))
                continue
        # default: the whole cluster (or the part around the leader) lives for a few steps
        h.run(rng.choice([1, 1, 2, 4, 8]), rng.choice([DT, DT, DT, 0.125, 0.03125]))


GEN = {"partition": d_partition, "midburst": d_midburst, "stale_leader": d_stale_leader,
       "lag_snapshot": d_lag_snapshot, "uneven": d_uneven, "compactions": d_compactions,
       "term_inflation": d_term_inflation, "random": d_random, "old_long_vs_new_short": d_old_long_vs_new_short,
       "even_split": d_even_split, "slow_snapshot": d_slow_snapshot, "exact_multiple_entry": d_exact_multiple_entry,
       "snapshot_then_leader_down": d_snapshot_then_leader_down, "long_walkback": d_long_walkback, "observer_restart": d_observer_restart, "voter_restart_journal": d_voter_restart_journal,
       "voter_restart_leader_stays": d_voter_restart_leader_stays}


# ------------------------------------------------------------------------------------------------
# heal, quiet period, monitors
# ------------------------------------------------------------------------------------------------
def _leader_view(h):
    """(leader, None) if exactly one connected voter reports leader and every connected node names it, else
    (None, why).  Nodes that the heal left unreachable (h.down) are not looked at at all."""
    s = h.sim
    ls = [v for v in h.CV if s.objs[v]._isLeader()]
    if len(ls) != 1:
        return None, "%d of the connected voters %s report leader: %s" % (len(ls), h.CV, ls)
    for i in h.C:
        ptr = s.objs[i]._getLeader()
        pid = getattr(ptr, "id", ptr)
        if pid != ls[0]:
            return None, "leader is %s but %s names %r" % (ls[0], i, pid)
    for o in h.CO:
        if s.objs[o]._isLeader():
            return None, "read-only node %s reports leader" % o
    return ls[0], None


def _behind(h, L):
    s = h.sim
    la = s.objs[L].raftLastApplied
    out = []
    for i in h.C:
        x = s.objs[i].raftLastApplied
        if x != la:
            out.append((i, x, la))
    return out


def _differ(h, L, among=None):
    s = h.sim
    ref = list(s.objs[L].log)
    for i in (among if among is not None else h.C):
        if list(s.objs[i].log) != ref:
            return i, list(s.objs[i].log), ref
    return None


def _bucket(t, unit):
    x = t / unit
    for b in (1, 2, 4, 8, 16, 24, 32, 40):
        if x <= b:
            return "<=%d" % b
    return ">40"


def scenario(repo, p, workdir=None):
    """run one history + heal + quiet period; returns {"viol": [...], "events": [...], "cov": {...}}"""
    h = Hist(repo, p, workdir)
    s = h.sim
    unit = s.conf.get("raftMaxTimeout", 1.5)
    if p.get("events") is not None:
        for e in p["events"]:
            h.events.append(list(e))
            h.apply(e)
    else:
        GEN[p["kind"]](h, p.get("var") or {})
    for i in h.A:                      # (a shrunk history may have lost a restart: nobody stays dead into the heal)
        if i not in s.objs:
            h.apply(["restart", i])
    cov = {"kind": p["kind"], "nv": p["nv"], "no": p["no"], "fault_events": len(h.events)}

    # ---- state at heal time (observation only) ----
    lead0 = [v for v in h.V if s.objs[v]._isLeader()]
    terms = dict((i, s.objs[i]._getTerm()) for i in h.A)
    tmax = max(terms[v] for v in h.V)
    cov["leaders_at_heal"] = len(lead0)
    cov["stale_leader_at_heal"] = any(terms[l] < tmax for l in lead0)
    cov["term_spread"] = tmax - min(terms[v] for v in h.V)
    la0 = [s.objs[i].raftLastApplied for i in h.A]
    cov["applied_spread_at_heal"] = max(la0) - min(la0)
    cov["broken_links_at_heal"] = sum(1 for (a, b) in h.pairs if frozenset((a, b)) not in s.alive
                                      or (a, b) not in s.up or (b, a) not in s.up)
    cov["unnoticed_at_heal"] = sum(1 for (a, b) in h.pairs if frozenset((a, b)) not in s.alive
                                   and ((a, b) in s.up or (b, a) in s.up))
    cov["held_at_heal"] = sum(len(s.chan[c]) for c in h.hold)
    pre_cmds = sum(1 for e in h.events if e[0] == "submit")
    cov["submissions"] = pre_cmds
    cov["compactions"] = sum(1 for e in h.events if e[0] == "compact")
    cov["spin_sends_before_heal"] = h.spins
    execs0 = dict((i, len(s.execs[i])) for i in h.A)
    log0 = dict((i, len(s.objs[i].log)) for i in h.A)

    # ---- heal: faults cease for a majority of the voters; the nodes in `down` stay unreachable for good ----
    h.down = _resolve_down(h, p)
    h.C = [x for x in h.A if x not in h.down]
    h.CV = [x for x in h.V if x not in h.down]
    h.CO = [x for x in h.O if x not in h.down]
    assert 2 * len(h.CV) > len(h.V), "the connected voters must be a majority"
    down_mode = p.get("down_mode", "noticed")
    cov["down_voters"] = len(h.V) - len(h.CV)
    cov["down_observers"] = len(h.O) - len(h.CO)
    cov["down_mode"] = down_mode if h.down else "none"
    cov["down_ticks"] = bool(h.down and p.get("down_ticks", True))
    cov["down_leader_at_heal"] = any(x in lead0 for x in h.down)
    # (classification for coverage only; the log end is read through the Sim helper, no oracle uses it)
    ends = dict((i, s.log_of(i)[-1][:2]) for i in h.CV)
    cov["longer_older_vs_shorter_newer"] = any(ends[a][0] > ends[b][0] and ends[a][1] < ends[b][1]
                                               for a in h.CV for b in h.CV)
    cov["shorter_older_vs_longer_newer"] = any(ends[a][0] < ends[b][0] and ends[a][1] < ends[b][1]
                                               for a in h.CV for b in h.CV)
    h.hold.clear()
    n_sent0 = len(s.sent)
    t_heal = dict(s.now)
    dset = set(h.down)
    for (a, b) in h.pairs:
        if a in dset and b in dset:
            continue
        if a in dset or b in dset:
            if down_mode == "noticed":
                s.disconnect(a, b)
            else:
                if p.get("down_fresh", True):
                    s.connect(a, b)      # both ends believe in the link ...
                s.cut(a, b)              # ... which never carries anything again; nobody is told
            continue
        broken = frozenset((a, b)) not in s.alive or (a, b) not in s.up or (b, a) not in s.up
        if broken or p.get("heal_all", True):
            s.connect(a, b)
    ticking = h.C + (h.down if p.get("down_ticks", True) else [])

    # ---- quiet period ----
    max_steps = int(p.get("quiet", QUIET) * unit / DT)
    tail_steps = int(TAIL * unit / DT)
    stable_steps = int(STABLE * unit / DT)
    early_cid = early_node = early_step = None
    post_cid = post_node = post_step = None
    EARLY, POST = "early", "post"
    t_leader = t_sync = t_ack = None
    first_ok = stable_since = stable_L = None
    step = changes = 0
    link_rate = p.get("link_rate")
    xfer = {}
    term_hist = collections.deque(maxlen=tail_steps + 1)
    while step < max_steps:
        for i in ticking:
            s.tick(i, DT)
        if link_rate:
            h.deliver_limited(link_rate, step, xfer)
        else:
            h.deliver_all()
        step += 1
        term_hist.append([s.objs[i]._getTerm() for i in h.C])
        L, why = _leader_view(h)
        if L is None or L != stable_L:
            if L is not None:
                changes += 1
            stable_L, stable_since = L, (step if L is not None else None)
        if L is not None and early_cid is None:
            # first moment at which one leader is reported and named by everybody (may still be deposed)
            early_node = _post_target(h, p, L, "early")
            if p.get("exact_early") and h.B < BIG:
                EARLY = h.exact_payload("early_", p["exact_early"], s.last_index(L) + 1, s.objs[L]._getTerm()) or EARLY
            early_cid = s.submit(early_node, EARLY)
            early_step = step
        if post_cid is None and ((stable_since is not None and step - stable_since >= stable_steps)
                                 or step >= max_steps // 2):
            # the same leader for more than one full election timeout: nobody is about to start an election
            t_leader = (stable_since if stable_since is not None else step) * DT
            post_node = _post_target(h, p, L, "post")
            if p.get("exact_post") and h.B < BIG and L is not None:
                POST = h.exact_payload("post_", p["exact_post"], s.last_index(L) + 1, s.objs[L]._getTerm()) or POST
            post_cid = s.submit(post_node, POST)
            post_step = step
            continue
        if L is None or post_cid is None:
            first_ok = None
            continue
        acked = [(res, err) for (node, cid, res, err) in s.callbacks if cid == post_cid]
        ok = bool(acked) and acked[0][1] == 0 and not _behind(h, L) and _differ(h, L) is None
        if acked and t_ack is None:
            t_ack = (step - post_step) * DT
        if ok:
            if t_sync is None:
                t_sync = step * DT
            if first_ok is None:
                first_ok = step
            if step - first_ok >= tail_steps:
                break
        else:
            first_ok = None

    # ---- monitors at the end of the quiet period ----
    viol = []
    L, why = _leader_view(h)
    waited = "%.2f s = %.1f raftMaxTimeout of quiet time" % (step * DT, step * DT / unit)
    if h.down:
        waited += " (unreachable since the heal, %s: %s)" % (down_mode, ",".join(h.down))
    if L is None:
        viol.append({"signature": "convergence:no-single-leader", "what": "%s after %s" % (why, waited)})
    elif stable_since is not None and step - stable_since < min(tail_steps, step - 1):
        # one leader at this instant, but it is not the one of TAIL election timeouts ago: leadership keeps changing
        viol.append({"signature": "convergence:no-single-leader",
                     "what": "leadership does not settle: %s is named by everybody only since %.2f s, %d leader changes in %s"
                             % (L, (step - stable_since) * DT, changes, waited)})
    # "one leader within a bounded number of election timeouts": once that is so, terms stop growing
    if len(term_hist) > tail_steps:
        grew = [(i, a, b) for i, a, b in zip(h.C, term_hist[0], term_hist[-1]) if b > a]
        if grew:
            viol.append({"signature": "convergence:terms-keep-growing",
                         "what": "elections do not stop: during the last %.2f s the term of %s went %d -> %d (%d connected nodes "
                                 "raised their term) after %s" % (tail_steps * DT, grew[0][0], grew[0][1], grew[0][2], len(grew), waited)})
    acked = [(res, err) for (node, cid, res, err) in s.callbacks if cid == post_cid]
    if post_cid is not None and not (acked and acked[0][1] == 0):
        detail = ("error-%s" % FAIL_NAMES.get(acked[0][1], acked[0][1])) if acked else \
            ("skipped-by-snapshot-on-submitter" if _skipped(h, post_node, POST) else
             ("submitter-stays-behind" if POST not in s.objs[post_node].log and L is not None and POST in s.objs[L].log
              else "no-callback"))
        viol.append({"signature": "convergence:post-heal-command-not-acknowledged:" + detail,
                     "what": "command submitted on %s %.2f s after the heal (same single leader for %.2f s before): %s after %s"
                             % (post_node, (post_step or 0) * DT, STABLE * unit,
                                ("callback fired with err=%r" % (acked[0][1],)) if acked else "no callback", waited)})
    # the command submitted at the first sight of a single leader may be answered with an error while leadership
    # is still settling (LEADER_CHANGED etc. leave the outcome open), but no message is lost after the heal: if
    # it was applied, its submitter must have been told something, and SUCCESS unless leadership changed under it
    e_acked = [(res, err) for (node, cid, res, err) in s.callbacks if cid == early_cid]
    refL = L if L is not None else max(h.CV, key=lambda v: (s.objs[v].raftLastApplied, v))
    early_applied = early_cid is not None and EARLY in s.objs[refL].log
    if early_applied and not e_acked:
        skipped = _skipped(h, early_node, EARLY)
        viol.append({"signature": "convergence:post-heal-command-not-acknowledged:"
                                  + ("skipped-by-snapshot-on-submitter" if skipped else
                                     ("submitter-stays-behind" if EARLY not in s.objs[early_node].log
                                      else "applied-without-callback")),
                     "what": "command submitted on %s %.2f s after the heal, as soon as one leader was named by every node, is in the "
                             "common state of all replicas but its submitter never got a callback (%s)%s"
                             % (early_node, (early_step or 0) * DT, waited,
                                "; the submitter never executed it: it received it inside a snapshot" if skipped else "")})
    ref = L if L is not None else max(h.CV, key=lambda v: (s.objs[v].raftLastApplied, v))
    bh = _behind(h, ref)
    if bh:
        i = bh[0][0]
        # what the node that stays behind keeps telling the others (read off the wire, for the signature only)
        hints = [m["next_node_idx"] for (a, b, m) in s.sent[n_sent0:] if a == i and m.get("type") == "next_node_idx"
                 and m.get("reset")][-400:]
        detail = "alternating-reset-hints" if (len(hints) >= 8 and len(set(hints)) >= 2) else \
            ("repeated-reset-hint" if (len(hints) >= 8 and len(set(hints)) == 1) else "no-rejections")
        viol.append({"signature": "convergence:replica-stays-behind:" + detail,
                     "what": "%s: raftLastApplied %d, %s %s has %d (%d behind; commit index there %d) after %s; its last "
                             "rejection hints (next_node_idx with reset) were %s"
                             % (i, bh[0][1], "leader" if L is not None else "most advanced voter", ref, bh[0][2],
                                bh[0][2] - bh[0][1], s.objs[i].raftCommitIndex, waited, hints[-6:])})
    # identical state at the same applied position (a replica that is behind is reported above)
    refpos = s.objs[ref].raftLastApplied
    df = _differ(h, ref, [i for i in h.C if s.objs[i].raftLastApplied == refpos])
    if df is not None:
        at = next((j for j, (x, y) in enumerate(zip(df[1], df[2])) if x != y), min(len(df[1]), len(df[2])))
        viol.append({"signature": "convergence:states-differ",
                     "what": "%s and %s both applied position %d, but their states differ from command no. %d on: %s holds %d "
                             "commands (there %r), %s holds %d (there %r) after %s"
                             % (df[0], ref, refpos, at + 1, df[0], len(df[1]), [str(x)[:12] for x in df[1][at:at + 2]], ref,
                                len(df[2]), [str(x)[:12] for x in df[2][at:at + 2]], waited)})
    if s.errors:
        viol.append({"signature": "tick:exception-escapes",
                     "what": "%s on %s: %s" % (s.errors[0][1], s.errors[0][0], s.errors[0][2])})

    # ---- coverage of what the quiet period had to do ----
    chunks = resets = last_chunks = appends = votes = 0
    for (a, b, m) in s.sent[n_sent0:]:
        t = m.get("type")
        if t == "append_entries":
            if m.get("serialized") is not None:
                chunks += 1
                if m["serialized"][2]:
                    last_chunks += 1
            elif m.get("entries") or m.get("transmission"):
                appends += 1
        elif t == "next_node_idx" and m.get("reset"):
            resets += 1
        elif t == "request_vote":
            votes += 1
    # the longest uninterrupted series of rejections one connected node sent after the heal (read off the wire,
    # COVERAGE only): one rejection per round trip = how long a leader heard nothing but "no" from that node
    period = s.conf.get("appendEntriesPeriod", 0.125)
    runs, best = {}, 0
    for (a, b, m) in s.sent[n_sent0:]:
        if a in h.C and m.get("type") == "next_node_idx":
            if m.get("success"):
                runs[a] = 0
            elif m.get("reset"):
                runs[a] = runs.get(a, 0) + 1
                best = max(best, runs[a])
    # piecewise (over-sized) entries sent to a node after the heal before that node accepted anything (= while the
    # leader was still looking for the point where the logs agree); read off the wire, COVERAGE only
    accepted, ow = set(), {}
    for (a, b, m) in s.sent[n_sent0:]:
        if m.get("type") == "next_node_idx" and m.get("success"):
            accepted.add(a)
        elif m.get("type") == "append_entries" and m.get("transmission") == "start" and b not in accepted:
            ow[b] = ow.get(b, 0) + 1
    cov["oversized_during_walkback"] = max(list(ow.values()) + [0])
    cov["oversized_exact_multiple"] = _exact_on_wire(s, h.B)
    cov["exact_quiet"] = sum(1 for x in (EARLY, POST) if x not in ("early", "post"))
    nones, votes_in_pending = {}, 0
    if p.get("dump_checker"):
        for (a, b, m) in s.sent[n_sent0:]:
            if m.get("type") == "append_entries" and "serialized" in m and m["serialized"] is None:
                nones[b] = nones.get(b, 0) + 1
            elif m.get("type") == "request_vote" and nones.get(a) and a == h.notes.get("lagging") and \
                    not any(x.get("done") for x in [xfer.get(a) or {}]):
                votes_in_pending += 1
    cov["none_heartbeats_after_heal"] = max(list(nones.values()) + [0])
    cov["pending_steps"] = (p.get("var") or {}).get("pending") if p.get("dump_checker") else None
    cov["request_votes_of_lagging_node_after_heal"] = sum(1 for (a, b, m) in s.sent[n_sent0:]
                                                          if m.get("type") == "request_vote" and a == h.notes.get("lagging"))
    longest = max([x["longest"] for x in xfer.values()] + [0]) * DT
    cov["link_rate"] = link_rate
    cov["snapshot_transfer_s"] = longest
    cov["snapshot_transfer_longer_than_timeout"] = longest > unit
    cov["snapshot_transfer_restarts"] = sum(x["restarts"] for x in xfer.values())
    cov["final_term"] = max(term_hist[-1]) if term_hist else None
    cov["walkback_rounds"] = best
    cov["walkback_longer_than_fallback"] = bool(h.down) and best * period > s.conf.get("leaderFallbackTimeout", 30.0)
    # commands that entered a node's state after the heal without being executed there came by snapshot
    by_snapshot = [i for i in h.C if len(s.objs[i].log) - log0[i] > len(s.execs[i]) - execs0[i]]
    cov.update({"snapshot_chunks_after_heal": chunks, "snapshots_completed_after_heal": last_chunks,
                "state_installed_by_snapshot": len(by_snapshot), "reset_replies_after_heal": resets,
                "entry_batches_after_heal": appends, "request_votes_after_heal": votes,
                "post_node": "leader" if post_node == L else ("observer" if post_node in h.O else "follower"),
                "down": list(h.down),
                "t_leader": t_leader, "t_sync": t_sync, "t_ack": t_ack,
                "early": None if early_cid is None else (FAIL_NAMES.get(e_acked[0][1], e_acked[0][1]) if e_acked else "none"),
                "early_applied": bool(early_applied), "leader_changes": changes, "quiet_s": step * DT,
                "final_applied": s.objs[ref].raftLastApplied, "final_commands": len(s.objs[ref].log),
                "t_leader_bucket": _bucket(t_leader, unit) if t_leader is not None else ">40",
                "t_sync_bucket": _bucket(t_sync, unit) if t_sync is not None else ">40"})
    # restarts (classification for coverage only, see Hist._note_kill / _note_connect)
    rs = {"observer_kills": 0, "observer_confirmed_leader_unchanged": 0, "observer_in_snapshot_transfer": 0,
          "voter_kills_journaled": 0, "voter_kills_journaled_leader": 0, "voter_stateless": 0,
          "voter_stateless_match_beyond_log_end": 0}
    for rec in h.kills:
        rc = rec["reconnect"]
        if rec["observer"]:
            rs["observer_kills"] += 1
            rs["observer_in_snapshot_transfer"] += 1 if rec["in_snapshot"] else 0
            if (rec["match"] or 0) > 1 and rc is not None and rc["same_leader"]:
                rs["observer_confirmed_leader_unchanged"] += 1
        elif p.get("journal"):
            rs["voter_kills_journaled"] += 1
            rs["voter_kills_journaled_leader"] += 1 if rec["was_leader"] else 0
        else:
            rs["voter_stateless"] += 1
            if rc is not None and rc["same_leader"] and (rc["match"] or 0) > rc["log_end"]:
                rs["voter_stateless_match_beyond_log_end"] += 1
    cov["restarts"] = rs
    cov["variant"] = (p.get("var") or {}).get("variant")
    cov["dynamic_membership"] = bool((p.get("conf") or {}).get("dynamicMembershipChange"))
    # a connected voter holds state it never executed (= it installed a snapshot at some time) while the node that
    # led at the heal is among the unreachable ones
    cov["snapshot_node_left_without_its_leader"] = bool(
        h.down and any(x in h.V and (x in lead0 or x == h.notes.get("stale")) for x in h.down)
        and any(len(s.objs[i].log) > len(set(pos for pos, _ in s.execs[i])) for i in h.CV))
    cov["split"] = dict(h.notes.get("split") or {})
    cov["split_mode"] = (p.get("var") or {}).get("mode")
    h.close()
    return {"viol": viol, "events": h.events, "cov": cov,
            "resolved": {"early": early_node, "post": post_node, "down": list(h.down)}}


def _exact_on_wire(s, B):
    """over-sized entries sent in pieces (`transmission` start/process/finish) whose total length was an exact multiple
    of the batch size, by multiple k - measured on the messages really sent (COVERAGE)"""
    out, cur = {}, {}
    if B >= BIG:
        return out

    def close(c):
        n = cur.pop(c, None)
        if n and n % B == 0:
            out[str(n // B)] = out.get(str(n // B), 0) + 1
    for (a, b, m) in s.sent:
        t = m.get("transmission") if m.get("type") == "append_entries" else None
        c = (a, b)
        if t == "start":
            close(c)
            cur[c] = len(m["data"])
        elif t in ("process", "finish") and c in cur:
            cur[c] += len(m["data"])
            if t == "finish":
                close(c)
        elif m.get("type") == "append_entries" and c in cur:
            close(c)
    for c in list(cur):
        close(c)
    return out


def _skipped(h, node, x):
    """the command is in the node's state although the node never executed it (it came inside a snapshot)"""
    s = h.sim
    return x in s.objs[node].log and not any(c == x for (_, c) in s.execs[node])


def _resolve_down(h, p):
    """the nodes the heal leaves cut off from everybody: a concrete list (replays) or a role resolved on the live
    history; always strictly a minority of the voters (observers may be down as well)"""
    spec = p.get("down")
    if not spec or spec == "none":
        return []
    k = p.get("post_k", 0)
    nv = len(h.V)
    if isinstance(spec, (list, tuple)):
        cand = list(spec)
    else:
        roles = [h.notes.get("lagging"), h.notes.get("stale")]
        if spec == "notes":
            cand = list(h.notes.get("down") or [])
            if not cand:
                return []                                            # the generator gave up before the partition
        elif spec == "obs":
            return [h.O[k % len(h.O)]] if h.O else []
        elif spec == "lagging":
            cand = [roles[0]]
        elif spec == "stale":
            cand = [roles[1]]
        elif spec == "max":
            cand = [h.V[(k + j) % nv] for j in range((nv - 1) // 2)]
        else:                                                       # "other": a voter with no role in the history
            free = [v for v in h.V if v not in roles] or h.V
            cand = [free[k % len(free)]]
        if not [x for x in cand if x in h.A]:
            cand = [h.V[k % nv]]
        if p.get("down_obs") and h.O:
            cand.append(h.O[k % len(h.O)])
    out, n = [], 0
    for x in cand:
        if x not in h.A or x in out:
            continue
        if x in h.V:
            if n >= (nv - 1) // 2:
                continue
            n += 1
        out.append(x)
    return out


def _post_target(h, p, L, which="post"):
    """a node of the connected side"""
    want = p.get("post", "leader") if which == "post" else p.get("early", "follower")
    k = p.get("post_k", 0) + (0 if which == "post" else 1)
    if want in h.C:
        return want                          # a concrete node (replays of shrunk histories)
    if want == "lagging":
        want = h.notes.get("lagging", "follower")
        if want in h.C and want != L:
            return want
    if want == "observer" and h.CO:
        return h.CO[k % len(h.CO)]
    if want in ("follower", "observer") or want in h.A:
        fs = [v for v in h.CV if v != L]
        if fs:
            return fs[k % len(fs)]
    return L if L is not None else h.CV[k % len(h.CV)]


# ------------------------------------------------------------------------------------------------
# parameters
# ------------------------------------------------------------------------------------------------
def draw_conf(rng, kind=None):
    c = {"appendEntriesBatchSizeBytes": rng.choice([100, 200, 400, 400, BIG]),
         "logCompactionBatchSize": rng.choice([16, 40, 100, BIG]),
         "leaderFallbackTimeout": rng.choice([30.0, 30.0, 30.0, 2.0, 1.0, 0.5])}
    if rng.random() < 0.35:
        c["logCompactionMinEntries"] = rng.choice([3, 6, 12])
        c["logCompactionMinTime"] = rng.choice([0.25, 1.0, 300])
    else:
        c["logCompactionMinEntries"] = 100000
        c["logCompactionMinTime"] = 100000
    if rng.random() < 0.2:
        c["appendEntriesUseBatch"] = False
    if rng.random() < 0.15:
        c["commandsWaitLeader"] = False
    if rng.random() < 0.3 or kind == "snapshot_then_leader_down":
        c["dynamicMembershipChange"] = True          # the option alone; no membership command is ever issued
    if kind == "exact_multiple_entry":
        c.update({"appendEntriesBatchSizeBytes": rng.choice([128, 256]), "logCompactionMinEntries": 100000,
                  "logCompactionMinTime": 100000})
    if kind == "slow_snapshot":
        c.update({"logCompactionBatchSize": rng.choice([32, 64, 128]), "logCompactionMinEntries": 100000,
                  "logCompactionMinTime": 100000, "appendEntriesBatchSizeBytes": rng.choice([400, BIG]),
                  "leaderFallbackTimeout": rng.choice([30.0, 2.0])})
    if kind == "snapshot_then_leader_down":
        c.update({"logCompactionMinEntries": 100000, "logCompactionMinTime": 100000})
    if kind == "stale_leader":
        c["leaderFallbackTimeout"] = 30.0
    if kind == "lag_snapshot":
        c["logCompactionBatchSize"] = rng.choice([16, 40, 100])
    if kind == "midburst":
        c["appendEntriesBatchSizeBytes"] = rng.choice([100, 200, 400])
    if kind == "old_long_vs_new_short":
        c["leaderFallbackTimeout"] = rng.choice([1.0, 2.0])          # stale leaders must step down while alone
    if kind in ("voter_restart_leader_stays", "long_walkback"):
        c["logCompactionMinEntries"] = 100000                        # compaction only where the history says so
        c["logCompactionMinTime"] = 100000                           # (no snapshot short-cuts the walk back)
    return c


def directed_params(rng):
    out = []
    modes = ["noticed", "silent", "inside", "outside"]
    k = 0
    for nv in (2, 3, 4, 5):
        for kind in ("partition", "midburst", "stale_leader", "lag_snapshot", "uneven", "compactions", "term_inflation"):
            # with 3+ voters every kind is healed once completely and once with each role left unreachable
            for rep4 in range(2 if nv == 2 else 4):
                rep = rep4 % 2
                k += 1
                no = [0, 1, 2, 1][(k + rep) % 4]
                if kind == "lag_snapshot" and nv == 2:
                    no = max(no, 1)
                down = ["none", "lagging", "stale", "other"][(rep4 + nv) % 4] if nv > 2 else "none"
                var = {}
                if kind == "partition":
                    var = {"mode": modes[(k + rep) % 4], "with_leader": rep == 0, "rounds": rng.choice([2, 4, 6]),
                           "late_notice": rng.random() < 0.5, "obs_with_group": rng.random() < 0.5}
                elif kind == "midburst":
                    var = {"victim": rng.randrange(8), "direction": ["down", "up"][rep], "k": rng.randrange(1, 5),
                           "mode": rng.choice(["silent", "noticed", "first", "second"]), "rounds": rng.randrange(1, 5),
                           "compact": rng.random() < 0.5}
                elif kind == "stale_leader":
                    var = {"mode": ["silent", "outside"][rep], "stale_cmds": rng.randrange(1, 6),
                           "new_cmds": rng.randrange(2, 8), "compact": rng.random() < 0.5,
                           "obs_with_leader": rng.random() < 0.5}
                elif kind == "lag_snapshot":
                    var = {"who": ["follower", "observer", "leader"][(k + rep) % 3], "mode": rng.choice(modes),
                           "m": rng.randrange(6, 14), "after": rng.randrange(0, 4),
                           "own_compaction": rng.random() < 0.4, "others_compact": rng.random() < 0.4,
                           "torn": rng.choice([0, 0, 1, 2, 3]), "torn_mode": rng.choice(["silent", "noticed", "first", "second"])}
                elif kind == "uneven":
                    var = {"rounds": rng.randrange(4, 10), "held": rng.randrange(1, 4)}
                elif kind == "compactions":
                    var = {"rounds": rng.randrange(4, 9), "victim": rng.randrange(8)}
                elif kind == "term_inflation":
                    var = {"who": ["follower", "leader"][rep], "mode": rng.choice(["silent", "outside"]),
                           "rounds": rng.randrange(3, 9), "late_notice": rng.random() < 0.4}
                out.append({"kind": kind, "nv": nv, "no": no, "conf": draw_conf(rng, kind), "var": var,
                            "seed": rng.randrange(10 ** 6), "post": ["leader", "follower", "observer"][(k + rep) % 3],
                            "early": ["lagging", "follower", "observer", "leader"][(k // 2 + rep) % 4],
                            "post_k": rng.randrange(4), "heal_all": rng.random() < 0.7,
                            "dumpfile": kind in ("lag_snapshot", "compactions") and rng.random() < 0.35,
                            "down": down, "down_mode": ["noticed", "silent"][(k + nv) % 2], "down_ticks": k % 3 != 0,
                            "down_obs": no > 0 and k % 4 == 0, "down_fresh": k % 5 != 0})
    # the two log shapes a bare majority can be left with
    k = 0
    for nv in (3, 5):
        for orient in ("old_long", "old_short"):
            for mode2 in ("silent", "noticed"):
                k += 1
                conf = draw_conf(rng, "old_long_vs_new_short")
                out.append({"kind": "old_long_vs_new_short", "nv": nv, "no": [0, 1][k % 2], "conf": conf,
                            "var": {"orient": orient, "mode2": mode2, "alone": rng.choice([40, 60, 80]), "alone_dt": 0.25,
                                    "third": rng.randrange(4), "keep_obs": k % 4 == 1, "old_ticks": True},
                            "seed": rng.randrange(10 ** 6), "post": ["leader", "follower"][k % 2], "early": "lagging",
                            "post_k": rng.randrange(4), "heal_all": True, "dumpfile": False,
                            "down": "notes", "down_mode": ["silent", "noticed"][(k // 2) % 2], "down_ticks": k % 3 != 0,
                            "down_fresh": True})
    # walk back over a stale tail that takes longer than leaderFallbackTimeout, the walking follower being needed
    k = 0
    for T in (0.25, 0.5, 1.0):
        for tail in (6, 20, 60):
            k += 1
            conf = draw_conf(rng, "long_walkback")
            conf["leaderFallbackTimeout"] = T
            out.append({"kind": "long_walkback", "nv": 5 if ((k - 1) // 3 + (k - 1) % 3) % 3 == 2 else 3, "no": [0, 1, 0, 2][k % 4], "conf": conf,
                        "var": {"tail": tail, "mode": ["silent", "outside", "noticed"][k % 3], "more": rng.randrange(1, 6),
                                "before_heal": rng.randrange(0, 6)},
                        "seed": rng.randrange(10 ** 6), "post": ["leader", "follower"][k % 2], "early": ["lagging", "leader"][k % 2],
                        "post_k": rng.randrange(4), "heal_all": True, "dumpfile": False,
                        "down": "notes", "down_mode": ["noticed", "silent"][k % 2], "down_ticks": k % 3 != 1, "down_fresh": True})
    # the walk back over a stale tail passes an over-sized entry of the new leader that has successors
    for k, pat in enumerate(("sBs", "Bs", "ssBs", "sBBs", "BsBs", "sBsss")):
        conf = draw_conf(rng, "stale_leader")
        conf.update({"appendEntriesBatchSizeBytes": [100, 200, 400][k % 3], "logCompactionMinEntries": 100000,
                     "logCompactionMinTime": 100000})
        out.append({"kind": "stale_leader", "nv": [3, 3, 5][k % 3], "no": k % 2, "conf": conf,
                    "var": {"mode": ["silent", "outside"][k % 2], "stale_cmds": 1 + k % 3, "new_cmds": 0, "compact": False,
                            "obs_with_leader": False, "pattern": pat},
                    "seed": rng.randrange(10 ** 6), "post": ["leader", "follower"][k % 2], "early": "lagging",
                    "post_k": rng.randrange(4), "heal_all": k % 2 == 0, "dumpfile": False, "down": "none"})
    # over-sized entries whose pickled length is an exact multiple of the batch size
    for k in range(6):
        conf = draw_conf(rng, "exact_multiple_entry")
        out.append({"kind": "exact_multiple_entry", "nv": 3, "no": k % 2, "conf": conf,
                    "var": {"which": k, "mode": modes[k % 4], "ks": [[2, 3, 4], [4, 2], [3]][k % 3], "ks_away": [[2, 4], [3], [4, 3, 2]][k % 3],
                            "compact": k % 4 == 3},
                    "seed": rng.randrange(10 ** 6), "post": ["leader", "follower", "observer"][k % 3], "early": ["lagging", "follower"][k % 2],
                    "post_k": rng.randrange(4), "heal_all": k % 2 == 0, "dumpfile": False, "down": "none",
                    "exact_post": [2, 3, 4][k % 3], "exact_early": [4, 2, 3][k % 3]})
    # a snapshot that takes several election timeouts on a link of bounded bandwidth
    k = 0
    for nv in (3, 5):
        for who in ("voter", "observer"):
            for dumpfile in (False, True):
                k += 1
                csz = None
                conf = draw_conf(rng, "slow_snapshot")
                out.append({"kind": "slow_snapshot", "nv": nv, "no": 1 + k % 2 if who == "observer" else [0, 1][k % 2], "conf": conf,
                            "var": {"who": who, "which": k, "mode": modes[k % 4], "m": [40, 56, 72][k % 3], "rnd_len": [96, 128][k % 2],
                                    "others_compact": k % 3 == 0, "after": k % 4},
                            "seed": rng.randrange(10 ** 6), "post": ["leader", "follower"][k % 2], "early": "lagging",
                            "post_k": rng.randrange(4), "heal_all": k % 2 == 0, "dumpfile": dumpfile, "down": "none",
                            "link_rate": 1 if conf["logCompactionBatchSize"] >= 64 else 2})
    for k, (nv, dumpfile) in enumerate(((3, False), (3, True), (5, False))):
        conf = draw_conf(rng, "slow_snapshot")
        out.append({"kind": "slow_snapshot", "nv": nv, "no": k % 2, "conf": conf,
                    "var": {"who": "voter", "which": k, "mode": modes[k % 4], "m": 24, "rnd_len": 64, "after": 1,
                            "pending": [40, 64, 48][k]},
                    "seed": rng.randrange(10 ** 6), "post": "leader", "early": "lagging", "post_k": k, "heal_all": True,
                    "dumpfile": dumpfile, "down": "none", "link_rate": None, "dump_checker": True})
        # (no bounded bandwidth here: while its dump is pending the leader's send loop floods the link with thousands
        #  of `serialized: None`; behind a rate limit the real chunks would queue up for minutes - not "timely")
    # the node that installed a snapshot must win the next election in a bare majority
    k = 0
    for nv in (3, 5):
        for dm in ("noticed", "silent"):
            for rep in range(2):
                k += 1
                journal = rep == 1
                out.append({"kind": "snapshot_then_leader_down", "nv": nv, "no": [0, 1][k % 2],
                            "conf": draw_conf(rng, "snapshot_then_leader_down"),
                            "var": {"which": k, "mode": modes[k % 4], "m": rng.randrange(6, 12), "catchup": 16, "tail": 1 + k % 3,
                                    "restart_snap": journal and k % 2 == 0},
                            "seed": rng.randrange(10 ** 6), "post": ["leader", "follower"][k % 2], "early": "follower",
                            "post_k": rng.randrange(4), "heal_all": True, "dumpfile": False, "journal": journal,
                            "down": "notes", "down_mode": dm, "down_ticks": k % 2 == 0, "down_fresh": True})
    # an even cluster split exactly in half while elections run
    k = 0
    for variant in ("startup", "later"):
        for mode in ("silent", "noticed"):
            for rep in range(3):
                k += 1
                conf = draw_conf(rng, "even_split")
                conf["leaderFallbackTimeout"] = [0.5, 1.0, 30.0][k % 3]
                out.append({"kind": "even_split", "nv": 6 if k % 6 == 0 else 4, "no": [0, 1, 2][k % 3], "conf": conf,
                            "var": {"variant": variant, "mode": mode, "rounds": [3, 5, 8][rep], "steps": [16, 24, 12][rep],
                                    "dt": [DT, DT, 0.125][k % 3], "obs_side": k % 2, "leader_half": k % 2 == 0,
                                    "second": [0, 0, 6][rep] if variant == "later" else 0},
                            "seed": rng.randrange(10 ** 6), "post": ["leader", "follower", "observer"][k % 3],
                            "early": ["lagging", "follower"][k % 2], "post_k": rng.randrange(4), "heal_all": k % 2 == 0,
                            "dumpfile": False, "down": "none"})
    # restarts.  A stateless restart of a VOTER appears only in `voter_restart_leader_stays` (never in random histories,
    # never followed by another fault): with a later leader change the replicas could legitimately differ.
    k = 0
    for nv in (3, 5):
        for no in (1, 2):
            for when in ("confirmed", "lagging", "snapshot"):
                k += 1
                conf = draw_conf(rng, "lag_snapshot" if when == "snapshot" else None)
                out.append({"kind": "observer_restart", "nv": nv, "no": no, "conf": conf,
                            "var": {"when": when, "which": k, "mode": modes[k % 4], "m": rng.randrange(6, 12),
                                    "chunks": rng.randrange(1, 4), "k": [0, 1, 3][k % 3], "compact": k % 2 == 0,
                                    "compact_while_down": k % 4 == 1, "change": ["none", "none", "after", "before", "partition"][k % 5],
                                    "reconnect": k % 6 != 5, "after": rng.randrange(0, 5), "twice": k % 7 == 3},
                            "seed": rng.randrange(10 ** 6), "post": ["leader", "follower", "observer"][k % 3], "early": "lagging",
                            "post_k": rng.randrange(4), "heal_all": k % 2 == 0, "dumpfile": False, "down": "none"})
    k = 0
    for nv in (3, 5):
        for who in ("follower", "leader"):
            for rep in range(2):
                k += 1
                out.append({"kind": "voter_restart_journal", "nv": nv, "no": [0, 1, 2, 1][k % 4], "conf": draw_conf(rng, None),
                            "var": {"who": who, "rounds": 1 + k % 2, "k": [0, 1, 3, 6][k % 4], "compact": k % 2 == 0,
                                    "compact_while_down": k % 3 == 0, "reconnect": k % 5 != 4, "partition": k % 4 == 2, "away": 8},
                            "seed": rng.randrange(10 ** 6), "post": ["leader", "follower", "observer"][k % 3], "early": "lagging",
                            "post_k": rng.randrange(4), "heal_all": k % 2 == 0, "dumpfile": False, "journal": True,
                            "down": ["none", "none", "other"][k % 3], "down_mode": ["noticed", "silent"][k % 2]})
    k = 0
    for variant in ("empty", "dump_only"):
        for kk in (0, 1, 3):
            for compact in (False, True):
                k += 1
                conf = draw_conf(rng, "voter_restart_leader_stays")
                out.append({"kind": "voter_restart_leader_stays", "nv": [3, 5][k % 2], "no": [0, 1, 2][k % 3], "conf": conf,
                            "var": {"variant": variant, "k": kk, "compact": compact, "which": rng.randrange(4),
                                    "beyond": rng.randrange(2, 5), "after": [0, 2][k % 2]},
                            "seed": rng.randrange(10 ** 6), "post": ["leader", "follower", "observer"][k % 3], "early": "lagging",
                            "post_k": rng.randrange(4), "heal_all": False, "dumpfile": variant == "dump_only", "down": "none"})
    return out


def random_params(rng, n):
    out = []
    kinds = ["random", "random", "random", "lag_snapshot", "stale_leader", "partition", "midburst", "uneven",
             "compactions", "term_inflation", "old_long_vs_new_short", "observer_restart", "voter_restart_journal",
             "voter_restart_leader_stays", "long_walkback", "even_split", "slow_snapshot", "snapshot_then_leader_down",
             "exact_multiple_entry"]
    modes = ["noticed", "silent", "inside", "outside"]
    for _ in range(n):
        kind = rng.choice(kinds)
        nv = rng.choice([2, 3, 3, 4, 5, 5])
        if kind in ("old_long_vs_new_short", "voter_restart_journal", "voter_restart_leader_stays", "long_walkback"):
            nv = rng.choice([3, 4, 5])
        if kind == "even_split":
            nv = rng.choice([4, 4, 4, 6])
        if kind in ("slow_snapshot", "snapshot_then_leader_down"):
            nv = rng.choice([3, 3, 4, 5])
        if kind == "random" and rng.random() < 0.12:
            nv = 4
        no = rng.choice([0, 0, 1, 1, 2])
        if kind == "observer_restart":
            no = rng.choice([1, 1, 2])
        if kind == "lag_snapshot" and nv == 2:
            no = max(no, 1)
        if kind == "random":
            var = {"n": rng.choice([30, 60, 100, 160])}
            if nv == 4 and rng.random() < 0.45:
                var["even_split"] = True            # a 2|2 split with submissions on both sides somewhere in the history
            if rng.random() < 0.2:
                var["exact"] = True                 # some over-sized commands end exactly on a batch boundary
        elif kind == "exact_multiple_entry":
            var = {"which": rng.randrange(4), "mode": rng.choice(modes), "ks": [rng.choice([2, 3, 4]) for _ in range(rng.randrange(1, 4))],
                   "ks_away": [rng.choice([2, 3, 4]) for _ in range(rng.randrange(1, 4))], "compact": rng.random() < 0.3}
        elif kind == "slow_snapshot":
            var = {"who": rng.choice(["voter", "voter", "observer"]), "which": rng.randrange(4), "mode": rng.choice(modes),
                   "m": rng.choice([24, 40, 56, 80]), "rnd_len": rng.choice([64, 96, 128]), "others_compact": rng.random() < 0.3,
                   "after": rng.randrange(0, 5)}
            if var["who"] == "observer":
                no = max(no, 1)
        elif kind == "snapshot_then_leader_down":
            var = {"which": rng.randrange(4), "mode": rng.choice(modes), "m": rng.randrange(4, 14), "catchup": rng.choice([8, 16, 24]),
                   "tail": rng.randrange(1, 5), "restart_snap": rng.random() < 0.5}
        elif kind == "even_split":
            var = {"variant": rng.choice(["startup", "startup", "later"]), "mode": rng.choice(["silent", "silent", "noticed"]),
                   "rounds": rng.randrange(2, 9), "steps": rng.choice([8, 12, 16, 24, 32]), "dt": rng.choice([DT, DT, 0.125, 0.03125]),
                   "obs_side": rng.randrange(2), "leader_half": rng.random() < 0.5, "second": rng.choice([0, 0, 4, 12])}
        elif kind == "partition":
            var = {"mode": rng.choice(modes), "with_leader": rng.random() < 0.6, "rounds": rng.choice([1, 2, 4, 6]),
                   "late_notice": rng.random() < 0.5, "obs_with_group": rng.random() < 0.5}
        elif kind == "midburst":
            var = {"victim": rng.randrange(8), "direction": rng.choice(["down", "up"]), "k": rng.randrange(0, 6),
                   "mode": rng.choice(["silent", "noticed", "first", "second"]), "rounds": rng.randrange(1, 5),
                   "compact": rng.random() < 0.5}
        elif kind == "stale_leader":
            var = {"mode": rng.choice(["silent", "outside"]), "stale_cmds": rng.randrange(1, 8),
                   "new_cmds": rng.randrange(1, 10), "compact": rng.random() < 0.5, "obs_with_leader": rng.random() < 0.5}
            if rng.random() < 0.35:
                var["pattern"] = "".join(rng.choice("ssB") for _ in range(rng.randrange(2, 7)))
                var["stale_cmds"], var["compact"] = rng.randrange(1, 5), False
        elif kind == "lag_snapshot":
            var = {"who": rng.choice(["follower", "observer", "leader"]), "mode": rng.choice(modes),
                   "m": rng.randrange(5, 16), "after": rng.randrange(0, 5), "own_compaction": rng.random() < 0.4,
                   "others_compact": rng.random() < 0.4, "torn": rng.choice([0, 0, 1, 2, 3, 5]),
                   "torn_mode": rng.choice(["silent", "noticed", "first", "second"])}
        elif kind == "uneven":
            var = {"rounds": rng.randrange(3, 12), "held": rng.randrange(1, 4)}
        elif kind == "compactions":
            var = {"rounds": rng.randrange(3, 10), "victim": rng.randrange(8)}
        elif kind == "observer_restart":
            var = {"when": rng.choice(["confirmed", "confirmed", "lagging", "snapshot", "snapshot"]), "which": rng.randrange(2),
                   "mode": rng.choice(modes), "m": rng.randrange(4, 14), "chunks": rng.randrange(0, 6), "k": rng.choice([0, 1, 3, 6]),
                   "compact": rng.random() < 0.5, "compact_while_down": rng.random() < 0.4,
                   "change": rng.choice(["none", "none", "none", "after", "before", "partition"]),
                   "reconnect": rng.random() < 0.8, "after": rng.randrange(0, 6), "twice": rng.random() < 0.15}
        elif kind == "voter_restart_journal":
            var = {"who": rng.choice(["follower", "leader"]), "rounds": rng.randrange(1, 4), "k": rng.choice([0, 1, 3, 6]),
                   "compact": rng.random() < 0.5, "compact_while_down": rng.random() < 0.4, "reconnect": rng.random() < 0.8,
                   "partition": rng.random() < 0.4, "away": rng.choice([2, 8, 30])}
        elif kind == "long_walkback":
            var = {"tail": rng.choice([3, 6, 10, 20, 40]), "mode": rng.choice(["silent", "outside", "noticed"]),
                   "more": rng.randrange(1, 8), "before_heal": rng.randrange(0, 8)}
        elif kind == "voter_restart_leader_stays":
            var = {"variant": rng.choice(["empty", "dump_only"]), "k": rng.choice([0, 0, 1, 2, 3, 5]), "compact": rng.random() < 0.4,
                   "which": rng.randrange(4), "beyond": rng.randrange(1, 6), "after": rng.randrange(0, 4)}
        elif kind == "old_long_vs_new_short":
            var = {"orient": rng.choice(["old_long", "old_long", "old_short"]), "mode2": rng.choice(["silent", "noticed"]),
                   "alone": rng.choice([20, 40, 80]), "alone_dt": rng.choice([0.125, 0.25, 0.5]), "third": rng.randrange(4),
                   "keep_obs": rng.random() < 0.5, "old_ticks": rng.random() < 0.8}
        else:
            var = {"who": rng.choice(["follower", "leader"]), "mode": rng.choice(["silent", "outside"]),
                   "rounds": rng.randrange(2, 10), "late_notice": rng.random() < 0.4}
        if kind == "old_long_vs_new_short":
            down = "notes" if rng.random() < 0.85 else "none"
        elif kind == "long_walkback":
            down = "notes"
        elif kind in ("even_split", "slow_snapshot"):
            down = "none"
        elif kind == "snapshot_then_leader_down":
            down = "notes"
        elif kind == "voter_restart_leader_stays":
            down = "none"                               # no fault at all after the restart
        else:
            down = rng.choice(["lagging", "stale", "other", "max"]) if (nv > 2 and rng.random() < 0.36) else "none"
        if down == "none" and no and rng.random() < 0.05:
            down = "obs"                                # only a read-only node stays away
        short_T = None
        if kind == "stale_leader" and nv > 2 and rng.random() < 0.35:
            # the deposed leader's tail must be walked back while the node is needed for the majority
            short_T = rng.choice([0.25, 0.25, 0.5, 1.0])
            down = rng.choice(["other", "max"])
            var["stale_cmds"], var["new_cmds"], var["compact"] = rng.randrange(3, 25), rng.randrange(3, 30), False
        journal = kind == "voter_restart_journal" or (kind in ("random", "snapshot_then_leader_down") and rng.random() < 0.2)
        if kind == "voter_restart_leader_stays":
            dumpfile, heal_all = var["variant"] == "dump_only", False
        else:
            dumpfile, heal_all = (not journal) and rng.random() < 0.15, rng.random() < 0.7
        conf = draw_conf(rng, kind)
        if kind == "long_walkback":
            conf["leaderFallbackTimeout"] = rng.choice([0.25, 0.25, 0.5, 1.0, 2.0])
        if short_T is not None:
            conf.update({"leaderFallbackTimeout": short_T, "logCompactionMinEntries": 100000, "logCompactionMinTime": 100000})
        link_rate = None
        if kind == "slow_snapshot":
            link_rate = rng.choice([1, 1, 2, 3])
        elif rng.random() < 0.2:
            # bounded bandwidth in the quiet period of any history.  Not 1: every success ack sets the leader's
            # nextIndex back to the acked position, so with tiny batches and a long backlog it re-sends everything
            # still in flight once per heartbeat; on a link that carries ONE message per step the queue then never
            # drains (congestion, minutes of delay) - that is no longer "messages exchanged in time"
            link_rate = rng.randrange(2, 9)
        exact_q = rng.choice([2, 3, 4]) if rng.random() < 0.08 else None
        out.append({"link_rate": link_rate, "exact_post": exact_q, "exact_early": exact_q and rng.choice([2, 3, 4]), "kind": kind, "nv": nv, "no": no, "conf": conf, "var": var,
                    "seed": rng.randrange(10 ** 6), "post": rng.choice(["leader", "follower", "follower", "observer"]),
                    "early": rng.choice(["lagging", "lagging", "follower", "observer", "leader"]),
                    "post_k": rng.randrange(4), "heal_all": heal_all,
                    "dumpfile": dumpfile, "journal": journal,
                    "down": down, "down_mode": rng.choice(["noticed", "silent"]), "down_ticks": rng.random() < 0.6,
                    "down_obs": no > 0 and rng.random() < 0.3, "down_fresh": rng.random() < 0.7})
    return out


def corpus_params():
    out = []
    if os.path.isdir(CORPUS):
        for fn in sorted(os.listdir(CORPUS)):
            if fn.endswith(".json"):
                try:
                    d = json.load(open(os.path.join(CORPUS, fn)))
                except Exception:
                    continue
                p = d.get("params")
                if isinstance(p, dict):
                    p = dict(p)
                    p["corpus"] = fn
                    out.append(p)
    return out


def params(ctx):
    rng = ctx.rng("c05_convergence")
    extra = []
    if ctx.tier != "quick":
        # the default leaderFallbackTimeout (30 s) against a stale tail of a few hundred entries: thorough tier only
        for tail, mode in ((300, "silent"), (420, "outside")):
            conf = draw_conf(rng, "long_walkback")
            conf["leaderFallbackTimeout"] = 30.0
            conf["appendEntriesBatchSizeBytes"] = BIG       # (silent link: the optimistic nextIndex reaches the log end)
            extra.append({"kind": "long_walkback", "nv": 3, "no": 0, "conf": conf, "var": {"tail": tail, "mode": "silent", "more": 5,
                                                                                            "before_heal": 2, "reelect": False},
                          "seed": rng.randrange(10 ** 6), "post": "leader", "early": "lagging", "post_k": 0, "heal_all": True,
                          "dumpfile": False, "down": "notes", "down_mode": "noticed", "down_ticks": False, "quiet": 100})
    return corpus_params() + directed_params(rng) + extra + random_params(rng, ctx.scale(300, 8000))


# ------------------------------------------------------------------------------------------------
# shrinking: drop events of the fault history while the same signature is still observed
# ------------------------------------------------------------------------------------------------
def _fails(repo, p, events, sig, workdir):
    q = dict(p)
    q["events"] = events
    try:
        r = scenario(repo, q, workdir)
    except (Exception, Runaway):
        return False
    return any(v["signature"] == sig for v in r["viol"])


def shrink(repo, p, events, sig, workdir, budget_s=20.0):
    t0 = time.time()
    cur = [list(e) for e in events]
    chunk = max(1, len(cur) // 2)
    while chunk >= 1 and time.time() - t0 < budget_s:
        i, changed = 0, False
        while i < len(cur) and time.time() - t0 < budget_s:
            cand = cur[:i] + cur[i + chunk:]
            if _fails(repo, p, cand, sig, workdir):
                cur, changed = cand, True
            else:
                i += chunk
        if chunk == 1 and not changed:
            break
        chunk = chunk // 2 if chunk > 1 else (1 if changed else 0)
    return cur


# ------------------------------------------------------------------------------------------------
# run
# ------------------------------------------------------------------------------------------------
def _work(args):
    repo, p, workdir = args
    t0 = time.time()
    try:
        r = scenario(repo, p, workdir)
    except (Exception, Runaway):
        import traceback
        return {"p": p, "error": traceback.format_exc()[-1500:], "wall": time.time() - t0}
    return {"p": p, "viol": r["viol"], "cov": r["cov"], "events": r["events"] if r["viol"] else None,
            "resolved": r["resolved"],
            "wall": time.time() - t0}


def _phash(p):
    q = dict((k, v) for k, v in p.items() if k != "corpus")
    return hashlib.sha1(json.dumps(q, sort_keys=True).encode()).hexdigest()


def _inc(d, k, n=1):
    d[str(k)] = d.get(str(k), 0) + n


def _scratch(ctx):
    """directory for the journals / dump files of the histories that use them.  File journals msync every record:
    on a busy disk that is ~10x slower than the whole rest of a history, so a memory file system is preferred
    (the directory is removed at the end of run/replay in any case; ctx.tmpdir() is the fallback)."""
    shm = "/dev/shm"
    if os.path.isdir(shm) and os.access(shm, os.W_OK):
        import tempfile
        try:
            return tempfile.mkdtemp(prefix="pso-verif-c05-", dir=shm), True
        except OSError:
            pass
    return ctx.tmpdir(), False


def run(ctx):
    workdir, own = _scratch(ctx)
    try:
        return _run(ctx, workdir)
    finally:
        if own:
            import shutil
            shutil.rmtree(workdir, ignore_errors=True)


def _run(ctx, workdir):
    t0 = time.time()
    ps = params(ctx)
    budget = min(ctx.budget_s * 0.5, 11.0) if ctx.tier == "quick" else ctx.budget_s * 0.7
    results = []
    if ctx.tier == "quick" or ctx.jobs <= 1:
        bad = 0
        for p in ps:
            if time.time() - t0 > budget or bad >= 6:      # a verdict is reached; violating histories run the whole period
                break
            results.append(_work((ctx.repo, p, workdir)))
            bad += 1 if results[-1].get("viol") else 0
    else:
        import multiprocessing as mp
        mpctx = mp.get_context("fork")
        with mpctx.Pool(ctx.jobs) as pool:
            it = pool.imap(_work, [(ctx.repo, p, workdir) for p in ps], chunksize=4)
            for r in it:
                results.append(r)
                if time.time() - t0 > budget:
                    pool.terminate()
                    break

    cov = {"histories": 0, "by_kind": {}, "by_voters": {}, "by_observers": {}, "post_node": {},
           "t_leader_in_raftMaxTimeouts": {}, "t_sync_in_raftMaxTimeouts": {}, "max_t_sync_s": 0.0, "max_t_leader_s": 0.0,
           "max_t_ack_s": 0.0,
           "snapshot_catchup_histories": 0, "snapshot_chunks_after_heal": 0, "multi_chunk_snapshot_histories": 0,
           "state_installed_by_snapshot_histories": 0,
           "stale_leader_at_heal": 0, "two_leaders_at_heal": 0, "no_leader_at_heal": 0, "unnoticed_cuts_at_heal": 0,
           "held_messages_at_heal": 0, "term_spread_ge_3": 0, "applied_spread_gt_0": 0,
           "reset_replies_after_heal": 0, "histories_with_reset_reply": 0, "entry_batches_after_heal": 0,
           "elections_after_heal_histories": 0, "dumpfile_histories": 0, "auto_compaction_histories": 0,
           "small_batch_histories": 0, "fallback_le_2s_histories": 0, "fault_events": 0, "submissions": 0,
           "compactions": 0, "corpus_histories": 0, "planned": len(ps), "errors": 0,
           "violating_histories": {}, "early_command_outcome": {},
           "healed_with_minority_down": {"histories": 0, "by_kind": {}}, "connected_log_shapes_at_heal": {},
           "old_long_vs_new_short": {}, "restarts": {}, "walkback_longer_than_fallback": {}, "max_walkback_rounds": 0,
           "even_split": {}, "bounded_bandwidth": {}, "dynamic_membership_option": {}, "oversized_exact_multiple": {},
           "pending_dump": {}}
    distinct = set()
    viols, sigs = [], set()
    errors = []
    for r in results:
        p = r["p"]
        if r.get("error"):
            cov["errors"] += 1
            errors.append(r["error"])
            continue
        c = r["cov"]
        cov["histories"] += 1
        if c["fault_events"] >= 5:
            distinct.add(_phash(p))
        _inc(cov["by_kind"], c["kind"])
        _inc(cov["by_voters"], c["nv"])
        _inc(cov["by_observers"], c["no"])
        _inc(cov["post_node"], c["post_node"])
        if c["down_voters"]:
            cov["healed_with_minority_down"]["histories"] += 1
            _inc(cov["healed_with_minority_down"], c["down_mode"])
            _inc(cov["healed_with_minority_down"], "down_nodes_tick" if c["down_ticks"] else "down_nodes_frozen")
            _inc(cov["healed_with_minority_down"], "voters_%d_down_%d" % (c["nv"], c["down_voters"]))
            if c["down_leader_at_heal"]:
                _inc(cov["healed_with_minority_down"], "a_down_node_was_leader_at_heal")
            _inc(cov["healed_with_minority_down"]["by_kind"], c["kind"])
        if c["down_observers"]:
            _inc(cov["healed_with_minority_down"], "histories_with_observer_down")
        for k_ in ("longer_older_vs_shorter_newer", "shorter_older_vs_longer_newer"):
            if c[k_]:
                _inc(cov["connected_log_shapes_at_heal"], k_)
                if c["kind"] == "old_long_vs_new_short":
                    _inc(cov["old_long_vs_new_short"], k_)
                    if c["down_voters"]:
                        _inc(cov["old_long_vs_new_short"], k_ + "_bare_majority_%d" % c["nv"])
        if c.get("oversized_during_walkback") and c["reset_replies_after_heal"]:
            _inc(cov["oversized_exact_multiple"], "histories_with_oversized_entry_during_walkback")
            if c["kind"] == "stale_leader":
                _inc(cov["oversized_exact_multiple"], "stale_leader_histories_with_oversized_entry_during_walkback")
        for k_, n_ in (c.get("oversized_exact_multiple") or {}).items():
            _inc(cov["oversized_exact_multiple"], k_, n_)
            _inc(cov["oversized_exact_multiple"], "histories_k%s" % k_)
        if c.get("exact_quiet"):
            _inc(cov["oversized_exact_multiple"], "quiet_period_commands_exact", c["exact_quiet"])
        if c.get("link_rate"):
            bw = cov["bounded_bandwidth"]
            _inc(bw, "histories")
            _inc(bw, "link_rate_%d" % c["link_rate"])
            if c["snapshot_transfer_longer_than_timeout"]:
                _inc(bw, "snapshot_transfer_longer_than_raftMaxTimeout")
                _inc(bw, "snapshot_transfer_longer_than_raftMaxTimeout_%s" % c["kind"])
                if c["kind"] == "slow_snapshot":
                    _inc(bw, "slow_snapshot_long_transfer_%s_%s" % ((p.get("var") or {}).get("who"),
                                                                     "file" if p.get("dumpfile") else "memory"))
            bw["max_snapshot_transfer_s"] = max(bw.get("max_snapshot_transfer_s", 0.0), c["snapshot_transfer_s"])
        if c.get("pending_steps") and c["none_heartbeats_after_heal"]:
            pd = cov["pending_dump"]
            _inc(pd, "histories")
            if c["pending_steps"] * DT > 1.5:
                _inc(pd, "pending_longer_than_raftMaxTimeout")
            if c["request_votes_of_lagging_node_after_heal"]:
                _inc(pd, "lagging_node_started_elections_after_heal")      # (observation only)
            pd["max_none_heartbeats"] = max(pd.get("max_none_heartbeats", 0), c["none_heartbeats_after_heal"])
        if c["dynamic_membership"]:
            dm = cov["dynamic_membership_option"]
            _inc(dm, "histories")
            if c["state_installed_by_snapshot"]:
                _inc(dm, "snapshot_installed_after_heal")
            if c["snapshot_node_left_without_its_leader"]:
                _inc(dm, "snapshot_node_left_without_its_leader")
                _inc(dm, "snapshot_node_left_without_its_leader_%s" % c["down_mode"])
        sp = c.get("split") or {}
        if sp.get("phases"):
            es = cov["even_split"]
            _inc(es, "histories_%s" % c["kind"])
            if sp.get("both_halves_voted"):
                _inc(es, "both_halves_ran_elections_%s" % c["kind"])
                if c["kind"] == "even_split":
                    _inc(es, "both_halves_ran_elections_%s_%s_%dv" % (c["variant"], c["split_mode"], c["nv"]))
            if sp.get("leader_with_half"):            # (coverage only: C05 speaks about the time after the heal)
                _inc(es, "histories_where_a_node_led_with_half_of_the_voters")
            if sp.get("same_term_leaders"):
                _inc(es, "histories_with_two_leaders_of_one_term_during_split")
        if c["walkback_longer_than_fallback"]:
            _inc(cov["walkback_longer_than_fallback"], c["kind"])
            _inc(cov["walkback_longer_than_fallback"], "T=%s" % (p.get("conf") or {}).get("leaderFallbackTimeout"))
        cov["max_walkback_rounds"] = max(cov["max_walkback_rounds"], c["walkback_rounds"])
        for k_, n_ in c["restarts"].items():
            if n_:
                _inc(cov["restarts"], k_, n_)
                _inc(cov["restarts"], "histories_with_" + k_)
                if k_ == "voter_stateless_match_beyond_log_end":
                    _inc(cov["restarts"], "leader_stays_%s_match_beyond_log_end" % c["variant"])
        _inc(cov["early_command_outcome"], "%s/%s" % (c["early"], "applied" if c["early_applied"] else "not-applied"))
        _inc(cov["t_leader_in_raftMaxTimeouts"], c["t_leader_bucket"])
        _inc(cov["t_sync_in_raftMaxTimeouts"], c["t_sync_bucket"])
        for k_, src in (("max_t_sync_s", "t_sync"), ("max_t_leader_s", "t_leader"), ("max_t_ack_s", "t_ack")):
            if c.get(src) is not None:
                cov[k_] = max(cov[k_], c[src])
        if c["snapshots_completed_after_heal"]:
            cov["snapshot_catchup_histories"] += 1
            if c["snapshot_chunks_after_heal"] >= 3 * c["snapshots_completed_after_heal"]:
                cov["multi_chunk_snapshot_histories"] += 1
        cov["snapshot_chunks_after_heal"] += c["snapshot_chunks_after_heal"]
        cov["state_installed_by_snapshot_histories"] += 1 if c["state_installed_by_snapshot"] else 0
        cov["stale_leader_at_heal"] += 1 if c["stale_leader_at_heal"] else 0
        cov["two_leaders_at_heal"] += 1 if c["leaders_at_heal"] >= 2 else 0
        cov["no_leader_at_heal"] += 1 if c["leaders_at_heal"] == 0 else 0
        cov["unnoticed_cuts_at_heal"] += 1 if c["unnoticed_at_heal"] else 0
        cov["held_messages_at_heal"] += 1 if c["held_at_heal"] else 0
        cov["term_spread_ge_3"] += 1 if c["term_spread"] >= 3 else 0
        cov["applied_spread_gt_0"] += 1 if c["applied_spread_at_heal"] > 0 else 0
        cov["reset_replies_after_heal"] += c["reset_replies_after_heal"]
        cov["histories_with_reset_reply"] += 1 if c["reset_replies_after_heal"] else 0
        cov["entry_batches_after_heal"] += c["entry_batches_after_heal"]
        cov["elections_after_heal_histories"] += 1 if c["request_votes_after_heal"] else 0
        cov["dumpfile_histories"] += 1 if p.get("dumpfile") else 0
        conf = p.get("conf") or {}
        cov["auto_compaction_histories"] += 1 if conf.get("logCompactionMinEntries", 5000) < 100 else 0
        cov["small_batch_histories"] += 1 if conf.get("appendEntriesBatchSizeBytes", BIG) < BIG else 0
        cov["fallback_le_2s_histories"] += 1 if conf.get("leaderFallbackTimeout", 30.0) <= 2.0 else 0
        cov["fault_events"] += c["fault_events"]
        cov["submissions"] += c["submissions"]
        cov["compactions"] += c["compactions"]
        cov["corpus_histories"] += 1 if p.get("corpus") else 0
        for v in r["viol"]:
            _inc(cov["violating_histories"], v["signature"])
            if v["signature"] in sigs or len(viols) >= 5:
                continue
            sigs.add(v["signature"])
            q = dict((k, x) for k, x in p.items() if k != "corpus")
            for k_ in ("early", "post"):
                if r["resolved"].get(k_):
                    q[k_] = r["resolved"][k_]
            q["down"] = list(r["resolved"].get("down") or [])
            ev = r["events"]
            n0 = len(ev)
            if time.time() - t0 < ctx.budget_s * 0.8:
                ev = shrink(ctx.repo, q, ev, v["signature"], workdir,
                            budget_s=min(ctx.scale(8.0, 60.0), max(1.0, ctx.budget_s * 0.9 - (time.time() - t0))))
            q["events"] = ev
            vv = dict(v)
            vv["what"] = "%s [history: kind=%s, %d voters + %d read-only, %d events (shrunk from %d), conf %s]" \
                         % (v["what"], p["kind"], p["nv"], p["no"], len(ev), n0, json.dumps(p.get("conf"), sort_keys=True))
            vv["replay"] = {"params": q}
            viols.append(vv)

    # causes before consequences (a replica that stays behind also loses its callbacks)
    order = ["convergence:no-single-leader", "convergence:terms-keep-growing", "convergence:replica-stays-behind", "convergence:states-differ",
             "tick:", "convergence:post-heal"]
    viols.sort(key=lambda v: min([i for i, pre in enumerate(order) if v["signature"].startswith(pre)] or [9]))
    samples = [dict((k, v) for k, v in r["p"].items() if k != "events") for r in results[:1]] + \
              [{"params": dict((k, v) for k, v in r["p"].items() if k != "events"), "observed": r["cov"]}
               for r in results if not r.get("error") and r["cov"].get("snapshots_completed_after_heal")][:1]
    res = {"cases": len(results), "distinct": len(distinct), "coverage": cov, "samples": samples, "disagreements": [],
           "violations": viols[:5], "wall_s": round(time.time() - t0, 2),
           "notes": "validation of C05 on real clusters (monitor), not the proof"}
    if errors:
        res["error"] = "history could not be executed: " + errors[0]
    getattr(simmod, "restore_runtime", lambda: None)()      # components that need the real clock may run after this one
    floors = []
    need = ctx.scale(40, 1500)
    if cov["histories"] < need:
        floors.append("histories %d < %d" % (cov["histories"], need))
    if cov["snapshot_catchup_histories"] < ctx.scale(6, 150):
        floors.append("snapshot catch-ups %d" % cov["snapshot_catchup_histories"])
    if cov["multi_chunk_snapshot_histories"] < ctx.scale(4, 100):
        floors.append("multi-chunk snapshots %d" % cov["multi_chunk_snapshot_histories"])
    if cov["stale_leader_at_heal"] + cov["two_leaders_at_heal"] < ctx.scale(4, 100):
        floors.append("stale/two leaders at heal %d" % (cov["stale_leader_at_heal"] + cov["two_leaders_at_heal"]))
    if cov["histories_with_reset_reply"] < ctx.scale(6, 150):
        floors.append("histories with rejected appends %d" % cov["histories_with_reset_reply"])
    if len(cov["by_voters"]) < 4:
        floors.append("cluster sizes %s" % sorted(cov["by_voters"]))
    if sum(v for k, v in cov["by_observers"].items() if k != "0") < ctx.scale(8, 300):
        floors.append("histories with read-only nodes too few")
    if len(cov["post_node"]) < 3:
        floors.append("post-heal submission targets %s" % sorted(cov["post_node"]))
    md = cov["healed_with_minority_down"]
    if md["histories"] < ctx.scale(40, 1000) or md.get("noticed", 0) < ctx.scale(12, 300) or md.get("silent", 0) < ctx.scale(12, 300):
        floors.append("healed with a minority down: %d (noticed %d, silent %d)" % (md["histories"], md.get("noticed", 0), md.get("silent", 0)))
    if len(md["by_kind"]) < 8:
        floors.append("kinds healed with a minority down: %s" % sorted(md["by_kind"]))
    rs = cov["restarts"]
    for k_, q_, t_ in (("histories_with_observer_confirmed_leader_unchanged", 8, 200),
                       ("histories_with_observer_in_snapshot_transfer", 4, 80),
                       ("histories_with_voter_kills_journaled", 8, 200),
                       ("leader_stays_empty_match_beyond_log_end", 5, 80),
                       ("leader_stays_dump_only_match_beyond_log_end", 5, 80)):
        if rs.get(k_, 0) < ctx.scale(q_, t_):
            floors.append("restarts: %s = %d" % (k_, rs.get(k_, 0)))
    om = cov["oversized_exact_multiple"]
    for k_ in ("2", "3", "4"):
        if om.get(k_, 0) < 1:
            floors.append("no over-sized entry of exactly %s batches was sent" % k_)
    if om.get("stale_leader_histories_with_oversized_entry_during_walkback", 0) < ctx.scale(4, 25):
        floors.append("stale_leader histories with an over-sized entry met during the walk back: %d"
                      % om.get("stale_leader_histories_with_oversized_entry_during_walkback", 0))
    if om.get("quiet_period_commands_exact", 0) < 2:
        floors.append("quiet-period commands of exact batch multiples: %d" % om.get("quiet_period_commands_exact", 0))
    bw = cov["bounded_bandwidth"]
    if bw.get("snapshot_transfer_longer_than_raftMaxTimeout_slow_snapshot", 0) < ctx.scale(6, 100):
        floors.append("slow_snapshot histories whose transfer outlasted raftMaxTimeout: %d"
                      % bw.get("snapshot_transfer_longer_than_raftMaxTimeout_slow_snapshot", 0))
    for v_ in ("voter_memory", "voter_file", "observer_memory", "observer_file"):
        if bw.get("slow_snapshot_long_transfer_" + v_, 0) < 1:
            floors.append("slow_snapshot variant %s never had a long transfer" % v_)
    if bw.get("histories", 0) < ctx.scale(40, 1000):
        floors.append("histories with bounded bandwidth: %d" % bw.get("histories", 0))
    if cov["pending_dump"].get("pending_longer_than_raftMaxTimeout", 0) < 2:
        floors.append("pending_dump histories with `serialized: None` for longer than raftMaxTimeout: %d"
                      % cov["pending_dump"].get("pending_longer_than_raftMaxTimeout", 0))
    dm = cov["dynamic_membership_option"]
    if dm.get("histories", 0) < ctx.scale(80, 2000) or dm.get("snapshot_node_left_without_its_leader", 0) < 4:
        floors.append("dynamicMembershipChange: %d histories, snapshot node left without its leader %d"
                      % (dm.get("histories", 0), dm.get("snapshot_node_left_without_its_leader", 0)))
    es = cov["even_split"]
    if es.get("both_halves_ran_elections_even_split", 0) < ctx.scale(6, 150):
        floors.append("even_split histories in which both halves ran elections during the split: %d"
                      % es.get("both_halves_ran_elections_even_split", 0))
    for v_ in ("startup_silent_4v", "startup_noticed_4v", "later_silent_4v", "later_noticed_4v"):
        if es.get("both_halves_ran_elections_" + v_, 0) < 1:
            floors.append("even_split variant %s never had elections in both halves" % v_)
    if cov["walkback_longer_than_fallback"].get("long_walkback", 0) < ctx.scale(5, 6):
        floors.append("long_walkback histories whose walk back outlasted leaderFallbackTimeout: %d"
                      % cov["walkback_longer_than_fallback"].get("long_walkback", 0))
    ol = cov["old_long_vs_new_short"]
    for k_ in ("longer_older_vs_shorter_newer_bare_majority_3", "longer_older_vs_shorter_newer_bare_majority_5",
               "shorter_older_vs_longer_newer_bare_majority_3", "shorter_older_vs_longer_newer_bare_majority_5"):
        if ol.get(k_, 0) < ctx.scale(1, 10):
            floors.append("old_long_vs_new_short: shape %s reached %d times" % (k_, ol.get(k_, 0)))
    if floors and not viols:
        res["inconclusive"] = "coverage floor missed: " + "; ".join(floors)
    return res


def replay(ctx, violation):
    p = violation["replay"]["params"]
    workdir, own = _scratch(ctx)
    try:
        r = scenario(ctx.repo, p, workdir)
    finally:
        if own:
            import shutil
            shutil.rmtree(workdir, ignore_errors=True)
    return {"violated": any(v["signature"] == violation["signature"] for v in r["viol"]),
            "violations": r["viol"][:5], "observed": r["cov"]}
