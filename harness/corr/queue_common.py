"""Shared helpers of the `queue` component (C19): loading the tree under test, a recording
un-networked transport, Python value <-> driver JSON conversion.  Not a component (no PROPERTIES line)."""
import contextlib
import gc
import importlib
import os
import sys
import threading


def load(ctx):
    """Import pysyncobj from ctx.repo (and nowhere else). Returns the module `pysyncobj.syncobj`."""
    repo = os.path.abspath(ctx.repo)
    if repo not in sys.path:
        sys.path.insert(0, repo)
    import pysyncobj
    if not os.path.abspath(pysyncobj.__file__).startswith(repo + os.sep):
        # another copy was imported earlier in this process: drop it and re-import
        for k in [k for k in sys.modules if k == "pysyncobj" or k.startswith("pysyncobj.")]:
            del sys.modules[k]
        sys.path.remove(repo)
        sys.path.insert(0, repo)
        pysyncobj = importlib.import_module("pysyncobj")
        assert os.path.abspath(pysyncobj.__file__).startswith(repo + os.sep), pysyncobj.__file__
    import pysyncobj.syncobj as so
    return so


class _SeededRandomModule(object):
    """stands in for the `random` module inside pysyncobj.syncobj: every draw (module functions AND
    `random.SystemRandom()`, which the code uses for the start value of commandsLocalCounter) comes from one private
    `random.Random(seed)`, so a run replays from VERIF_SEED"""

    def __init__(self, seed):
        import random as _random
        self._mod = _random
        self._r = _random.Random(seed)

    def SystemRandom(self, *a):
        return self._r

    def Random(self, *a):
        return self._r

    def __getattr__(self, name):
        r = self.__dict__["_r"]
        if hasattr(r, name):
            return getattr(r, name)
        return getattr(self.__dict__["_mod"], name)


@contextlib.contextmanager
def real_runtime(so, seed=None):
    """Run pysyncobj on its GENUINE clock and PRNG for the duration of the block, whatever earlier
    components of this process left patched into the modules (harness/sim.py installs a virtual
    `monotonicTime` and a scripted `random` and never removes them: with a frozen clock no election
    ever happens).  With `seed`, pysyncobj.syncobj draws from a private `random.Random(seed)` (election
    time-outs, start value of commandsLocalCounter), so a run replays.  The previous values are put back
    afterwards."""
    import random as _random
    import pysyncobj.transport as tr
    import pysyncobj.tcp_connection as tc
    from pysyncobj.monotonic import monotonic
    saved = (so.monotonicTime, tr.monotonicTime, tc.monotonicTime, so.random)
    so.monotonicTime = monotonic
    tr.monotonicTime = monotonic
    tc.monotonicTime = monotonic
    so.random = _random if seed is None else _SeededRandomModule(seed)   # same API, private state
    try:
        yield
    finally:
        so.monotonicTime, tr.monotonicTime, tc.monotonicTime, so.random = saved


def fd_count():
    """open descriptors of this process (after a collection: sockets / files of dropped objects are closed by it)"""
    gc.collect()
    try:
        return len(os.listdir("/proc/self/fd"))
    except OSError:
        return -1


def close_node(o):
    """destroy a SyncObj made by the harness AND close what `destroy` leaves open: `_doDestroy` closes the transport
    and the journal, not the two ends of the PipeNotifier's pipe (`appendEntriesUseBatch=False`).  The tick thread of an
    autoTick node is joined first (never close a descriptor under a live poller)."""
    th = o.__dict__.get("_SyncObj__thread")
    try:
        o.destroy()
    except Exception:   # noqa
        pass
    if th is not None and th is not threading.current_thread():
        th.join(10)
        if th.is_alive():
            return False
    pn = o.__dict__.get("_SyncObj__pipeNotifier")
    if pn is not None:
        for name in ("_PipeNotifier__pipeR", "_PipeNotifier__pipeW"):
            fd = pn.__dict__.get(name)
            if isinstance(fd, int):
                try:
                    o._poller.unsubscribe(fd)
                except Exception:   # noqa
                    pass
                try:
                    os.close(fd)
                except OSError:
                    pass
                pn.__dict__[name] = -1
    return True


def fd_audit(res, before, slack=20):
    """record the descriptor count before / after a component run; a harness that leaks descriptors breaks later
    components of the same process (select() fails beyond 1024), so a leak makes the run inconclusive"""
    after = fd_count()
    cov = res.setdefault("coverage", {})
    cov["fds_before"], cov["fds_after"] = before, after
    if before >= 0 and after > before + slack and not res.get("inconclusive") and not res.get("violations"):
        res["inconclusive"] = "descriptor leak in the harness: %d open before the run, %d after" % (before, after)
    return res


def make_transport_class(so):
    from pysyncobj.transport import Transport

    class RecTransport(Transport):
        """No network: every send is recorded."""

        def __init__(self, syncObj, selfNode, otherNodes):
            super().__init__(syncObj, selfNode, otherNodes)
            self.sent = []
            self.ready_ = True

        @property
        def ready(self):
            return True

        def tryGetReady(self):
            pass

        def waitReady(self):
            pass

        def send(self, node, message):
            self.sent.append((node, message))
            return True

        def addNode(self, node):
            pass

        def dropNode(self, node):
            pass

        def destroy(self):
            pass

    return RecTransport


# ---------------------------------------------------------------------------------------------
# Python values <-> driver JSON ("V" of the line protocol)
# ---------------------------------------------------------------------------------------------
def to_v(x):
    if x is None or isinstance(x, (bool, str)):
        return x
    if isinstance(x, int):
        return x
    if isinstance(x, float):         # not a modelled value (e.g. a computed remaining time): shows up as a difference
        return {"float": round(x, 2)}
    if isinstance(x, tuple):
        return {"t": [to_v(y) for y in x]}
    if isinstance(x, list):          # *args given as a list on the applying side (`args = []`)
        return {"t": [to_v(y) for y in x]}
    if isinstance(x, dict):
        return {"d": [[k, to_v(v)] for k, v in x.items()]}
    if callable(x):                  # a callback value: the model only looks at `is not None`
        return 1
    raise TypeError("not a modelled value: %r" % (x,))


def from_v(j):
    if j is None or isinstance(j, (bool, str, int)):
        return j
    if "t" in j:
        return tuple(from_v(y) for y in j["t"])
    return {k: from_v(v) for k, v in j["d"]}


def kw_to_j(kw):
    return [[k, to_v(v)] for k, v in kw.items()]


def canon(x):
    """hashable canonical form of a JSON-able structure"""
    import json
    return json.dumps(x, sort_keys=True, separators=(",", ":"))
