"""Correspondence `serializer.chunks` + property monitors for the chunked snapshot transfer (C09).

Real `pysyncobj.serializer.Serializer` objects (a sender and a receiver; memory mode and file mode, inline and
— a few times per run — real fork) execute random and directed interleavings of
{send chunk, burst with budget, deliver, reconnect (in-flight chunks lost), cancel, new snapshot by serialize +
checkSerializing, snapshot installed from a third node, receiver's own compaction, receiver restart};
after every event the chunk tuples, return values, the complete private state of both objects (pid, id,
transmissions with offset and content, incoming file, dump/tmp/.1.tmp bytes) and the channel length are
compared with the Lean model run by `driver serializer` on the same events.

Monitors (written against the property text, not the model), on every case of the repaired event alphabet:
  * every completed transfer (`setTransmissionData` returned True) left the receiver's store equal to a byte
    string the sender's store held at some time;
  * a transfer that is not interrupted ends with exactly one True, at the last chunk, and
    `deserialize()` on the receiver returns the very tuple the sender serialized.
"""
import json
import os
import time

from harness.corr import serializer_common as sc

PROPERTIES = ["C09"]
ORDER = 50

MODES = ("memory", "file")


# ------------------------------------------------------------------------------------------------
# generators
# ------------------------------------------------------------------------------------------------
def rand_bytes(rng, n):
    return bytes(rng.randrange(256) for _ in range(n))


def sizes_for(c):
    return sorted(set([0, 1, max(c - 1, 0), c, c + 1, 2 * c, 2 * c + 1, 3 * c]))


def directed_cases(rng):
    """Systematic part: every mode pair x chunk size x boundary data size, whole transfers and each kind of
    interruption once per mode pair."""
    cases = []
    for sm in MODES:
        for rm in MODES:
            for c in (1, 2, 3, 5, 64):
                for size in sizes_for(c):
                    if size > 130:
                        continue
                    d = rand_bytes(rng, size)
                    n = size // c + 3
                    evs = [{"e": "sndInstall", "d": sc.hx(d)}, {"e": "burst", "b": 1000}] + [{"e": "deliver"}] * n
                    cases.append(({"sm": sm, "rm": rm, "sf": False, "rf": False, "sb": c, "rb": c},
                                  evs, {"kind": "whole", "expect": sc.hx(d)}))
            for c in (1, 3):
                d1, d2 = rand_bytes(rng, 7), rand_bytes(rng, 8)
                inst = {"e": "sndInstall", "d": sc.hx(d1)}
                rest = [{"e": "burst", "b": 100}] + [{"e": "deliver"}] * 14
                cfg = {"sm": sm, "rm": rm, "sf": False, "rf": False, "sb": c, "rb": c}
                pre = [inst, {"e": "burst", "b": 2}, {"e": "deliver"}]
                cases.append((cfg, pre + [{"e": "reconnect", "c": True}] + rest, {"kind": "reconnect"}))
                cases.append((cfg, pre + [{"e": "deliver"}, {"e": "cancel"}] + rest, {"kind": "cancel"}))
                cases.append((cfg, pre + [{"e": "rcvRestart", "c": True}] + rest, {"kind": "rcvRestart"}))
                cases.append((cfg, pre + [{"e": "sndInstall", "d": sc.hx(d2)}] + rest + rest, {"kind": "install-mid"}))
                cases.append((cfg, pre + [{"e": "serialize", "id": 5, "n": 4}, {"e": "send"}, {"e": "check"}] + rest,
                              {"kind": "new-snapshot"}))
                cases.append((cfg, pre + [{"e": "serialize", "id": 5, "n": 4, "bad": True}, {"e": "send"},
                                          {"e": "check"}] + rest, {"kind": "failed-snapshot"}))
                cases.append((cfg, [{"e": "send"}, {"e": "deliver"}, {"e": "check"}] + pre +
                              [{"e": "rcvSerialize", "id": 2, "n": 2}, {"e": "rcvCheck"}] + rest, {"kind": "rcv-compacts"}))
                cases.append((cfg, pre + [{"e": "sendOther", "n": 0}, {"e": "sendOther", "n": 0}, {"e": "sendOther", "n": 3}]
                              + rest, {"kind": "two-destinations"}))
                # the pinned behaviour (no cancel at the reconnect): model and code must agree on the torn result too
                cases.append((cfg, pre + [{"e": "reconnect", "c": False}] + rest, {"kind": "reconnect-nocancel", "unrepaired": True}))
    # a whole transfer of a really serialized snapshot, per mode pair (pickle/gzip exercised for real)
    for sm in MODES:
        for rm in MODES:
            for c in (1, 7, 4096):
                evs = [{"e": "serialize", "id": 9, "n": 6}, {"e": "check"}, {"e": "burst", "b": 100000}] + [{"e": "deliver"}] * 400
                cases.append(({"sm": sm, "rm": rm, "sf": False, "rf": False, "sb": c, "rb": c}, evs,
                              {"kind": "whole-serialized", "expect_data": [9, 6]}))
    return cases


def with_install(cases):
    """Directed cases: every delivery that completes a transfer is followed by finishIncoming(True) unless it says otherwise."""
    out = []
    for cfg, evs, meta in cases:
        evs2 = []
        for e in evs:
            e = dict(e)
            if e["e"] == "deliver" and "fin" not in e:
                e["fin"] = True
            evs2.append(e)
        out.append((cfg, evs2, meta))
    return out


def d70_cases(rng):
    """D70: a complete transfer that is rejected (finishIncoming(False)) or whose load raises (no finishIncoming) leaves the
    stored snapshot alone; a later accepted one replaces it."""
    cases = []
    for sm in MODES:
        for rm in MODES:
            cfg = {"sm": sm, "rm": rm, "sf": False, "rf": False, "sb": 3, "rb": 3}
            d0, d1 = rand_bytes(rng, 5), rand_bytes(rng, 7)
            own = [{"e": "rcvSerialize", "id": 2, "n": 2}, {"e": "rcvCheck"}]
            whole = lambda fin: [{"e": "burst", "b": 100}] + [{"e": "deliver", "fin": fin}] * 5
            cases.append((cfg, own + [{"e": "sndInstall", "d": sc.hx(d1)}] + whole(False) + whole(None) + whole(True),
                          {"kind": "d70-reject-raise-install"}))
            cases.append((cfg, own + [{"e": "sndInstall", "d": sc.hx(d0)}] + whole(None) +
                          [{"e": "burst", "b": 2}, {"e": "deliver", "fin": True}, {"e": "rcvRestart", "c": True}] + whole(False),
                          {"kind": "d70-raise-then-partial"}))
    return cases


def fork_cases():
    if not hasattr(os, "fork"):
        return []
    cases = []
    for bad in (False, True):
        evs = [{"e": "sndInstall", "d": "0102030405"}, {"e": "burst", "b": 2},
               {"e": "serialize", "id": 4, "n": 5, "bad": bad}, {"e": "send"}, {"e": "childRun"}, {"e": "check"},
               {"e": "burst", "b": 100000}] + [{"e": "deliver"}] * 40
        cases.append(({"sm": "file", "rm": "file", "sf": True, "rf": False, "sb": 16, "rb": 16}, evs,
                      {"kind": "fork-bad" if bad else "fork"}))
    # D66: the follower's own fork dump is started (a) before the first chunk, (b) between chunks, (c) right before
    # the last chunk of a complete snapshot from the leader; the install must leave no child behind in each case
    tail = [{"e": "rcvChildRun"}, {"e": "rcvCheck"}, {"e": "rcvSerialize", "id": 8, "n": 3}, {"e": "rcvChildRun"}, {"e": "rcvCheck"}]
    own = {"e": "rcvSerialize", "id": 3, "n": 2}
    for pos in (0, 1, 2):        # 8 bytes in chunks of 4 = 3 deliveries (two data chunks and the empty last one)
        evs = [{"e": "sndInstall", "d": "0102030405060708"}, {"e": "burst", "b": 100000}]
        for i in range(3):
            if i == pos:
                evs.append(dict(own))
            evs.append({"e": "deliver"})
        cases.append(({"sm": "memory", "rm": "file", "sf": False, "rf": True, "sb": 4, "rb": 4}, evs + [dict(e) for e in tail],
                      {"kind": "fork-install-over-own-dump"}))
    return cases


def random_case(rng, unrepaired):
    sm, rm = rng.choice(MODES), rng.choice(MODES)
    c = rng.choice((1, 1, 2, 3, 4, 5, 8, 16, 64))
    cfg = {"sm": sm, "rm": rm, "sf": False, "rf": False, "sb": c, "rb": rng.choice((1, c, 64))}
    evs = []
    if rng.random() < 0.9:
        evs.append({"e": "sndInstall", "d": sc.hx(rand_bytes(rng, rng.choice(sizes_for(c) + [rng.randrange(40)])))})
    for _ in range(rng.randrange(10, 60)):
        x = rng.random()
        if x < 0.27:
            evs.append({"e": "send"})
        elif x < 0.37:
            evs.append({"e": "burst", "b": rng.choice((1, 2, 3, 5, 1000))})
        elif x < 0.67:
            y = rng.random()
            evs.append({"e": "deliver", "fin": True if y < 0.7 else (False if y < 0.9 else None)})
        elif x < 0.72:
            evs.append({"e": "reconnect", "c": (rng.random() < 0.5) if unrepaired else True})
        elif x < 0.75:
            evs.append({"e": "cancel"})
        elif x < 0.80:
            size = rng.choice(sizes_for(c) + [rng.randrange(40)])
            evs.append({"e": "sndInstall", "d": sc.hx(rand_bytes(rng, min(size, 130)))})
        elif x < 0.85:
            evs.append({"e": "serialize", "id": rng.randrange(1, 50), "n": rng.randrange(0, 8), "bad": rng.random() < 0.2})
            if rng.random() < 0.7:
                if rng.random() < 0.5:
                    evs.append({"e": "send"})
                evs.append({"e": "check"})
        elif x < 0.89:
            evs.append({"e": "check"})
        elif x < 0.92:
            evs.append({"e": "sendOther", "n": rng.randrange(3)})
        elif x < 0.95:
            evs.append({"e": "rcvSerialize", "id": rng.randrange(1, 50), "n": rng.randrange(0, 4), "bad": rng.random() < 0.2})
        elif x < 0.98:
            evs.append({"e": "rcvCheck"})
        else:
            evs.append({"e": "rcvRestart", "c": (rng.random() < 0.5) if unrepaired else True})
    return cfg, evs, {"kind": "random-any" if unrepaired else "random", "unrepaired": unrepaired}


# ------------------------------------------------------------------------------------------------
# running one case on the real code
# ------------------------------------------------------------------------------------------------
def run_real(sermod, workdir, cfg, evs, tag="l"):
    link = sc.RealLink(sermod, workdir, cfg["sm"], cfg["rm"], cfg["sf"], cfg["rf"], cfg["sb"], cfg["rb"], tag)
    devs, steps, store_changes = [], [], []
    try:
        for i, ev in enumerate(evs):
            before = link.store("R")
            dev, out = link.do(dict(ev))
            devs.append(dev)
            st = link.state()
            st["out"] = out
            steps.append(st)
            after = link.store("R")
            if after != before:
                store_changes.append([i, ev["e"], ev.get("fin"), out if ev["e"] == "deliver" else None, sc.hx(after)])
        info = {"held": [sc.hx(b) for b in link.held], "completed": [sc.hx(b) for b in link.completed],
                "rcv_deser": None, "store_changes": store_changes, "rcv_store": sc.hx(link.store("R"))}
        if link.completed:
            try:
                info["rcv_deser"] = repr(link.R.deserialize())
            except Exception as e:
                info["rcv_deser"] = "ERR " + type(e).__name__
    finally:
        link.close()
    line = dict(link.header())
    line["evs"] = devs
    return line, steps, info


def monitor(cfg, evs, meta, steps, info):
    """Property statement on the real run.  Returns a list of violations."""
    viols = []
    if not meta.get("unrepaired"):
        heldset = set(info["held"])
        for b in info["completed"]:
            if b is None:
                viols.append({"signature": "serializer.transfer:completed-snapshot-missing",
                              "what": "a snapshot transfer completed (setTransmissionData returned True) but the received snapshot "
                                      "is missing or unreadable where deserialize(incoming=True) / finishIncoming look for it "
                                      "(another writer removed, truncated or renamed the file); mode %s->%s, chunk size %d"
                                      % (cfg["sm"], cfg["rm"], cfg["sb"])})
                break
            if b not in heldset:
                viols.append({"signature": "serializer.transfer:completed-bytes-not-held",
                              "what": "a snapshot transfer completed (setTransmissionData returned True) with %d bytes that "
                                      "equal no snapshot the sender ever held (held sizes %s); mode %s->%s, chunk size %d"
                                      % (len(b) // 2, [len(h) // 2 for h in info["held"]], cfg["sm"], cfg["rm"], cfg["sb"])})
                break
    # D70: the follower's stored snapshot changes only through its own dump, a restart, or an accepted install of
    # bytes the sender held
    for i, e, fin, out, after in info.get("store_changes", []):
        ok = e in ("rcvSerialize", "rcvChildRun", "rcvRestart") or \
            (e == "deliver" and fin is True and out and out[0] is True and (meta.get("unrepaired") or after in set(info["held"])))
        if not ok:
            viols.append({"signature": "serializer.store:changed-without-install",
                          "what": "the follower's stored snapshot changed at event %d (%s, finishIncoming argument %s, returned %s) "
                                  "although it neither wrote a dump of its own nor installed a received snapshot the sender held; "
                                  "mode %s->%s" % (i, e, fin, out, cfg["sm"], cfg["rm"])})
            break
    if meta.get("kind") in ("whole", "whole-serialized"):
        rets = [s["out"][0] for s, e in zip(steps, evs) if e["e"] == "deliver" and s["out"] is not None]
        ok = rets.count(True) == 1 and rets and rets[-1] is True
        if meta.get("expect") is not None:
            ok = ok and info["completed"] == [meta["expect"]] and info["rcv_store"] == meta["expect"]
        if meta.get("expect_data") is not None:
            ident, n = meta["expect_data"]
            ok = ok and info["rcv_deser"] == repr(sc.mk_data(ident, n, False))
        if not ok:
            viols.append({"signature": "serializer.transfer:roundtrip-mismatch",
                          "what": "an uninterrupted transfer (mode %s->%s, chunk size %d) did not deliver the snapshot exactly "
                                  "once: delivery results %s, completed %s, expected %s"
                                  % (cfg["sm"], cfg["rm"], cfg["sb"], rets[-6:], [None if b is None else len(b) // 2 for b in info["completed"]],
                                     meta.get("expect") or meta.get("expect_data"))})
    return viols


def strip_fs(model_ser, real_ser):
    if "dump" not in real_ser:
        model_ser = dict(model_ser)
        for k in ("dump", "tmp", "tmp1"):
            model_ser.pop(k, None)
    return model_ser


def compare(line, steps, info, mout):
    """First difference between the real run and the model's answer (None = agree)."""
    if "error" in mout:
        return "driver error: " + mout["error"]
    msteps = mout["steps"]
    if len(msteps) != len(steps):
        return "step count %d != %d" % (len(msteps), len(steps))
    for i, (r, m) in enumerate(zip(steps, msteps)):
        m = dict(m)
        m["snd"] = strip_fs(m["snd"], r["snd"])
        m["rcv"] = strip_fs(m["rcv"], r["rcv"])
        d = sc.first_diff(m, r, "step[%d:%s]" % (i, line["evs"][i]["e"]))
        if d:
            return d
    if list(reversed(mout["completed"])) != info["completed"]:
        return "completed: model %s impl %s" % (mout["completed"], info["completed"])
    if set(mout["held"]) != set(info["held"]):
        return "held sets differ"
    return None


def shrink(ctx, sermod, workdir, cfg, evs, meta, pred):
    """Greedy event-dropping while `pred(cfg, evs)` stays true."""
    evs = list(evs)
    changed = True
    budget = 200
    while changed and budget > 0:
        changed = False
        for i in range(len(evs) - 1, -1, -1):
            budget -= 1
            if budget <= 0:
                break
            cand = evs[:i] + evs[i + 1:]
            try:
                if pred(cfg, cand):
                    evs = cand
                    changed = True
            except Exception:
                pass
    return evs


def disagree_pred(ctx, sermod, workdir):
    def pred(cfg, evs):
        line, steps, info = run_real(sermod, workdir, cfg, evs, tag="shrink")
        mout = json.loads(ctx.driver("serializer", [json.dumps(line)])[0])
        return compare(line, steps, info, mout) is not None
    return pred


def viol_pred(sermod, workdir, meta, signature):
    def pred(cfg, evs):
        line, steps, info = run_real(sermod, workdir, cfg, evs, tag="shrink")
        m = dict(meta)
        if m.get("kind") in ("whole", "whole-serialized"):
            return False          # the expectation is tied to the full event list
        return any(v["signature"] == signature for v in monitor(cfg, evs, m, steps, info))
    return pred


# ------------------------------------------------------------------------------------------------
def load_corpus(ctx):
    d = os.path.join(ctx.verif, "corpus", "serializer")
    out = []
    if os.path.isdir(d):
        for fn in sorted(os.listdir(d)):
            if fn.endswith(".json"):
                j = json.load(open(os.path.join(d, fn)))
                if j.get("kind") == "link":
                    out.append((j["cfg"], j["evs"], j.get("meta", {"kind": "corpus"})))
    return out


def run(ctx):
    t0 = time.time()
    sermod = sc.load(ctx.repo)
    workdir = ctx.tmpdir()
    rng = ctx.rng("serializer.chunks")
    cases = with_install(load_corpus(ctx) + directed_cases(rng) + fork_cases()) + d70_cases(rng)
    nrand = ctx.scale(500, 20000)
    for i in range(nrand):
        cases.append(random_case(rng, unrepaired=(i % 4 == 3)))
    cov = {"events": {}, "chunk_flags": {}, "deliver": {}, "kinds": {}, "modes": {}, "size_class": {},
           "torn_completions_in_unrepaired_stream": 0, "fork_runs": 0, "status": {}}
    lines, reals, seen = [], [], set()
    viols, disagreements, samples = [], [], []
    deadline = t0 + ctx.budget_s * (0.6 if ctx.tier == "quick" else 0.8)
    for idx, (cfg, evs, meta) in enumerate(cases):
        if time.time() > deadline and idx > 400:
            break
        line, steps, info = run_real(sermod, workdir, cfg, evs)
        lines.append(json.dumps(line))
        reals.append((cfg, evs, meta, line, steps, info))
        seen.add(sc.canon_hash([cfg, evs]))
        # coverage
        cov["kinds"][meta["kind"]] = cov["kinds"].get(meta["kind"], 0) + 1
        mk = "%s->%s" % (cfg["sm"], cfg["rm"])
        cov["modes"][mk] = cov["modes"].get(mk, 0) + 1
        if cfg["sf"]:
            cov["fork_runs"] += 1
        for e, s in zip(evs, steps):
            cov["events"][e["e"]] = cov["events"].get(e["e"], 0) + 1
            outs = []
            if e["e"] in ("send", "sendOther"):
                outs = [s["out"]]
            elif e["e"] == "burst":
                outs = s["out"]
            for o in outs:
                k = "None" if o is None else "%s%s%s" % ("F" if o[1] else "-", "L" if o[2] else "-", "" if o[0] else "/empty")
                cov["chunk_flags"][k] = cov["chunk_flags"].get(k, 0) + 1
                if o is not None and o[0]:
                    n = len(o[0]) // 2
                    sk = "full" if n == cfg["sb"] else "short"
                    cov["size_class"][sk] = cov["size_class"].get(sk, 0) + 1
            if e["e"] == "deliver":
                o = s["out"]
                k = "empty-channel" if o is None else ("not-complete" if not o[0] else
                                                       "completed/" + {True: "install", False: "reject", None: "load-raises"}[e.get("fin")])
                cov["deliver"][k] = cov["deliver"].get(k, 0) + 1
            if e["e"] in ("check", "rcvCheck"):
                cov["status"][s["out"][0]] = cov["status"].get(s["out"][0], 0) + 1
        if meta.get("unrepaired"):
            heldset = set(info["held"])
            cov["torn_completions_in_unrepaired_stream"] += sum(1 for b in info["completed"] if b not in heldset)
        for v in monitor(cfg, evs, meta, steps, info):
            if len(viols) < 3:
                small = shrink(ctx, sermod, workdir, cfg, evs, meta, viol_pred(sermod, workdir, meta, v["signature"]))
                v["replay"] = {"component": "corr.serializer_chunks", "cfg": cfg, "evs": small, "meta": meta}
                viols.append(v)
        if len(samples) < 2 and meta["kind"] in ("reconnect", "random"):
            samples.append({"cfg": cfg, "events": [e["e"] for e in evs][:30], "completed_sizes": [None if b is None else len(b) // 2 for b in info["completed"]]})
    mouts = ctx.driver("serializer", lines)
    if len(mouts) != len(lines):
        disagreements.append({"input": "batch", "model": "%d answers" % len(mouts), "impl": "%d cases" % len(lines),
                              "note": "driver returned a different number of lines"})
    else:
        for (cfg, evs, meta, line, steps, info), mo in zip(reals, mouts):
            d = compare(line, steps, info, json.loads(mo))
            if d:
                if len(disagreements) < 3:
                    small = shrink(ctx, sermod, workdir, cfg, evs, meta, disagree_pred(ctx, sermod, workdir))
                    l2, s2, i2 = run_real(sermod, workdir, cfg, small, tag="rep")
                    m2 = json.loads(ctx.driver("serializer", [json.dumps(l2)])[0])
                    disagreements.append({"input": {"cfg": cfg, "evs": small}, "note": compare(l2, s2, i2, m2) or d,
                                          "model": {"completed": m2.get("completed")}, "impl": {"completed": i2["completed"]}})
                else:
                    break
    res = {"cases": len(reals), "distinct": len(seen), "coverage": cov, "samples": samples,
           "disagreements": disagreements, "violations": viols, "wall_s": round(time.time() - t0, 2)}
    # coverage floors (met by the directed part on an unchanged tree)
    need = [("chunk_flags", k) for k in ("F-", "--", "-L/empty", "FL/empty", "None")] + \
           [("deliver", k) for k in ("completed/install", "completed/reject", "completed/load-raises", "not-complete")] + \
           [("events", k) for k in ("reconnect", "cancel", "serialize", "check", "sndInstall", "rcvRestart", "sendOther")] + \
           [("status", k) for k in ("success", "failed", "notSerializing")]
    missing = [("%s.%s" % (a, b)) for a, b in need if not cov[a].get(b)]
    if cov["torn_completions_in_unrepaired_stream"] == 0:
        missing.append("torn completion in the unrepaired stream (model/code agreement on the D18 behaviour)")
    if hasattr(os, "fork") and cov["fork_runs"] == 0:
        missing.append("fork run")
    if missing and not disagreements and not viols:
        res["inconclusive"] = "coverage floor missed: " + ", ".join(missing)
    return res


def search(ctx, unproved):
    """Find a failing input on the real code: longer random interleavings of the repaired alphabet under the monitors."""
    sermod = sc.load(ctx.repo)
    workdir = ctx.tmpdir()
    rng = ctx.rng("serializer.chunks.search")
    out = []
    t0 = time.time()
    cases = with_install(directed_cases(rng)) + d70_cases(rng)
    while time.time() - t0 < ctx.scale(8, 120) and len(out) < 1:
        if cases:
            cfg, evs, meta = cases.pop(0)
        else:
            cfg, evs, meta = random_case(rng, unrepaired=False)
        if meta.get("unrepaired"):
            continue
        line, steps, info = run_real(sermod, workdir, cfg, evs, tag="search")
        for v in monitor(cfg, evs, meta, steps, info):
            small = shrink(ctx, sermod, workdir, cfg, evs, meta, viol_pred(sermod, workdir, meta, v["signature"]))
            v["replay"] = {"component": "corr.serializer_chunks", "cfg": cfg, "evs": small, "meta": meta}
            out.append(v)
            break
    return out


def replay(ctx, violation):
    sermod = sc.load(ctx.repo)
    workdir = ctx.tmpdir()
    rp = violation["replay"]
    line, steps, info = run_real(sermod, workdir, rp["cfg"], rp["evs"], tag="replay")
    vs = monitor(rp["cfg"], rp["evs"], rp.get("meta", {}), steps, info)
    mout = json.loads(ctx.driver("serializer", [json.dumps(line)])[0])
    return {"violated": bool(vs), "violations": vs, "impl": {"completed": info["completed"], "held": info["held"]},
            "model": {"completed": mout.get("completed"), "held": mout.get("held")},
            "model_vs_impl": compare(line, steps, info, mout)}
