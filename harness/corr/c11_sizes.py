"""C11 monitor `c11.sizes`: arguments of any size and shape arrive intact on every replica (REAL clusters).

Real 2-3 node clusters under harness/sim.py (real `SyncObj`, simulated transport, virtual clock), memory AND file
journals, batched and unbatched append mode, `appendEntriesBatchSizeBytes` from 1 byte to 64 KiB.  For every batch
size B the replicated method is called with arguments whose size sweeps k*B + d (k = 1..4, d in [-64, 64] plus the
band [-64 - overhead, 0] that the pickled entry adds), with random sizes, and with different shapes (str, bytes with
high bytes, tuple, dict, nested list, keyword argument).
Monitor = the property statement: every replica executes the method exactly once with equal arguments, and no
exception escapes doTick / message handling on any node (`sim.errors`).
"""
import collections
import hashlib
import time

from harness.sim import Sim

PROPERTIES = ["C11", "C12"]
ORDER = 45

SIG_EXC = "c11:exception-escaped-while-replicating"
SIG_LOST = "c11:argument-not-executed-exactly-once-on-every-replica"
SIG_DIFF = "c11:replicas-executed-different-arguments"


def shape(rng, n, tag):
    """a picklable value whose pickled size is about n bytes; `tag` makes it unique"""
    kind = rng.choice(["str", "str", "bytes", "tuple", "dict", "list"])
    head = "%s|" % tag
    if kind == "str":
        return head + "x" * max(0, n - len(head))
    if kind == "bytes":
        return (head.encode() + bytes((i * 37 + 200) % 256 for i in range(max(0, n - len(head)))))
    if kind == "tuple":
        return (head, "y" * max(0, n - len(head) - 12), n)
    if kind == "dict":
        return {"tag": head, "pad": "z" * max(0, n - len(head) - 24), "n": n}
    return [head, ["w" * max(0, (n - len(head) - 20) // 2)] * 2]


def key(v):
    return hashlib.sha1(repr(v).encode()).hexdigest()


def one_cluster(ctx, rng, nodes, batch, use_batch, journal, sizes, cov):
    conf = {"appendEntriesBatchSizeBytes": batch, "appendEntriesUseBatch": use_batch}
    jd = ctx.tmpdir() if journal else None
    sim = Sim(ctx.repo, nodes, conf=conf, seed=rng.randrange(1 << 30), journal_dir=jd)
    sim.connect_all()
    L = sim.elect()
    if L is None:
        return 0, [{"signature": "c11:no-leader", "what": "no leader elected (batch %d)" % batch}]
    sim.run(3)
    viols = []
    n_cases = 0
    for n in sizes:
        n_cases += 1
        tag = "%d-%d-%d" % (batch, n, n_cases)
        v = shape(rng, n, tag)
        before = len(sim.errors)
        src = rng.choice(nodes) if rng.random() < 0.3 else L
        o = sim.objs[src]
        if rng.random() < 0.25:
            sim.cb_seq += 1
            sim._call(src, o.add, x=v)                    # keyword argument: (funcID, args, kwargs) packing
            cov["shape:kwargs"] += 1
        else:
            sim.submit(src, v)
        cov["shape:" + type(v).__name__] += 1
        for _ in range(14):
            sim.run(1)
            if all(any(x == v for (_, x) in sim.execs[i]) for i in nodes):
                break
        got = [[x for (_, x) in sim.execs[i] if x == v] for i in nodes]
        errs = sim.errors[before:]
        if errs:
            viols.append({"signature": SIG_EXC + ":" + errs[0][1],
                          "what": "batch %d %s journal=%s: argument of ~%d bytes (%s): %s escaped on node %s: %s"
                                  % (batch, "batched" if use_batch else "unbatched", journal, n, type(v).__name__, errs[0][1], errs[0][0], errs[0][2][:80]),
                          "replay": {"nodes": nodes, "batch": batch, "use_batch": use_batch, "journal": journal, "sizes": [n]}})
            break
        if any(len(g) != 1 for g in got):
            viols.append({"signature": SIG_LOST,
                          "what": "batch %d %s journal=%s: argument of ~%d bytes executed %s times on %s"
                                  % (batch, "batched" if use_batch else "unbatched", journal, n, [len(g) for g in got], nodes),
                          "replay": {"nodes": nodes, "batch": batch, "use_batch": use_batch, "journal": journal, "sizes": [n]}})
            break
    # every replica executed the same sequence
    seqs = [[key(x) for (_, x) in sim.execs[i]] for i in nodes]
    if any(s != seqs[0] for s in seqs[1:]) and not viols:
        viols.append({"signature": SIG_DIFF, "what": "batch %d: replicas executed different argument sequences" % batch})
    cov["batch:%d" % batch] += n_cases
    cov["mode:" + ("batched" if use_batch else "unbatched")] += n_cases
    cov["journal:" + ("file" if journal else "memory")] += n_cases
    cov["nodes:%d" % len(nodes)] += n_cases
    return n_cases, viols


def size_sweep(rng, batch, per_k, tier_full):
    out = []
    for k in (1, 2, 3, 4):
        base = k * batch
        ds = set([-64, -1, 0, 1, 64])
        ds.update(rng.sample(range(-64 - 70, 65), min(per_k, 199)))
        if tier_full:
            ds.update(range(-64 - 70, 65))
        for d in sorted(ds):
            n = base + d
            if 0 <= n <= 300000:
                out.append(n)
    out += [rng.randint(0, min(4 * batch + 200, 200000)) for _ in range(per_k)]
    return out


def run(ctx):
    t0 = time.time()
    rng = ctx.rng("c11.sizes")
    cov = collections.Counter()
    total, viols = 0, []
    batches = [1, 2, 7, 64, 100, 1000, 4096, 65536]
    full = ctx.tier == "thorough"
    end = t0 + ctx.budget_s * (0.55 if not full else 0.9)
    combos = []
    for b in batches:
        for use_batch in (True, False):
            for journal in (False, True):
                combos.append((b, use_batch, journal))
    rng.shuffle(combos)
    # make sure the small and the default batch sizes are always in
    combos.sort(key=lambda c: 0 if c[0] in (1, 1000, 65536) else 1)
    for (b, use_batch, journal) in combos:
        if time.time() > end:
            break
        nodes = ["a", "b", "c"] if rng.random() < 0.5 else ["a", "b"]
        per_k = 14 if not full else 60
        if b >= 4096:
            per_k = 2 if not full else 8
        sizes = size_sweep(rng, b, per_k, full and b <= 1000)
        if b == 1:
            sizes = [s for s in sizes if s <= 8] + [rng.randint(0, 300) for _ in range(4)]
        if b >= 65536 and not full:
            sizes = sizes[:6]
        n, v = one_cluster(ctx, rng, nodes, b, use_batch, journal, sizes, cov)
        total += n
        viols += v
        if viols:
            break
    res = {"name": "corr.c11_sizes", "cases": total, "distinct": total, "coverage": dict(sorted(cov.items())),
           "samples": [{"batches": batches, "modes": ["batched", "unbatched"], "journals": ["memory", "file"]}],
           "disagreements": [], "violations": viols[:3], "wall_s": round(time.time() - t0, 2)}
    need = ["mode:batched", "mode:unbatched", "journal:file", "journal:memory", "batch:1", "batch:1000", "batch:65536"]
    missing = [k for k in need if cov[k] == 0]
    if missing and not viols:
        res["inconclusive"] = "coverage floor missed: " + ", ".join(missing)
    return res


def replay(ctx, violation):
    r = violation.get("replay") or {}
    rng = ctx.rng("c11.sizes.replay")
    cov = collections.Counter()
    n, v = one_cluster(ctx, rng, r.get("nodes", ["a", "b"]), r.get("batch", 1000), r.get("use_batch", True),
                       r.get("journal", False), r.get("sizes", [1950]), cov)
    return {"violated": bool(v), "violations": v[:3]}
