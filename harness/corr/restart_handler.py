"""C06 / C07 correspondence `restart.handler`: the REAL kill + restart against the model's `restartNode`.

Family `restartnode` of `corr.nodesend_handlers` on its own (that component is registered for C02/C10/C11 and runs every
handler op): a real `SyncObj` on `journalFile` (+ `fullDumpFile`) is seeded (journal through its API, term and vote
through `setTermAndVote`, stored commit index flushed or not, dump written by the object's own compaction, optionally a
trimmed head or a journal/dump mismatch), abandoned without shutdown, a second real `SyncObj` is built on the same files
and runs its first tick; its abstract state is compared field by field with `PSO.NodeSend.restartNode` /
`restartExtra`, the definitions `PSO.C06.restart_handler_refines` and `PSO.C07.restart_handler_keeps_term_vote_log`
are about (`notes/bridge.md` §10)."""
import collections
import json
import time

from harness.corr import nodesend_handlers as H
from harness.corr import nodesend_lib as L

PROPERTIES = ["C06", "C07"]
ORDER = 48

NEED = ["op:restartnode"]


def run(ctx):
    t0 = time.time()
    env = L.Env(ctx.repo, seed=ctx.seed)
    env.scratch = ctx.tmpdir()
    gen = H.Gen(env, ctx.rng("restart.handler"))
    cov, seen = collections.Counter(), set()
    cases = gen.sys_restart() + [gen.rnd_restart() for _ in range(ctx.scale(60, 1500))]
    n, dis, viol = H.run_cases(ctx, env, cases, cov, seen, float("inf"))
    disagreements = []
    for (case, d, real, model) in dis[:3]:
        real2 = H.run_real(env, case)
        o = json.loads(ctx.driver("nodesend", [L.jdump(H.driver_line(env, case, real2))])[0])
        disagreements.append({"input": case, "model": L.jdump(o)[:1500],
                              "impl": L.jdump({"err": real2["err"], "out": real2["out"],
                                               "state": dict((k, real2["state"][k]) for k in H.STATE_KEYS)})[:1500],
                              "note": H.compare(env, case, real2, o) or d})
    # a second kill right after the start-up block (theorem restart_twice_is_restart_once): the third real object equals the second
    twice = 0
    for case in cases[::3]:
        c2 = dict(case)
        c2["twice"] = True
        try:
            r = H.restart_real(env, c2)
        except Exception as e:
            if len(disagreements) < 3:
                disagreements.append({"input": c2, "model": "restartNode (restartNode s) = restartNode s", "impl": "exception %s: %s" % (type(e).__name__, str(e)[:200]),
                                      "note": "second restart failed"})
            continue
        twice += 1
        a, b = r["post"], r["post2"]
        diff = [k for k in ("log", "term", "commit", "lastApplied", "role", "leader") if a.get(k) != b.get(k)]
        if r["x"] != r["x2"]:
            diff.append("votedFor/votes")
        if diff and len(disagreements) < 3:
            disagreements.append({"input": c2, "model": "restartNode (restartNode s sc dump) sc dump = restartNode s sc dump",
                                  "impl": L.jdump({"first": dict((k, a.get(k)) for k in diff if k in a), "second": dict((k, b.get(k)) for k in diff if k in b),
                                                   "x": r["x"], "x2": r["x2"]})[:1200],
                                  "note": "a node killed right after its start-up block came back different: %s" % diff})
    cov["restart:killed-again-after-start"] = twice
    keep = dict((k, v) for k, v in sorted(cov.items()) if k.startswith("restart") or k == "op:restartnode")
    res = {"name": "corr.restart_handler", "cases": n, "distinct": len(seen), "coverage": keep,
           "samples": [cases[0] if cases else None], "disagreements": disagreements, "violations": viol[:3],
           "wall_s": round(time.time() - t0, 2)}
    missing = [f for f in H.FLOORS if f.startswith("restart") and cov[f] == 0] + [f for f in NEED if cov[f] == 0]
    if missing and not disagreements and not viol:
        res["inconclusive"] = "coverage floor missed: " + ", ".join(missing[:8])
    return res
