"""Shared machinery of the `nodetick` components (C20, C12, C18, C04-local): abstract NodeState <-> live
SyncObj (state injection / extraction), event firing, output capture, abstract-state generators.

Not a component itself (no PROPERTIES line).

Abstract vocabulary = line protocol of `driver nodetick` (lean/Driver/NodeTick.lean).  Node `k` is the
real node with id 'n<k>' (k < 10, so string order = numeric order); the node under test is 'n0'.
Times are integers in units of 1/1024 s (virtual clock value = units / 1024.0, exact).

Private attributes of SyncObj written for injection / read for extraction:
  _SyncObj__{selfNode, raftState, raftCurrentTerm, votedForNodeId, votesCount, raftLeader,
  raftElectionDeadline, otherNodes, readonlyNodes, connectedNodes, raftLog (MemoryJournal), raftCommitIndex,
  raftLastApplied, raftMatchIndex, raftNextIndex, lastResponseTime, commandsWaitingCommit,
  commandsWaitingReply, enabledCodeVersion, selfCodeVersion, leaderCommitIndex, onReadyCalled,
  newAppendEntriesTime, noopIDx, needLoadDumpFile, lastSerializedTime, forceLogCompaction, conf,
  sendAppendEntries (stubbed: the call is recorded), onSetCodeVersion (called after injecting enabledCodeVersion)},
  the user attribute `log` (free state machine), `_methodToID`, `_getFuncName`.
Entry points fired: `doTick`, transport `_onMessageReceived`, `_onNodeConnected/_onNodeDisconnected`,
`_onReadonlyNodeConnected/_onReadonlyNodeDisconnected`, property `hasQuorum`,
`_SyncObj__connectedToAnyone`.
"""
import collections
import json
import logging

from harness import sim as simmod

U = 1024  # time units per second
ROLE_NAMES = {0: "follower", 1: "candidate", 2: "leader"}


def nid(k):
    return "n%d" % k


def kid(node_or_id):
    s = node_or_id if isinstance(node_or_id, str) else node_or_id.id
    return int(s[1:])


def units(x):
    v = x * U
    iv = int(round(v))
    if iv != v:
        raise ValueError("time %r is not a whole number of 1/1024 s" % (x,))
    return iv


class ExecList(list):
    """Stands in for sim.execs[node]: every execution of the user method is also an ordered output."""

    def __init__(self, outs):
        list.__init__(self)
        self.outs = outs

    def append(self, item):
        pos, x = item
        if isinstance(x, tuple):
            x = x[1]
        self.outs.append(["exec", pos, x])
        list.append(self, item)


class Rig(object):
    """One live SyncObj ('n0') under harness/sim.py whose state is overwritten before every case."""

    def __init__(self, repo):
        logging.getLogger("pysyncobj").setLevel(logging.CRITICAL + 1)
        logging.getLogger().setLevel(logging.CRITICAL + 1)
        self.sim = simmod.Sim(repo, ["n0"], conf=dict(leaderFallbackTimeout=2.0, dynamicMembershipChange=True,
                                                       logCompactionMinEntries=10 ** 9, logCompactionMinTime=10 ** 9))
        self.so = self.sim.so
        self.Node = self.sim.Node
        self.obj = self.sim.objs["n0"]
        self.tr = self.sim.transports["n0"]
        self.outs = []
        self.cb_idx = {}
        o = self.obj
        rig = self
        self.conf = o._SyncObj__conf
        self.conf.onStateChanged = lambda old, new: rig.outs.append(["sc", old, new])
        self.conf.onCodeVersionChanged = lambda old, new: rig.outs.append(["ver", old, new])
        self.conf.onReady = lambda: rig.outs.append(["ready"])
        o._SyncObj__sendAppendEntries = lambda: rig.outs.append(["send"])
        self.tr.send = self._send
        self.tr.addNode = lambda n: rig.outs.append(["add", kid(n)])
        self.tr.dropNode = lambda n: rig.outs.append(["drop", kid(n)])
        self.pickle = self.so.pickle
        self.bchr = self.so._bchr
        self.CT = self.so._COMMAND_TYPE
        self.fid_add = o._methodToID[o._getFuncName("add")]
        self.fid_boom = o._methodToID[o._getFuncName("boom")]

    # -- output capture --------------------------------------------------------------------------
    def _send(self, node, msg):
        t = msg.get("type")
        if t == "request_vote":
            self.outs.append(["rv", kid(node), msg["term"], msg["last_log_index"], msg["last_log_term"]])
        elif t == "response_vote":
            self.outs.append(["resp", kid(node), msg["term"]])
        else:
            self.outs.append(["msg", kid(node), t])
        return True

    def _cb(self, idx, cbid):
        rig = self

        def cb(res, err):
            if res is None:
                r = None
            elif isinstance(res, Exception) and res.args and isinstance(res.args[0], str) \
                    and res.args[0].startswith('wrong version'):
                # repair D71: a VERSION entry below the enabled version is refused with
                # Exception('wrong version, enabled version is %d, requested version is %d')
                r = ["lowerver", int(res.args[0].rsplit(' ', 1)[1])]
            elif isinstance(res, Exception):
                r = ["raised", res.args[0] if res.args else -1]
            else:
                r = ["ok", res]
            rig.outs.append(["cb", idx, cbid, r, err])
        cb.cbid = cbid
        cb.term_idx = idx
        return cb

    # -- commands --------------------------------------------------------------------------------
    def cmd_bytes(self, c):
        k = c[0]
        if k == "n":
            return self.bchr(self.CT.NO_OP)
        if k == "r":
            fid = self.fid_boom if c[2] else self.fid_add
            return self.bchr(self.CT.REGULAR) + self.pickle.dumps((fid, (c[1],)))
        if k == "m":
            node = self.Node(nid(c[2]))
            return self.bchr(self.CT.MEMBERSHIP) + self.pickle.dumps(["add" if c[1] else "rem", node.id, node])
        if k == "v":
            return self.bchr(self.CT.VERSION) + self.pickle.dumps(c[1])
        raise ValueError(c)

    def cmd_abs(self, b):
        t = ord(b[:1])
        if t == self.CT.NO_OP:
            return ["n"]
        if t == self.CT.REGULAR:
            fid, args = self.pickle.loads(b[1:])
            return ["r", args[0], 1 if fid == self.fid_boom else 0]
        if t == self.CT.MEMBERSHIP:
            req = self.pickle.loads(b[1:])
            return ["m", 1 if req[0] == "add" else 0, kid(req[1])]
        if t == self.CT.VERSION:
            return ["v", self.pickle.loads(b[1:])]
        return ["?", t]

    # -- injection -------------------------------------------------------------------------------
    def inject(self, conf, st):
        o, Node = self.obj, self.Node
        P = "_SyncObj__"
        c = self.conf
        c.leaderFallbackTimeout = conf["T"] / float(U)
        c.raftMinTimeout = conf["min"] / float(U)
        c.raftMaxTimeout = conf["max"] / float(U)
        c.appendEntriesUseBatch = conf["batch"]
        setattr(o, P + "selfCodeVersion", conf["selfVer"])
        setattr(o, P + "selfNode", None if st["self"] is None else Node(nid(st["self"])))
        setattr(o, P + "raftState", st["role"])
        setattr(o, P + "raftCurrentTerm", st["term"])
        setattr(o, P + "votedForNodeId", None if st["votedFor"] is None else nid(st["votedFor"]))
        setattr(o, P + "votesCount", st["votes"])
        setattr(o, P + "raftLeader", None if st["leader"] is None else Node(nid(st["leader"])))
        setattr(o, P + "raftElectionDeadline", st["deadline"] / float(U))
        setattr(o, P + "otherNodes", set(Node(nid(k)) for k in st["others"]))
        setattr(o, P + "readonlyNodes", set(Node(nid(k)) for k in st["readonly"]))
        setattr(o, P + "connectedNodes", set(Node(nid(k)) for k in st["connected"]))
        j = getattr(o, P + "raftLog")
        j.clear()
        for (cmd, idx, term) in st["log"]:
            j.add(self.cmd_bytes(cmd), idx, term)
        setattr(o, P + "raftCommitIndex", st["commit"])
        setattr(o, P + "raftLastApplied", st["applied"])
        setattr(o, P + "raftMatchIndex", dict((Node(nid(k)), v) for k, v in st["match"]))
        setattr(o, P + "raftNextIndex", dict((Node(nid(k)), v) for k, v in st["next"]))
        setattr(o, P + "lastResponseTime", dict((Node(nid(k)), v / float(U)) for k, v in st["resp"]))
        w = collections.defaultdict(list)
        for idx, subs in st["waiting"]:
            w[idx] = [(t, self._cb(idx, cb)) for t, cb in subs]
        setattr(o, P + "commandsWaitingCommit", w)
        setattr(o, P + "commandsWaitingReply", dict((rid, self._cb(rid, cb)) for rid, cb in st["wreply"]))
        o.log = list(st["sm"])
        setattr(o, P + "enabledCodeVersion", st["enabled"])
        getattr(o, P + "onSetCodeVersion")(min(st["enabled"], conf["selfVer"]))
        setattr(o, P + "leaderCommitIndex", st["lcommit"])
        setattr(o, P + "onReadyCalled", st["ready"])
        setattr(o, P + "newAppendEntriesTime", st["nat"] / float(U))
        setattr(o, P + "noopIDx", st["noop"])
        setattr(o, P + "needLoadDumpFile", False)
        setattr(o, P + "forceLogCompaction", False)

    def extract(self):
        o = self.obj
        P = "_SyncObj__"
        g = lambda n: getattr(o, P + n)
        sn = g("selfNode")
        ld = g("raftLeader")
        vf = g("votedForNodeId")
        w = g("commandsWaitingCommit")
        sm = []
        for x in o.log:
            sm.append(x[1] if isinstance(x, tuple) else x)
        return {
            "self": None if sn is None else kid(sn), "role": g("raftState"), "term": g("raftCurrentTerm"),
            "votedFor": None if vf is None else kid(vf), "votes": g("votesCount"),
            "leader": None if ld is None else kid(ld), "deadline": units(g("raftElectionDeadline")),
            "others": sorted(kid(n) for n in g("otherNodes")), "readonly": sorted(kid(n) for n in g("readonlyNodes")),
            "connected": sorted(kid(n) for n in g("connectedNodes")),
            "log": [[self.cmd_abs(e[0]), e[1], e[2]] for e in g("raftLog")[:]],
            "commit": g("raftCommitIndex"), "applied": g("raftLastApplied"),
            "match": sorted([kid(n), v] for n, v in g("raftMatchIndex").items()),
            "next": sorted([kid(n), v] for n, v in g("raftNextIndex").items()),
            "resp": sorted([kid(n), units(v)] for n, v in g("lastResponseTime").items()),
            "waiting": sorted([idx, [[t, cb.cbid] for t, cb in subs]] for idx, subs in w.items()),
            "wreply": sorted([rid, cb.cbid] for rid, cb in g("commandsWaitingReply").items()),
            "sm": sm, "enabled": g("enabledCodeVersion"), "lcommit": g("leaderCommitIndex"),
            "ready": g("onReadyCalled"), "nat": units(g("newAppendEntriesTime")), "noop": g("noopIDx"),
        }

    # -- events ----------------------------------------------------------------------------------
    def fire(self, ev):
        sim, o, Node = self.sim, self.obj, self.Node
        k = ev[0]
        nerr = len(sim.errors)
        if k == "tick":
            sim.now["n0"] = ev[1] / float(U)
            sim.rand_script.clear()
            sim.rand_script.append(ev[2])
            setattr(o, "_SyncObj__lastSerializedTime", sim.now["n0"])
            sim._call("n0", o.doTick, 0.0)
        elif k == "rv":
            sim.now["n0"] = ev[5] / float(U)
            sim.rand_script.clear()
            sim.rand_script.append(ev[6])
            sim._call("n0", self.tr._onMessageReceived, Node(nid(ev[1])),
                      {"type": "request_vote", "term": ev[2], "last_log_index": ev[3], "last_log_term": ev[4]})
        elif k == "vote":
            sim.now["n0"] = ev[3] / float(U)
            sim._call("n0", self.tr._onMessageReceived, Node(nid(ev[1])), {"type": "response_vote", "term": ev[2]})
        elif k == "nni":
            sim.now["n0"] = ev[6] / float(U)
            m = {"type": "next_node_idx", "reset": bool(ev[3]), "next_node_idx": ev[4], "success": bool(ev[5])}
            if ev[2] is not None:
                m["term"] = ev[2]
            sim._call("n0", self.tr._onMessageReceived, Node(nid(ev[1])), m)
        elif k == "conn":
            sim._call("n0", self.tr._onNodeConnected, Node(nid(ev[1])))
        elif k == "disc":
            sim._call("n0", self.tr._onNodeDisconnected, Node(nid(ev[1])))
        elif k == "roconn":
            sim._call("n0", self.tr._onReadonlyNodeConnected, Node(nid(ev[1])))
        elif k == "rodisc":
            sim._call("n0", self.tr._onReadonlyNodeDisconnected, Node(nid(ev[1])))
        else:
            raise ValueError(ev)
        for (_, tname, msg, _tb) in sim.errors[nerr:]:
            self.outs.append(["keyError"] if tname == "KeyError" else ["exc", tname, msg[:80]])
        del sim.errors[nerr:]

    def run_case(self, case):
        """Inject, fire the events, return what `driver nodetick` returns for the same line."""
        self.outs = []
        self.sim.execs["n0"] = ExecList(self.outs)
        self.inject(case["c"], case["s"])
        for ev in case["es"]:
            self.fire(ev)
        st = self.extract()
        return {"s": st, "o": canon_outs(self.outs), "hq": bool(self.obj.hasQuorum),
                "cta": bool(getattr(self.obj, "_SyncObj__connectedToAnyone")())}


def canon_outs(outs):
    """Order between messages to different destinations depends on set iteration: sort every run of
    consecutive request_vote outputs by destination."""
    res, run = [], []
    for o in outs:
        if o[0] == "rv":
            run.append(list(o))
        else:
            if run:
                res.extend(sorted(run))
                run = []
            res.append(list(o))
    if run:
        res.extend(sorted(run))
    return res


def canon_model(resp):
    """Driver answer -> same shape as Rig.run_case (drops `nc`)."""
    return {"s": resp["s"], "o": canon_outs(resp["o"]), "hq": resp["hq"], "cta": resp["cta"]}


def line(case):
    return json.dumps({"c": case["c"], "s": case["s"], "es": case["es"]}, separators=(",", ":"))


# ------------------------------------------------------------------------------------------------
# generators
# ------------------------------------------------------------------------------------------------
T_POOL = [129, 130, 256, 1024, 2048, 30 * 1024]
NOW0 = 200 * 1024


def majority_need(n_others):
    """smallest count with count > (n_others+1)/2"""
    return (n_others + 1) // 2 + 1


def base_conf(rng=None, T=2048, batch=True, selfVer=1):
    return {"T": T, "min": 512, "max": 1536, "batch": batch, "selfVer": selfVer}


def gen_conf(rng):
    mn = rng.choice([512, 256, 1024])
    return {"T": rng.choice(T_POOL), "min": mn, "max": mn + rng.choice([0, 1024, 2048]),
            "batch": rng.random() < 0.6, "selfVer": rng.choice([0, 1, 1, 2])}


def gen_cmd(rng, others, selfVer, allow_special=True):
    r = rng.random()
    if r < 0.15:
        return ["n"]
    if r < 0.70 or not allow_special:
        return ["r", rng.randrange(100, 1000), 1 if rng.random() < 0.35 else 0]
    if r < 0.85:
        return ["v", rng.choice([0, 1, selfVer, selfVer, selfVer + 1, 2])]
    pool = list(others) + [8, 9, 0]
    return ["m", rng.randrange(2), rng.choice(pool)]


def gen_log(rng, term, others, selfVer, first=None, length=None, special=True):
    if first is None:
        first = rng.choice([1, 1, 1, 3, 7])
    if length is None:
        length = rng.randint(1, 8)
    log = []
    t = rng.randint(0, min(term, 1))
    for i in range(length):
        if rng.random() < 0.35 and t < term:
            t += 1
        cmd = ["n"] if (i == 0 and first == 1) else gen_cmd(rng, others, selfVer, special)
        log.append([cmd, first + i, t])
    return log


def gen_state(rng, conf, now, n_others=None, observer=None, role=None, wellformed=True):
    """A mostly well-formed abstract state with fields near the guards' boundaries."""
    T = conf["T"]
    if n_others is None:
        n_others = rng.choice([0, 1, 2, 2, 3, 4, 4])
    if observer is None:
        observer = rng.random() < 0.15
    others = list(range(1, n_others + 1))
    n_ro = rng.choice([0, 0, 1, 2, 3])
    readonly = [5, 6, 7][:n_ro]
    if role is None:
        role = 0 if (observer and rng.random() < 0.8) else rng.choice([0, 1, 2, 2, 2])
    term = rng.randint(1, 5)
    log = gen_log(rng, term, others, conf["selfVer"])
    first, last = log[0][1], log[-1][1]
    if role == 2 and rng.random() < 0.7:
        # a leader usually has entries of its own term at the end
        k = rng.randint(1, min(3, len(log)))
        for e in log[-k:]:
            e[2] = term
    commit = rng.randint(first, last)
    if rng.random() < 0.08:
        commit = last + rng.randint(0, 2)          # malformed: commit beyond the log
    applied = rng.randint(max(first - 1, 1), max(min(commit, last), first - 1, 1))
    if rng.random() < 0.25:
        applied = commit
    if rng.random() < 0.05:
        applied = max(first - rng.randint(2, 3), 0)     # wedge: the next entry is not in the log any more
    if rng.random() < 0.04:
        applied = commit + 1
    need = majority_need(n_others)
    tracked = others + readonly
    # match indices around a target index so that counts land at / just below the majority
    target = rng.randint(min(commit, last), last + 1)
    k_match = rng.choice([max(need - 2, 0), max(need - 2, 0), need - 1, need - 1, n_others])
    perm = others[:]
    rng.shuffle(perm)
    match = {}
    for i, n in enumerate(perm):
        match[n] = (target + rng.choice([0, 0, 1, 2])) if i < k_match else max(target - rng.choice([1, 1, 2, 5]), 0)
    for n in readonly:
        match[n] = rng.choice([0, target, last + 3])
    k_fresh = rng.choice([max(need - 2, 0), need - 1, need - 1, n_others])
    rng.shuffle(perm)
    resp = {}
    for i, n in enumerate(perm):
        resp[n] = now - T + (rng.choice([1, 1, 2, T]) if i < k_fresh else -rng.choice([0, 0, 1, 5 * T]))
    for n in readonly:
        resp[n] = rng.choice([now, now - T, now - T + 1])
    nxt = dict((n, match[n] + 1) for n in tracked)
    if role != 2 and rng.random() < 0.5:
        # followers often have stale / partial tables
        for n in list(match):
            if rng.random() < 0.5:
                del match[n], nxt[n]
                resp.pop(n, None)
    connected = [n for n in tracked if rng.random() < 0.6]
    if rng.random() < 0.15:
        connected = []
    waiting = []
    for idx in range(first, last + 3):
        if rng.random() < 0.4:
            et = [e[2] for e in log if e[1] == idx]
            subs = []
            for _ in range(rng.choice([1, 1, 2, 3])):
                subs.append([et[0] if (et and rng.random() < 0.6) else rng.randint(0, term + 1), rng.randrange(10 ** 6)])
            waiting.append([idx, subs])
    wreply = sorted([rid, rng.randrange(10 ** 6)] for rid in rng.sample(range(1, 20), rng.choice([0, 0, 1, 3])))
    enabled = rng.choice([0, 0, conf["selfVer"], min(1, conf["selfVer"])])
    if rng.random() < 0.06:
        enabled = conf["selfVer"] + 1
    votes = rng.choice([0, 1, max(need - 1, 0), max(need - 1, 0), need])
    st = {
        "self": None if observer else 0, "role": role, "term": term,
        "votedFor": rng.choice([None, None, 0] + others[:1]), "votes": votes,
        "leader": rng.choice([None, 0] + others[:1]) if role != 2 else (None if observer else 0),
        "deadline": now + rng.choice([-1, 0, 1, -500, 500]),
        "others": others, "readonly": readonly, "connected": sorted(connected),
        "log": log, "commit": commit, "applied": applied,
        "match": sorted([k, v] for k, v in match.items()), "next": sorted([k, v] for k, v in nxt.items()),
        "resp": sorted([k, v] for k, v in resp.items()),
        "waiting": waiting, "wreply": wreply, "sm": [rng.randrange(1000) for _ in range(rng.randint(0, 3))],
        "enabled": enabled, "lcommit": rng.choice([None, commit, applied, last]), "ready": rng.random() < 0.5,
        "nat": now + rng.choice([-1, 0, 1, 300]), "noop": rng.choice([None, last, first]),
    }
    return st


def gen_event(rng, st, now):
    r = rng.random()
    others, ro = st["others"], st["readonly"]
    anyone = others + ro + [8]
    term = st["term"]
    last = st["log"][-1][1]
    lt = st["log"][-1][2]
    if r < 0.55:
        return ["tick", now, rng.choice([0, 1, 512, 1023, rng.randrange(1024)])]
    if r < 0.67:
        return ["rv", rng.choice(others + [8]), term + rng.choice([-1, 0, 0, 1, 1]),
                max(last + rng.choice([-1, 0, 0, 1]), 0), max(lt + rng.choice([-1, 0, 0, 1]), 0), now,
                rng.randrange(1024)]
    if r < 0.77:
        return ["vote", rng.choice(anyone), term + rng.choice([-1, 0, 0, 0, 1]), now]
    if r < 0.92:
        m = dict((k, v) for k, v in st["match"])
        frm = rng.choice(anyone)
        cur = m.get(frm, 0)
        return ["nni", frm, rng.choice([None, term, term, term, term - 1, term + 1]), rng.randrange(2),
                max(cur + 1 + rng.choice([-2, -1, 0, 1, 3]), 0), rng.randrange(2), now]
    k = rng.choice(["conn", "disc", "roconn", "rodisc"])
    if k in ("roconn", "rodisc"):
        # the transport reports read-only (dis)connects for observers only; ids 5-7 are never voters here
        # (a read-only disconnect of a voter id would drop the voter's matchIndex: KeysOK, see the model header)
        return [k, rng.choice([5, 6, 7])]
    return [k, rng.choice(anyone)]


def fix_timeout_exact(case):
    """The election timeout `min + (max-min)*k/1024` must be a whole number of units."""
    d = case["c"]["max"] - case["c"]["min"]
    for ev in case["es"]:
        if ev[0] == "tick" and (d * ev[2]) % 1024:
            ev[2] = 512 if (d * 512) % 1024 == 0 else 0
        if ev[0] == "rv" and (d * ev[6]) % 1024:
            ev[6] = 512 if (d * 512) % 1024 == 0 else 0
    return case
