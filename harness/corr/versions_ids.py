"""C17 correspondence `versions.ids`: method-id tables and name tables of REAL generated classes vs the Lean model,
plus the property monitor "old ids unchanged between old and new code; resolution = newest version <= enabled".

For every case a class source is GENERATED (versioned `replicated` / `replicated_sync` methods on the SyncObj
subclass and on 0-3 consumers, names whose string order differs from their version order), `exec`'d and
instantiated on a dummy transport. Compared with `driver versions`:
  * `_idToMethod` as [(ver, consumer number, name)] in id order, `_methodToID` (inverse), `__selfCodeVersion`;
  * for every enabled version e (all versions present, 0, max+1): `__currentVersionFuncNames` after
    `__onSetCodeVersion(e)`, `_getFuncName` of every key, and the funcID a REAL call `obj.f(x)` hands to `_applyCommand`.
Old/new pairs: new code = old code + methods (with / without the "strictly higher version" hypothesis).
"""
import hashlib

from harness.corr import versions_lib as L

PROPERTIES = ["C17"]
ORDER = 40


def _check_one(ctx, ns, spec, src, lines, jobs, cov):
    """Build the real object, record what the model must reproduce; returns (built, record)."""
    b = L.build(ns, spec, src)
    ids, m2i = L.extract_ids(b)
    rec = {"spec": spec, "ids": [[v, o, L.name_json(nm)] for v, o, nm, _ in ids],
           "selfVer": b.obj._SyncObj__selfCodeVersion, "tables": {}, "orig": [orig for _, _, _, orig in ids]}
    # _methodToID must be the inverse of _idToMethod
    inv = {(o, nm): i for i, (v, o, nm, _) in enumerate(ids)}
    rec["m2i_ok"] = (inv == m2i)
    vers = sorted({v for _, _, v in L.decls_of(spec)} | {0})
    vers.append(vers[-1] + 1)
    keys = sorted({(o, nm) for o, nm, _ in L.decls_of(spec)})
    for e in vers:
        b.obj._SyncObj__onSetCodeVersion(e)
        tab = L.extract_table(b)
        row = {}
        for (o, orig) in keys:
            # _getFuncName with the real key
            key = orig if o == 0 else (id(b.targets[o]), orig)
            try:
                fn = b.obj._getFuncName(key)
            except KeyError:
                fn = None
            assert fn == tab.get((o, orig)), (fn, tab.get((o, orig)))
            cid = L.call_id(b, o, orig)
            row[(o, orig)] = (fn, cid)
            cov["resolved" if fn is not None else "keyerror"] += 1
        rec["tables"][e] = row
        assert set(tab.keys()) <= set(keys)
    b.obj._SyncObj__onSetCodeVersion(0)
    # which versions does the node accept? (real setCodeVersion at enabled version 0: top version of the code, top + 1)
    top = max([v for _, _, v in L.decls_of(spec)] + [0])
    rec["top"] = top
    rec["top_only_on_consumer"] = top > max([v for o, _, v in L.decls_of(spec) if o == 0] + [0])
    rec["accept"] = {}
    q = b.obj._SyncObj__commandsQueue
    for v in (top, top + 1):
        try:
            b.obj.setCodeVersion(v)
            q.get_nowait()
            rec["accept"][v] = True
        except Exception as e:
            rec["accept"][v] = str(e)[:120]
    lines.append(L.jdump({"op": "ids", "cls": L.cls_json(spec)}))
    jobs.append(("ids", rec))
    for e in vers:
        lines.append(L.jdump({"op": "table", "cls": L.cls_json(spec), "enabled": e}))
        jobs.append(("table", rec, e))
    return b, rec


def _monitor_resolution(spec, rec, violations):
    """Property statement on the real observations: the implementation a call resolves to is the newest one whose
    version is not above the enabled version."""
    ids = rec["ids"]
    for e, row in rec["tables"].items():
        for (o, orig), (fn, cid) in row.items():
            want = L.expected_impl_version(spec, o, orig, e)
            if want is None:
                got = None if cid is None else ids[cid][0]
                ok = cid is None
            else:
                ok = cid is not None and ids[cid][0] == want and ids[cid][1] == o and \
                    L.name_str(ids[cid][2]) == "%s_v%d" % (orig, want)
                got = None if cid is None else ids[cid]
            if not ok and len(violations) < 3:
                violations.append({
                    "signature": "syncobj.onSetCodeVersion:call-not-newest-version-le-enabled",
                    "what": "call %s on object %d with enabled version %d resolves to %r, newest version <= enabled is %r"
                            % (orig, o, e, got, want),
                    "replay": {"kind": "ids", "spec": spec, "enabled": e, "obj": o, "orig": orig}})


def _monitor_support(spec, rec, violations, cov):
    """Property statement: a node supports every version some replicated method of the object OR of a consumer
    implements - a request to enable it is accepted; a version no method implements is rejected."""
    top = rec["top"]
    cov["top_only_on_consumer" if rec["top_only_on_consumer"] else "top_on_object"] += 1
    if rec["accept"][top] is not True and len(violations) < 3:
        violations.append({
            "signature": "syncobj.setCodeVersion:supported-version-rejected",
            "what": "setCodeVersion(%d) refused (%s) although a replicated method of %s implements version %d (node reports self version %r)"
                    % (top, rec["accept"][top], "a consumer only" if rec["top_only_on_consumer"] else "the object", top, rec["selfVer"]),
            "replay": {"kind": "ids", "spec": spec, "enabled": 0, "obj": 0, "orig": ""}})
    if rec["accept"][top + 1] is True and len(violations) < 3:
        violations.append({
            "signature": "syncobj.setCodeVersion:unsupported-or-lower-version-accepted",
            "what": "setCodeVersion(%d) accepted although no replicated method implements a version above %d" % (top + 1, top),
            "replay": {"kind": "ids", "spec": spec, "enabled": 0, "obj": 0, "orig": ""}})


def _battery_case(ns, violations, cov):
    """The real `batteries.ReplList` (its `__setitem__` is the only ver=1 method) on a plain SyncObj without own versioned
    methods: version 1 is supported, setCodeVersion(1) is accepted, the VERSION entry is applied, `lst[i] = x` then
    goes out with the ver=1 implementation."""
    from pysyncobj import SyncObj, SyncObjConf
    from pysyncobj.batteries import ReplList
    lst = ReplList()
    top = max(getattr(getattr(lst, m), "ver", 0) for m in dir(lst) if callable(getattr(lst, m))
              and getattr(getattr(lst, m), "replicated", False))
    conf = SyncObjConf(autoTick=False, useFork=False)
    obj = SyncObj(ns["Node"]("a"), [], conf=conf, consumers=[lst], transportClass=ns["DummyTransport"])
    problems = []
    try:
        try:
            obj.setCodeVersion(top)
            obj._SyncObj__commandsQueue.get_nowait()
        except Exception as e:
            problems.append("setCodeVersion(%d) refused: %s" % (top, str(e)[:100]))
        lg = obj._SyncObj__raftLog
        lg.add(b"\x03" + ns["pickle"].dumps(top), 2, 1)
        obj._SyncObj__raftCommitIndex = 2
        obj._SyncObj__applyLogEntries()
        if obj._SyncObj__raftLastApplied != 2 or obj.getCodeVersion() != top:
            problems.append("VERSION %d entry not applied: lastApplied=%d, getCodeVersion()=%d"
                            % (top, obj._SyncObj__raftLastApplied, obj.getCodeVersion()))
        else:
            got = []
            obj._applyCommand = lambda command, callback, commandType=None: got.append(command)
            try:
                lst.__setitem__(0, 5, callback=lambda *a: None)
            except Exception as e:
                problems.append("lst[0] = 5 raised %s" % type(e).__name__)
            finally:
                del obj._applyCommand
            if got:
                cmd = ns["pickle"].loads(got[0])
                fid = cmd[0] if isinstance(cmd, tuple) else cmd
                if obj._idToMethod[fid].ver != top:
                    problems.append("lst[0] = 5 goes out with version %d of __setitem__" % obj._idToMethod[fid].ver)
        cov["battery_repllist_top_%d" % top] += 1
    finally:
        try:
            obj._doDestroy()
            obj._poller.close() if hasattr(obj._poller, "close") else None
        except Exception:
            pass
    if problems and len(violations) < 3:
        violations.append({"signature": "syncobj.setCodeVersion:supported-version-rejected",
                           "what": "plain SyncObj with a batteries.ReplList (ver=%d method on the consumer only): %s" % (top, "; ".join(problems)),
                           "replay": {"kind": "battery"}})


def _alias_cases(ctx, ns, disagreements, cov):
    """Classes with an alias / a name-mangled private replicated method (known finding D86, witness d86): the real id table
    (attribute names from `_methodToID`, versions from `_idToMethod`) against the model's `idToMethodX` (driver op `idsx`).
    Correspondence only - the property statement for such classes is what the witness reports."""
    import json
    from harness.witness import d86_private_alias_id_shift as W
    from pysyncobj import SyncObj, SyncObjConf, replicated
    cases = [("private_old", W.OLD_PRIV, [(0, "__priv", 0), (0, "z", 0)], [(0, "_Obj__priv", 0)]),
             ("private_new", W.NEW_PRIV, [(0, "__priv", 0), (0, "z", 0), (0, "__priv", 1)], [(0, "_Obj__priv", 1)]),
             ("alias_old", W.OLD_ALIAS, [(0, "f", 0), (0, "z", 0)], [(0, "alias", 0)]),
             ("alias_new", W.NEW_ALIAS, [(0, "f", 0), (0, "z", 0), (0, "f", 1)], [(0, "alias", 1)])]
    lines, impls = [], []
    for label, src, decls, aliases in cases:
        g = {"SyncObj": SyncObj, "replicated": replicated}
        exec(compile(src, "<alias-case>", "exec"), g)
        o = g["Obj"](ns["Node"]("a"), [], conf=SyncObjConf(autoTick=False), transportClass=ns["DummyTransport"])
        try:
            inv = {i: k for k, i in o._methodToID.items()}
            impls.append([[o._idToMethod[i].ver, 0, L.name_json(inv[i])] for i in range(len(o._idToMethod))])
        finally:
            o._doDestroy()
        lines.append(L.jdump({"op": "idsx", "cls": [[ob, L.name_json(nm), v] for ob, nm, v in decls],
                              "aliases": [[ob, L.name_json(nm), v] for ob, nm, v in aliases]}))
    out = ctx.driver("versions", lines)
    for (label, src, decls, aliases), impl, raw in zip(cases, impls, out):
        res = json.loads(raw)
        cov["alias_case"] += 1
        if res.get("ids") != impl and len(disagreements) < 3:
            disagreements.append({"input": {"case": label, "decls": decls, "aliases": aliases},
                                  "model": [[v, ob, L.name_str(n)] for v, ob, n in res.get("ids", [])] or res,
                                  "impl": [[v, ob, L.name_str(n)] for v, ob, n in impl],
                                  "note": "id table of a class with an alias / private method (idToMethodX)"})


def _monitor_pair(old_rec, new_rec, hyp, violations, cov):
    """Property statement: adding methods whose version is higher than every old version leaves every old id
    pointing at the same method."""
    if not hyp:
        return
    o_ids, n_ids = old_rec["ids"], new_rec["ids"]
    same = len(n_ids) >= len(o_ids) and all(n_ids[i] == o_ids[i] for i in range(len(o_ids))) and \
        new_rec["orig"][:len(o_ids)] == old_rec["orig"]
    cov["pair_stable" if same else "pair_moved"] += 1
    if not same and len(violations) < 3:
        i = next((i for i in range(len(o_ids)) if i >= len(n_ids) or n_ids[i] != o_ids[i]), None)
        violations.append({
            "signature": "syncobj.init:method-id-moved-by-higher-version",
            "what": "id %r is %r on the old code and %r on the new code although every added version is higher"
                    % (i, o_ids[i] if i is not None else None, n_ids[i] if i is not None and i < len(n_ids) else None),
            "replay": {"kind": "pair", "old": old_rec["spec"], "new": new_rec["spec"]}})


def _hyp_holds(old, new):
    olds = set(L.decls_of(old))
    added = [d for d in L.decls_of(new) if d not in olds]
    top = [v for _, _, v in olds]
    return all(v > t for _, _, v in added for t in top), added


def _directed_specs():
    """Systematic cases ahead of the random stream: string order against version order, prefixes, consumers."""
    r, rs = "r", "rs"
    out = []
    out.append(({"objs": [[("a", 9, r), ("a", 10, r), ("a", 0, r)]]}, None))
    out.append(({"objs": [[("a", 0, r), ("a1", 0, r), ("ab", 0, r), ("a_", 0, r), ("A", 0, r), ("_a", 0, rs)]]}, None))
    out.append(({"objs": [[("a", 0, r)], [("a", 0, r)], [("a", 0, rs), ("b", 0, r)]]}, None))
    out.append(({"objs": [[("f", 0, r)], [("g", 1, r)], [("h", 0, r)]]}, None))          # consumer number after version
    out.append(({"objs": [[("z", 0, r), ("a", 1, r)]]}, None))                          # version before name
    out.append(({"objs": [[("a", 2, r)]]}, None))                                        # nothing at version 0: KeyError
    out.append(({"objs": [[("f", 0, r)], []]}, None))                                    # consumer without methods
    # old/new pairs
    out.append(({"objs": [[("f", 0, r), ("g", 0, r)]]}, {"objs": [[("f", 0, r), ("g", 0, r), ("a", 1, r), ("g", 1, rs)]]}))
    out.append(({"objs": [[("b", 0, r)], [("m", 0, r)]]}, {"objs": [[("b", 0, r), ("b", 1, r)], [("m", 0, r), ("a", 1, r)]]}))
    out.append(({"objs": [[("a", 9, r), ("a", 0, r)]]}, {"objs": [[("a", 9, r), ("a", 0, r), ("a", 10, r)]]}))
    # hypothesis violated: a brand new method at version 0 sorts before old ones -> ids move (correspondence only)
    out.append(({"objs": [[("f", 0, r)]]}, {"objs": [[("f", 0, r), ("a", 0, r)]]}))
    out.append(({"objs": [[("f", 0, r), ("f", 2, r)]]}, {"objs": [[("f", 0, r), ("f", 2, r), ("f", 1, r)]]}))
    return out


def run(ctx):
    import collections
    ns = L.load(ctx.repo)
    rng = ctx.rng("versions.ids")
    forbidden = L._forbidden_names()
    cov = collections.Counter()
    lines, jobs = [], []
    violations, disagreements, samples = [], [], []
    distinct = set()
    n_cases = ctx.scale(1200, 30000)
    built = []

    def one(spec, inherit=False):
        src = L.source_of(spec, rng, inherit=inherit)
        b, rec = _check_one(ctx, ns, spec, src, lines, jobs, cov)
        built.append(b)
        _monitor_resolution(spec, rec, violations)
        _monitor_support(spec, rec, violations, cov)
        distinct.add(hashlib.sha1(L.jdump(L.cls_json(spec)).encode()).hexdigest())
        cov["objs_%d" % len(spec["objs"])] += 1
        cov["methods_%s" % min(len(L.decls_of(spec)), 9)] += 1
        if not rec["m2i_ok"]:
            disagreements.append({"input": spec, "model": "methodToID inverse of idToMethod", "impl": "not inverse",
                                  "note": "_methodToID is not the inverse of _idToMethod"})
        if len(samples) < 2:
            samples.append({"source": src, "ids": [[v, o, L.name_str(nm)] for v, o, nm in rec["ids"]],
                            "selfVer": rec["selfVer"]})
        return rec

    cases = 0
    _battery_case(ns, violations, cov)
    _alias_cases(ctx, ns, disagreements, cov)
    cases += 5
    for old, new in _directed_specs():
        ro = one(old)
        cases += 1
        if new is not None:
            rn = one(new, inherit=False)
            hyp, _ = _hyp_holds(old, new)
            cov["pair_hyp" if hyp else "pair_nohyp"] += 1
            _monitor_pair(ro, rn, hyp, violations, cov)
            cases += 1
    while cases < n_cases:
        old = L.gen_spec(rng, forbidden)
        ro = one(old, inherit=rng.random() < 0.2)
        cases += 1
        if rng.random() < 0.6:
            strictly = rng.random() < 0.75
            new = L.gen_added(rng, forbidden, old, strictly_higher=strictly)
            if new is None:
                continue
            rn = one(new, inherit=rng.random() < 0.3)
            hyp, added = _hyp_holds(old, new)
            cov["pair_hyp" if hyp else "pair_nohyp"] += 1
            if any(nm in [a for a, _, _ in old["objs"][o]] for o, nm, _ in added if o < len(old["objs"])):
                cov["pair_new_version_of_old_method"] += 1
            _monitor_pair(ro, rn, hyp, violations, cov)
            cases += 1
        if len(built) > 50:
            for b in built:
                L.destroy(b)
            del built[:]
    for b in built:
        L.destroy(b)

    out = ctx.driver("versions", lines)
    assert len(out) == len(jobs), (len(out), len(jobs))
    import json
    for job, line in zip(jobs, out):
        res = json.loads(line)
        if "error" in res:
            disagreements.append({"input": job[1]["spec"], "model": res, "impl": None, "note": "driver error"})
            continue
        if job[0] == "ids":
            rec = job[1]
            if res["ids"] != rec["ids"] or res["selfVer"] != rec["selfVer"]:
                cov["ids_diff"] += 1
                if len(disagreements) < 3:
                    disagreements.append({"input": rec["spec"],
                                          "model": {"ids": [[v, o, L.name_str(n)] for v, o, n in res["ids"]], "selfVer": res["selfVer"]},
                                          "impl": {"ids": [[v, o, L.name_str(n)] for v, o, n in rec["ids"]], "selfVer": rec["selfVer"]},
                                          "note": "_idToMethod / selfCodeVersion"})
            else:
                cov["ids_equal"] += 1
        else:
            _, rec, e = job
            model = {(o, L.name_str(orig)): (L.name_str(nm), cid) for o, orig, nm, cid in res["table"]}
            impl = {k: v for k, v in rec["tables"][e].items() if v[0] is not None}
            if model != impl:
                cov["table_diff"] += 1
                if len(disagreements) < 3:
                    disagreements.append({"input": {"spec": rec["spec"], "enabled": e},
                                          "model": sorted((list(k), list(v)) for k, v in model.items()),
                                          "impl": sorted((list(k), list(v)) for k, v in impl.items()),
                                          "note": "name table / call id at enabled version"})
            else:
                cov["table_equal"] += 1

    res = {"cases": cases, "distinct": len(distinct), "coverage": dict(cov), "samples": samples,
           "disagreements": disagreements[:3], "violations": violations[:3]}
    floors = ["pair_hyp", "pair_nohyp", "pair_stable", "resolved", "keyerror", "objs_1", "objs_2", "objs_3",
              "ids_equal", "table_equal", "pair_new_version_of_old_method", "top_only_on_consumer", "top_on_object",
              "battery_repllist_top_1", "alias_case"]
    missed = [f for f in floors if not cov.get(f)]
    if missed and not disagreements and not violations:
        res["inconclusive"] = "coverage floor missed: %s" % missed
    return res


def replay(ctx, violation):
    ns = L.load(ctx.repo)
    rp = violation.get("replay", {})
    rng = ctx.rng("versions.ids.replay")
    v = []
    import collections
    cov = collections.Counter()
    if rp.get("kind") == "pair":
        recs = []
        for spec in (rp["old"], rp["new"]):
            spec = {"objs": [[tuple(d) for d in o] for o in spec["objs"]]}
            b, rec = _check_one(ctx, ns, spec, L.source_of(spec, rng), [], [], cov)
            L.destroy(b)
            recs.append(rec)
        _monitor_pair(recs[0], recs[1], True, v, cov)
    elif rp.get("kind") == "battery":
        _battery_case(ns, v, cov)
    elif rp.get("kind") == "ids":
        spec = {"objs": [[tuple(d) for d in o] for o in rp["spec"]["objs"]]}
        b, rec = _check_one(ctx, ns, spec, L.source_of(spec, rng), [], [], cov)
        L.destroy(b)
        _monitor_resolution(spec, rec, v)
        _monitor_support(spec, rec, v, cov)
    return {"violated": bool(v), "violations": v}
