"""C10 monitor `c10.membership`: REAL clusters with `dynamicMembershipChange=True` under harness/sim.py.

Random schedules of: add / remove requests through the API on ANY node (followers forward them), back-to-back
requests, leader isolation and leader change while a change is uncommitted, ticks and deliveries, start of an added
node (fresh, empty, with the current member list).  After every step the property statement is evaluated:

  M1 `otherNodes` of every node == the set defined by the membership commands currently in its log
     (a mismatch that is exactly "the committed entry at lastApplied was applied a second time on top of a later,
      already appended reversal" is defect D6 -> signature `membership:reapply-at-commit-undoes-later-change`)
  M2 a leader appends a membership entry only when every earlier membership entry of its log is applied
     (refusals are behaviour: counted in the coverage)
  M3 no two leaders in one term; state-machine safety (harness/monitors.py)
  M4 `_removeNodeFromCluster` of the node's own address is answered REQUEST_DENIED and queues nothing
  M5 compactions on any node and lagging nodes that catch up by SNAPSHOT: the fold base of a node whose log starts
     at index f > 1 is the member set defined by the COMMITTED membership commands below f (recorded when any node
     applies them: every committed position is applied by somebody before it can be compacted); at quiescence all
     up-to-date members hold the same member set
"""
import collections
import pickle
import time

from harness.sim import Sim
from harness import monitors

PROPERTIES = ["C10"]
ORDER = 45

SIG_D6 = "membership:reapply-at-commit-undoes-later-change"
SIG_FOLD = "membership:members-not-fold-of-log"
SIG_GATE = "membership:change-accepted-while-earlier-uncommitted"
SIG_SELF = "membership:remove-self-not-denied"
SIG_ACK = "membership:request-acknowledged-without-an-applied-entry"
SIG_AGREE = "membership:nodes-disagree-on-member-set"


def mem_entries(sim, i):
    out = []
    for (idx, term, cmd) in sim.log_of(i):
        if cmd[:1] == b"\x02":
            req = pickle.loads(cmd[1:])
            out.append((idx, term, req[0], req[1]))
    return out


def step_set(m, me, kind, node):
    m = set(m)
    if kind == "add" and node != me:
        m.add(node)
    elif kind == "rem":
        m.discard(node)
    return m


class Cluster(object):
    def __init__(self, ctx, rng, n0):
        ids = ["a", "b", "c", "d", "e", "f"]
        self.all = ids
        self.initial = ids[:n0]
        self.sim = Sim(ctx.repo, list(self.initial), conf={"dynamicMembershipChange": True}, seed=rng.randrange(1 << 30))
        self.sim.connect_all()
        self.rng = rng
        self.base = {}            # node -> member set at its start (the fold base)
        for i in self.initial:
            self.base[i] = set(self.initial) - {i}
        self.started = set(self.initial)
        self.seen_mem = collections.defaultdict(set)    # node -> membership entry (idx, term) already seen in its log
        self.isolated = set()
        self.last_commit = {}
        self.prev_members = {}
        self.prev_last = {}
        self.committed_mem = {}   # index -> (kind, node): membership commands as applied (= committed) by any node
        self.max_applied = 1      # highest index some node has applied
        for i in self.initial:
            self.hook(i)
        self.res = []
        self.viols = []
        self.cov = collections.Counter()
        self.snapshot_logs()

    def hook(self, i):
        """the registry part of the transport (C14): dropping a node closes its connection, and a connection exists
        only between two nodes that list each other"""
        sim, t = self.sim, self.sim.transports[i]
        orig_drop = t.dropNode

        def drop(n, i=i):
            orig_drop(n)
            if frozenset((i, n.id)) in sim.alive or (i, n.id) in sim.up:
                sim.disconnect(i, n.id)
        t.dropNode = drop
        if not getattr(sim.Obj, "_c10_apply_hook", False):
            # class-level wrapper on the simulator's own subclass (instance attributes would end up in snapshots)
            base_apply = sim.so.SyncObj._SyncObj__doApplyCommand

            def apply(o, command):
                idx = o._SyncObj__raftLastApplied + 1
                if command[:1] == b"\x02":
                    req = pickle.loads(command[1:])
                    self.committed_mem.setdefault(idx, (req[0], req[1]))
                self.max_applied = max(self.max_applied, idx)
                return base_apply(o, command)
            sim.Obj._SyncObj__doApplyCommand = apply
            sim.Obj._c10_apply_hook = True

    def sync_connections(self):
        sim = self.sim
        live = sorted(sim.objs)
        for x in live:
            for y in live:
                if x < y and x not in self.isolated and y not in self.isolated:
                    both = y in self.members(x) and x in self.members(y)
                    if both and ((x, y) not in sim.up or (y, x) not in sim.up):
                        sim.connect(x, y)

    def snapshot_logs(self):
        for i in self.sim.objs:
            for (idx, term, k, n) in mem_entries(self.sim, i):
                self.seen_mem[i].add((idx, term))

    def members(self, i):
        return set(n.id for n in self.sim.objs[i].otherNodes)

    def ref_cfg(self, upto):
        """member set (all voters) defined by the committed membership commands with index <= upto"""
        m = set(self.initial)
        for idx in sorted(self.committed_mem):
            if idx <= upto:
                k, n = self.committed_mem[idx]
                m = step_set(m, None, k, n)
        return m

    def fold(self, i):
        first = self.sim.log_of(i)[0][0]
        if first <= 1:
            m = set(self.base[i])
        elif first - 1 <= self.max_applied:
            m = self.ref_cfg(first - 1) - {i}     # compacted / installed prefix: committed, applied by somebody
            self.cov["fold-base:committed-prefix"] += 1
        else:
            self.cov["fold-base:unknown"] += 1
            return None
        for (idx, term, k, n) in mem_entries(self.sim, i):
            m = step_set(m, i, k, n)
        return m

    def acknowledged_without_entry(self, what):
        """C10/C02 for membership commands: a request answered SUCCESS stands for ONE applied membership entry of its own."""
        import collections as _c
        acked = _c.Counter()
        for (tag, e) in self.res:
            if e == 0:
                acked[tag.split("@")[0]] += 1               # "add d" / "rem d"
        applied = _c.Counter("%s %s" % (k, n) for (k, n) in self.committed_mem.values())
        for key, n in acked.items():
            if n > applied.get(key, 0) and not any(v["signature"] == SIG_ACK for v in self.viols):
                self.viols.append({"signature": SIG_ACK,
                                   "what": "%s: request '%s' was answered SUCCESS %d time(s) but only %d such membership command(s) "
                                           "were ever applied by any node (callbacks %s)" % (what, key, n, applied.get(key, 0), self.res[-6:])})

    def check(self, what):
        sim = self.sim
        self.sync_connections()
        self.acknowledged_without_entry(what)
        for i in list(sim.objs):
            have, want = self.members(i), self.fold(i)
            if want is not None and have != want:
                la = sim.objs[i].raftLastApplied
                ents = mem_entries(sim, i)
                # D6 pattern: every node in the difference has an APPLIED (idx <= lastApplied) membership entry that
                # says what otherNodes says, and a later entry in the log that reverses it
                d6 = True
                for x in have ^ want:
                    kind = "add" if x in have else "rem"
                    hit = False
                    for e in ents:
                        if e[3] == x and e[2] == kind and e[0] <= la:
                            if any(f[3] == x and f[2] != kind and f[0] > e[0] for f in ents):
                                hit = True
                    d6 = d6 and hit
                self.viols.append({"signature": SIG_D6 if d6 else SIG_FOLD,
                                   "what": "after %s: node %s otherNodes %s, membership commands in its log give %s (lastApplied %d)"
                                           % (what, i, sorted(have), sorted(want), la)})
                self.cov["monitor:d6" if d6 else "monitor:fold-mismatch"] += 1
            # M2: new membership entries appended by a leader in its own term
            o = sim.objs[i]
            cur = mem_entries(sim, i)
            new = [e for e in cur if (e[0], e[1]) not in self.seen_mem[i]]
            if o._isLeader():
                for e in new:
                    if e[1] == o.raftCurrentTerm:
                        earlier = [x for x in cur if x[0] < e[0] and x[0] > o.raftLastApplied]
                        if earlier:
                            self.viols.append({"signature": SIG_GATE,
                                               "what": "after %s: leader %s appended %s while %s is not applied (lastApplied %d)"
                                                       % (what, i, e, earlier, o.raftLastApplied)})
            for e in cur:
                self.seen_mem[i].add((e[0], e[1]))
            # M6: a leader that has just advanced its commit index has the entry stored by a majority of ITS member
            # set (a node that was added but has not acknowledged anything holds nothing and counts for nothing)
            c_now = o.raftCommitIndex
            if o._isLeader() and c_now > self.last_commit.get(i, 0):
                lg = sim.log_of(i)
                ent = [x for x in lg if x[0] == c_now]
                if ent:
                    # member sets the leader had at some moment since the previous check (the step may contain several
                    # ticks: a change accepted after the commit advance must not be held against it)
                    cfgs = []
                    m = set(self.prev_members.get(i, self.members(i)))
                    cfgs.append(sorted(m | {i}))
                    for (idx, term, k, nd) in cur:
                        if idx > self.prev_last.get(i, 0):
                            m = step_set(m, i, k, nd)
                            cfgs.append(sorted(m | {i}))
                    cfgs.append(sorted(self.members(i) | {i}))
                    everybody = sorted(set(x for cfg in cfgs for x in cfg))
                    holders = []
                    for j in everybody:
                        if j not in sim.objs:
                            continue
                        lj = sim.log_of(j)
                        if lj[0][0] > c_now or any(x[0] == c_now and x[1] == ent[0][1] for x in lj):
                            holders.append(j)
                    self.cov["commit-advance-checked"] += 1
                    if not any(2 * len([h for h in holders if h in cfg]) > len(cfg) for cfg in cfgs):
                        self.viols.append({"signature": "membership:commit-without-majority-of-configuration",
                                           "what": "after %s: leader %s advanced its commit index to %d (term %d); its member sets since the previous "
                                                   "step were %s, but only %s store that entry" % (what, i, c_now, ent[0][1], cfgs, holders)})
            self.last_commit[i] = c_now
            self.prev_members[i] = self.members(i)
            self.prev_last[i] = sim.last_index(i)

    def agreement(self):
        """at quiescence: the members that are up to date hold the same member set, the one defined by the committed
        membership commands"""
        sim = self.sim
        top = max(sim.objs[i].raftLastApplied for i in sim.objs)
        if top > self.max_applied:
            return
        ref = self.ref_cfg(top)
        for i in sorted(sim.objs):
            o = sim.objs[i]
            if i not in ref or o.raftLastApplied != top or sim.last_index(i) != top:
                continue
            self.cov["agreement:compared"] += 1
            have = self.members(i) | {i}
            if have != ref:
                self.viols.append({"signature": SIG_AGREE,
                                   "what": "quiescent cluster, everything up to index %d applied: node %s has member set %s, the "
                                           "committed membership commands define %s (others: %s)"
                                           % (top, i, sorted(have), sorted(ref),
                                              {j: sorted(self.members(j) | {j}) for j in sorted(sim.objs) if j != i})})

    def request(self, at, kind, node):
        sim = self.sim
        o = sim.objs[at]
        tag = "%s %s@%s" % (kind, node, at)

        def cb(r, e, tag=tag):
            self.res.append((tag, e))
            self.cov["callback:%s" % e] += 1
        fn = o.addNodeToCluster if kind == "add" else o.removeNodeFromCluster
        sim._call(at, fn, sim.Node(node), callback=cb)
        self.cov["request:" + kind] += 1

    def start_node(self, node):
        """an added node starts empty with the current member list (operator discipline)"""
        sim = self.sim
        # "starts with the current member list": the COMMITTED configuration (the view of a deposed leader with an
        # uncommitted change is not what an operator would pass) = fold of the committed membership entries of the
        # node with the highest commit index
        ref = max(sim.objs, key=lambda i: (sim.objs[i].raftCommitIndex, sim.objs[i].raftCurrentTerm))
        m = set(self.base[ref])
        for (idx, term, k, n) in mem_entries(sim, ref):
            if idx <= sim.objs[ref].raftCommitIndex:
                m = step_set(m, ref, k, n)
        if node not in m:
            return False          # its addition is not committed yet
        others = sorted((m | {ref}) - {node})
        sim.now[node] = max(sim.now.values())
        sim.voters.append(node)
        sim._start(node, others=others)
        self.base[node] = set(others)
        # base = configuration before the first entry of ITS log; its log starts empty (no membership entries yet);
        # entries it receives later are folded over this base, which already contains their effect up to now:
        # take the fold base as "current members minus the effect of what the leader's log will replay"
        self.base[node] = set(self.base[ref]) if False else set(others)
        self.replay_base(node, ref)
        self.started.add(node)
        self.hook(node)
        self.sync_connections()
        self.cov["start-node"] += 1
        return True

    def replay_base(self, node, ref):
        """the new node will receive the whole log of the cluster, membership entries included, and apply them on top
        of the member list it was started with.  Its fold base is that start list (the property fixes the start list
        to be the current member list, under which replaying the history is idempotent)."""
        self.base[node] = set(n.id for n in self.sim.objs[node].otherNodes)


def scenario(ctx, rng, steps):
    c = Cluster(ctx, rng, rng.choice([3, 3, 4, 5]))
    sim = c.sim
    L = sim.elect()
    sim.run(3)
    c.check("election")
    isolated = None
    for s in range(steps):
        if c.viols:
            break
        r = rng.random()
        live = [i for i in sim.objs]
        L = sim.leader(live)
        what = "?"
        if r < 0.22:
            at = rng.choice(live) if rng.random() < 0.5 or L is None else L
            spare = [x for x in c.all if x not in c.started]
            cur = sorted(c.members(at) | {at})
            if rng.random() < 0.55 and spare:
                node = rng.choice(spare + ([rng.choice(cur)] if rng.random() < 0.15 else []))
                c.request(at, "add", node)
                what = "add %s at %s" % (node, at)
            else:
                node = rng.choice(cur + ([at] if rng.random() < 0.2 else []))
                c.request(at, "rem", node)
                what = "rem %s at %s" % (node, at)
            if rng.random() < 0.4:      # back to back
                node2 = rng.choice(c.all)
                c.request(at, rng.choice(["add", "rem"]), node2)
                what += " + back-to-back"
                c.cov["back-to-back"] += 1
        elif r < 0.30 and L is not None and isolated is None:
            victim = L
            if rng.random() < 0.4:
                victim = rng.choice(live)
            for j in live:
                if j != victim:
                    sim.disconnect(victim, j)
            isolated = victim
            c.isolated.add(victim)
            what = "isolate %s %s" % ("leader" if victim == L else "follower", victim)
            c.cov["isolate-leader" if victim == L else "isolate-follower"] += 1
        elif r < 0.38 and isolated is not None:
            c.isolated.discard(isolated)
            what = "heal %s" % isolated
            isolated = None
        elif r < 0.45:
            # start nodes that some node already counts as member and that are not running
            want = set()
            for i in live:
                want |= c.members(i)
            for node in sorted(want):
                if node not in c.started:
                    if c.start_node(node):
                        what = "start %s" % node
                        break
        elif r < 0.52:
            i = rng.choice(live)
            sim.compact(i)
            sim.tick(i, 0.0625)
            sim.tick(i, 0.0625)
            what = "compact %s" % i
            if sim.log_of(i)[0][0] > 1:
                c.cov["compacted-log"] += 1
        elif r < 0.75:
            sim.run(rng.randint(1, 3), dt=rng.choice([0.0625, 0.125, 0.25]))
            what = "run"
        else:
            # partial delivery: tick some nodes, deliver a few messages only
            for i in rng.sample(live, max(1, len(live) // 2)):
                sim.tick(i, rng.choice([0.0625, 0.125, 0.5]))
            keys = [k for k in sim.chan if sim.chan[k]]
            for k in rng.sample(keys, min(len(keys), rng.randint(0, 3))):
                sim.deliver(*k)
            what = "partial"
        c.check(what)
        c.cov["step:" + what.split(" ")[0]] += 1
    # quiesce
    c.isolated.clear()
    c.sync_connections()
    for _ in range(12):
        sim.run(1)
        c.sync_connections()
    c.check("quiesce")
    c.agreement()
    v = c.viols + monitors.leaders_per_term(sim) + monitors.sm_safety(sim)
    for e in sim.errors:
        v.append({"signature": "exception-escaped:%s" % e[1], "what": "node %s: %s %s" % (e[0], e[1], e[2][:100])})
    terms = collections.Counter()
    for (n, term, old, new) in sim.state_changes:
        if new == 2:
            terms[term] += 1
    c.cov["leader-changes"] += max(0, len(terms) - 1)
    return c, v


def directed_snapshot(ctx, rng, grow=2):
    """A member is cut off while the cluster grows by `grow` nodes (one at a time, each committed and started) and
    every other node compacts its log: after the heal it learns the new members from a SNAPSHOT, not from entries."""
    c = Cluster(ctx, rng, 4)      # 4 voters: with one cut off the other three still commit an addition
    sim = c.sim
    L = sim.elect()
    sim.run(3)
    if L is None:
        return c, [], "no leader"
    victim = rng.choice([i for i in sim.voters if i != L])
    for j in list(sim.objs):
        if j != victim:
            sim.disconnect(victim, j)
    c.isolated.add(victim)
    c.cov["isolate-follower"] += 1
    for node in ["e", "f"][:grow]:
        for attempt in range(60):
            live = [i for i in sim.objs if i != victim]
            L = sim.leader(live)
            if L is not None and node not in c.members(L):
                c.request(L, "add", node)
            sim.run(2)
            c.check("grow %s" % node)
            if node not in c.started and c.start_node(node):
                break
        sim.run(6)
        c.check("started %s" % node)
    L = sim.leader([i for i in sim.objs if i != victim])
    if L is not None:
        for k in range(3):
            sim.submit(L, "g%d" % k)
    sim.run(6)
    for i in list(sim.objs):
        if i != victim:
            sim.compact(i)
    sim.run(4)
    if all(sim.log_of(i)[0][0] > 1 for i in sim.objs if i != victim):
        c.cov["compacted-log"] += 1
    first_before = sim.log_of(victim)[0][0]
    c.isolated.discard(victim)
    c.sync_connections()
    for _ in range(24):
        sim.run(1)
        c.sync_connections()
        c.check("catch-up of %s" % victim)
        if c.viols:
            break
    note = None
    if sim.log_of(victim)[0][0] > first_before:
        c.cov["caught-up-by-snapshot"] += 1
    else:
        note = "victim did not need a snapshot"
    c.agreement()
    v = c.viols + monitors.leaders_per_term(sim) + monitors.sm_safety(sim)
    for e in sim.errors:
        v.append({"signature": "exception-escaped:%s" % e[1], "what": "node %s: %s %s" % (e[0], e[1], e[2][:100])})
    return c, v, note


def directed_snapshot_removal(ctx, rng, raising_waiter=False):
    """A member is cut off while another member is REMOVED (committed) and everybody else compacts: after the heal it
    learns the removal from a snapshot — the removed node must be gone from its member set."""
    c = Cluster(ctx, rng, 5)
    sim = c.sim
    L = sim.elect()
    sim.run(3)
    if L is None:
        return c, [], "no leader"
    others = [i for i in sim.voters if i != L]
    victim, gone = others[0], others[1]
    waiter_calls = []
    if raising_waiter:
        # the victim waits for a forwarded command of its own (it was told the position) whose callback RAISES; the
        # snapshot that covers the position calls it in the middle of the install
        sim.submit(victim, "fwd")
        sim.tick(victim, 0.0)
        while sim.deliver(victim, L):
            pass
        sim.tick(L, 0.0)
        while True:
            x = sim.deliver(L, victim)
            if x is None or x.get("type") == "apply_command_response":
                break
        waiting = getattr(sim.objs[victim], "_SyncObj__commandsWaitingCommit")
        for idx in list(waiting):
            def mk(cb0):
                def cb1(res, err):
                    waiter_calls.append(err)
                    cb0(res, err)
                    raise RuntimeError("callback of the application failed")
                return cb1
            waiting[idx] = [(t, mk(cb0)) for (t, cb0) in waiting[idx]]
        c.waiter_calls = waiter_calls
    for j in list(sim.objs):
        if j != victim:
            sim.disconnect(victim, j)
    c.isolated.add(victim)
    c.request(L, "rem", gone)
    for _ in range(12):
        sim.run(1)
        c.check("rem %s" % gone)
    # the removed node is shut down (operator discipline)
    for j in list(sim.objs):
        if j != gone:
            sim.disconnect(gone, j)
    c.isolated.add(gone)
    live = [i for i in sim.objs if i not in (victim, gone)]
    L = sim.leader(live)
    if L is not None:
        for k in range(3):
            sim.submit(L, "r%d" % k)
    sim.run(6, among=live)
    for i in live:
        sim.compact(i)
    sim.run(4, among=live)
    first_before = sim.log_of(victim)[0][0]
    c.isolated.discard(victim)
    c.sync_connections()
    for _ in range(24):
        sim.run(1, among=live + [victim])
        c.sync_connections()
        c.check("catch-up of %s after the removal of %s" % (victim, gone))
        if c.viols:
            break
    note = None
    if sim.log_of(victim)[0][0] > first_before:
        c.cov["learned-removal-by-snapshot"] += 1
    else:
        note = "victim did not need a snapshot"
    if gone in c.members(victim) and sim.objs[victim].raftLastApplied >= sim.objs[live[0]].raftLastApplied - 1:
        c.viols.append({"signature": SIG_FOLD,
                        "what": "node %s caught up by snapshot after %s was removed (committed): its member set still contains %s: %s"
                                % (victim, gone, gone, sorted(c.members(victim)))})
    v = c.viols + monitors.sm_safety(sim)
    for e in sim.errors:
        v.append({"signature": "exception-escaped:%s" % e[1], "what": "node %s: %s %s" % (e[0], e[1], e[2][:100])})
    return c, v, note


def directed_overlap(ctx, rng, kind="add"):
    """A re-sent batch that OVERLAPS the follower's log (entries it already stores, a membership command among them)
    and ends with a new entry — what a leader sends after a stale rejection hint: the kept entries stay effective."""
    c = Cluster(ctx, rng, 4 if kind == "rem" else 3)
    sim = c.sim
    L = sim.elect()
    sim.run(3)
    if L is None:
        return c, [], "no leader"
    F = [i for i in sim.voters if i != L][0]
    node = "e" if kind == "add" else [i for i in sim.voters if i not in (L, F)][0]
    sim.submit(L, "x1")
    sim.run(3)
    c.request(L, kind, node)
    for _ in range(8):
        sim.run(1)
        c.check("%s %s" % (kind, node))
    sim.submit(L, "x2")
    sim.run(4)
    c.check("x2")
    held = sim.log_of(F)
    if not any(cmd[:1] == b"\x02" for (_, _, cmd) in held):
        return c, c.viols, "membership entry did not reach the follower"
    # the leader appends one more entry; its message to F is replaced by the overlapping re-send of 2..end
    sim.submit(L, "x3")
    sim.tick(L, 0.0625)
    sim.tick(L, 0.125)
    sim.chan[(L, F)].clear()
    full = sim.log_of(L)
    o = sim.objs[L]
    msg = {"type": "append_entries", "term": o.raftCurrentTerm, "commit_index": o.raftCommitIndex,
           "entries": [(cmd, idx, term) for (idx, term, cmd) in full[1:]], "prevLogIdx": full[0][0], "prevLogTerm": full[0][1]}
    sim.inject(L, F, msg)
    c.check("overlapping re-send of %d entries (%d already stored)" % (len(full) - 1, len(held) - 1))
    c.cov["overlap-resend"] += 1
    sim.run(6)
    c.check("after the re-send")
    v = c.viols + monitors.sm_safety(sim)
    for e in sim.errors:
        v.append({"signature": "exception-escaped:%s" % e[1], "what": "node %s: %s %s" % (e[0], e[1], e[2][:100])})
    return c, v, None


def directed_long_conflict(ctx, rng, kind="rem"):
    """A leader change while a membership change is UNCOMMITTED, with a conflicting suffix on a follower that is LONGER
    than the batch the new leader sends: old leader A appends [x, <kind> node] that reach F only; B (log shorter) is
    elected by the others and sends just its no-op.  F deletes the whole suffix - the membership entry in it must be
    taken back, however short the incoming batch is."""
    c = Cluster(ctx, rng, 5)
    sim = c.sim
    A = sim.elect()
    sim.run(4)
    if A is None:
        return c, [], "no leader"
    others = [i for i in sim.voters if i != A]
    F, rest = others[0], others[1:]
    node = "e9" if kind == "add" else rest[-1]
    # A is cut off from everybody but F (silently: it keeps believing), appends a regular entry and the change
    for j in rest:
        sim.cut(A, j)
    sim.submit(A, "x1")
    c.request(A, kind, node)
    for _ in range(3):
        sim.tick(A, 0.0625)
        while sim.deliver(A, F):
            pass
        sim.tick(F, 0.0)
        while sim.deliver(F, A):
            pass
    held = sim.log_of(F)
    if not any(cmd[:1] == b"\x02" for (_, _, cmd) in held):
        return c, c.viols, "membership entry did not reach the follower"
    c.check("uncommitted %s %s on %s and %s" % (kind, node, A, F))
    # A and F lose each other; the other three elect a leader whose log is shorter than F's
    sim.disconnect(A, F)
    for j in rest:
        sim.notice(j, A)
    c.isolated.add(A)
    c.isolated.add(F)
    B = None
    for _ in range(200):
        sim.run(1, among=rest)
        B = sim.leader(rest)
        if B is not None:
            break
    if B is None:
        return c, c.viols, "no second leader"
    before = len(held)
    # F comes back: B's first message to it carries few entries (its no-op), F's conflicting suffix is longer
    c.isolated.discard(F)
    for j in rest:
        sim.connect(F, j)
    for _ in range(16):
        sim.run(1, among=rest + [F])
        c.check("catch-up of %s under %s after the uncommitted %s %s" % (F, B, kind, node))
        if c.viols:
            break
    c.cov["long-conflict-truncated"] += 1
    mem = c.members(F)
    bad = (node not in mem) if kind == "rem" else (node in mem)
    if bad and not c.viols:
        c.viols.append({"signature": SIG_FOLD,
                        "what": "follower %s deleted the uncommitted '%s %s' (suffix of %d entries, longer than the batch of leader %s) "
                                "but its member set is %s" % (F, kind, node, before - 1, B, sorted(mem))})
    v = c.viols + monitors.sm_safety(sim)
    for e in sim.errors:
        v.append({"signature": "exception-escaped:%s" % e[1], "what": "node %s: %s %s" % (e[0], e[1], e[2][:100])})
    return c, v, None


def directed_add_with_backlog(ctx, rng, n0=3):
    """`add` accepted while the leader holds uncommitted entries and cannot reach the other voter: the new, empty node
    must not count for those entries."""
    c = Cluster(ctx, rng, n0)
    sim = c.sim
    L = sim.elect()
    sim.run(4)
    if L is None:
        return c, [], "no leader"
    others = [i for i in sim.voters if i != L]
    sim.submit(L, "x0")
    sim.run(4)
    c.check("x0")
    # the leader applies its no-op and x0, then loses both followers silently; three commands stay uncommitted
    for j in others:
        sim.cut(L, j)
    for k in range(3):
        sim.submit(L, "u%d" % k)
    sim.tick(L, 0.0625)
    c.request(L, "add", "e")
    for _ in range(6):
        sim.tick(L, 0.0625)
        c.check("add e with a backlog")
    c.cov["add-with-backlog"] += 1
    v = c.viols + monitors.callbacks_contract(sim)
    acked = [cb for cb in sim.callbacks if cb[3] == 0 and cb[0] == L]
    subs = {ev[4]: ev[2] for ev in sim.trace if ev[0] == "submit"}
    for (_, cid, res, err) in acked:
        if str(subs.get(cid, "")).startswith("u"):
            v.append({"signature": "membership:commit-without-majority-of-configuration",
                      "what": "leader %s cut off from both followers reported SUCCESS for %r after accepting `add e` (e never started)"
                              % (L, subs.get(cid))})
    return c, v, None


def remove_self_check(ctx):
    """M4: admin path `_removeNodeFromCluster([own address])`"""
    from harness.sim import load_pysyncobj
    so, tr = load_pysyncobj(ctx.repo)
    from pysyncobj.node import TCPNode
    sim = Sim(ctx.repo, ["a"], conf={"dynamicMembershipChange": True}, seed=1)
    o = sim.objs["a"]
    o._SyncObj__selfNode = TCPNode("localhost:4321")
    got = []
    o._removeNodeFromCluster(["localhost:4321"], lambda r, e: got.append(e))
    q = list(o._SyncObj__commandsQueue._FastQueue__queue)
    if got != [6] or q:
        return [{"signature": SIG_SELF, "what": "remove of own address: callbacks %s, queued %d" % (got, len(q))}]
    return []


def run(ctx):
    t0 = time.time()
    rng = ctx.rng("c10.membership")
    cov = collections.Counter()
    viols = remove_self_check(ctx)
    n = 0
    runs = ctx.scale(500, 8000)
    end = t0 + ctx.budget_s * (0.5 if ctx.tier == "quick" else 0.9)
    sample = None
    for g in (1, 2):
        for rep in range(ctx.scale(1, 4)):
            c, v, note = directed_snapshot(ctx, rng, g)
            n += 1
            cov.update(c.cov)
            for x in v:
                x.setdefault("replay", {"directed": "snapshot", "grow": g, "seed": ctx.seed, "trace": c.sim.trace[-40:]})
            viols += v
    c, v, note = directed_snapshot_removal(ctx, rng)
    n += 1
    cov.update(c.cov)
    for x in v:
        x.setdefault("replay", {"directed": "snapshot_removal", "seed": ctx.seed, "trace": c.sim.trace[-30:]})
    viols += v
    for n0 in (2, 3, 4):
        c, v, note = directed_add_with_backlog(ctx, rng, n0)
        n += 1
        cov.update(c.cov)
        for x in v:
            x.setdefault("replay", {"directed": "add_with_backlog", "n0": n0, "seed": ctx.seed, "trace": c.sim.trace[-30:]})
        viols += v
    for kind in ("add", "rem"):
        c, v, note = directed_overlap(ctx, rng, kind)
        n += 1
        cov.update(c.cov)
        for x in v:
            x.setdefault("replay", {"directed": "overlap", "kind": kind, "seed": ctx.seed, "trace": c.sim.trace[-30:]})
        viols += v
    for kind in ("rem", "add"):
        c, v, note = directed_long_conflict(ctx, rng, kind)
        n += 1
        cov.update(c.cov)
        for x in v:
            x.setdefault("replay", {"directed": "long_conflict", "kind": kind, "seed": ctx.seed, "trace": c.sim.trace[-30:]})
        viols += v
    for k in range(runs):
        if time.time() > end or [x for x in viols if x["signature"] != SIG_D6]:
            break
        c, v = scenario(ctx, rng, rng.randint(15, 45))
        n += 1
        cov.update(c.cov)
        if sample is None:
            sample = {"trace_events": len(c.sim.trace), "callbacks": c.res[:6]}
        for x in v:
            x.setdefault("replay", {"run": k, "seed": ctx.seed, "trace": c.sim.trace[-40:]})
        viols += v
        if [x for x in viols if x["signature"] != SIG_D6]:
            break
    # one violation per signature
    out, sigs = [], set()
    for x in viols:
        if x["signature"] not in sigs:
            sigs.add(x["signature"])
            out.append(x)
    res = {"name": "corr.c10_membership", "cases": n, "distinct": n, "coverage": dict(sorted(cov.items())),
           "samples": [sample], "disagreements": [], "violations": out[:4], "wall_s": round(time.time() - t0, 2)}
    need = ["request:add", "request:rem", "callback:6", "callback:0", "back-to-back", "isolate-leader", "start-node",
            "isolate-follower", "compacted-log", "fold-base:committed-prefix", "agreement:compared",
            "caught-up-by-snapshot", "overlap-resend", "add-with-backlog", "commit-advance-checked",
            "learned-removal-by-snapshot", "long-conflict-truncated"]
    missing = [k for k in need if cov[k] == 0]
    if missing and not out:
        res["inconclusive"] = "coverage floor missed: " + ", ".join(missing)
    return res


def replay(ctx, violation):
    """The component is deterministic in VERIF_SEED (one PRNG): the recorded violation is reproduced by running the same
    plan again and looking for the same signature."""
    rp = violation.get("replay", {})
    if "seed" in rp:
        ctx.seed = rp["seed"]
    r = run(ctx)
    same = [v for v in r["violations"] if v["signature"] == violation.get("signature")]
    return {"violated": bool(same), "violations": (same or r["violations"])[:3], "replayed": rp.get("directed", "run %s" % rp.get("run"))}
