"""C14 correspondence + property monitors: real TCPTransport / TcpConnection / TcpServer over the in-process socket
fabric (transport_fabric.py) against the Lean model `PSO.Transport` (driver component `transport`).

After EVERY event the registry abstraction of the transport that executed code (members, read-only ids,
node -> connection object, unknown connections, last connect attempts, state / last read time / callback binding of
every connection object ever created, the SyncObj-level connected view derived from the callbacks) and the ordered
outputs of the event (callbacks, deliveries with source, send() result, escaping exception) are compared with the
model.  Independently the C14 statement is evaluated on the real objects (monitors in transport_fabric.Sim):
deliveries only from members and only with the true source, at most one CONNECTED connection object per peer,
'connected' notifications only with a CONNECTED registered connection, and - after a fault-free tail - every pair
connected again within connectionRetryTime + 4 rounds.
"""
PROPERTIES = ["C14", "C18", "C13"]
ORDER = 50

import glob
import hashlib
import json
import os
import time

from harness import checklib
from harness.corr import transport_fabric as tf

TICKP = 256          # period of the fair tail (1/4 s)


class Disagree(Exception):
    def __init__(self, info):
        Exception.__init__(self, "disagreement")
        self.info = info


def canon_model(st):
    return {
        "nodes": sorted(st["nodes"]),
        "ro": sorted(st["ro"]),
        "roCounter": st["roCounter"],
        "reg": sorted(st["reg"], key=repr),
        "unknown": sorted(st["unknown"]),
        "last": sorted(st["last"]),
        "view": sorted(repr(x) for x in st["view"]),
        "conns": [[c[0], c[1], c[2] if c[1] != 0 else None, c[3], c[4]] for c in st["conns"]],
    }


def canon_real(sim, i):
    a = sim.abstract(i)
    conns = []
    for cid, c in enumerate(sim.conn_objs[i]):
        st = c.state
        conns.append([cid, st, a["conns"][cid][2] if st != 0 else None,
                      1 if c._TcpConnection__onConnected is not None else 0, sim.bound_node(c)])
    r = {k: a[k] for k in ("nodes", "ro", "roCounter", "reg", "unknown", "last", "view")}
    r["conns"] = conns
    if a["addrs"] != a["nodes"]:
        r["addrs!=nodes"] = a["addrs"]
    if a["prevent"]:
        r["prevent"] = a["prevent"]
    return r


class Runner(object):
    """One world + the model instances; `apply(action)` runs one action on both sides and diffs."""

    def __init__(self, repo, drv, cfg, diff=True):
        self.cfg = cfg
        self.drv = drv
        self.diff = diff and drv is not None     # diff=False: monitors only (search / witnesses)
        self.sim = tf.Sim(repo, cfg["n"], readonly=cfg.get("readonly", ()), retry=cfg["retry"], timeout=cfg["timeout"],
                          fds=cfg.get("fds", "lowest"))
        self.trace = []
        self.violations = []
        self.guards = self.sim.cov
        for i in range(self.sim.n):
            self._model(i, self.sim.init_line(i), [], ["init"])

    def close(self):
        self.sim.close()

    def _model(self, i, line, out, action):
        for o in out:
            if o[0] == "raised":
                self.sim.cov["raised." + o[1]] += 1
        if not self.diff:
            return None
        r = json.loads(self.drv.ask(line))
        out = [["raised"] if o[0] == "raised" else o for o in out]
        if "error" in r:
            raise Disagree({"input": {"cfg": self.cfg, "actions": self.trace}, "model": r, "impl": None,
                            "note": "driver rejected line %r" % line})
        m_out = r["out"]
        m_st = canon_model(r["st"])
        i_st = canon_real(self.sim, i)
        if m_out != out or m_st != i_st:
            diff = {k: [m_st.get(k), i_st.get(k)] for k in set(m_st) | set(i_st) if m_st.get(k) != i_st.get(k)}
            raise Disagree({"input": {"cfg": self.cfg, "actions": self.trace}, "line": line,
                            "model": {"out": m_out, "state_diff": {k: v[0] for k, v in diff.items()}},
                            "impl": {"out": out, "state_diff": {k: v[1] for k, v in diff.items()}},
                            "note": "transport %d after action %r" % (i, action)})
        return r

    def apply(self, action):
        """Returns False if the action is not enabled in the current world (it is then skipped)."""
        sim = self.sim
        k = action[0]
        socks = sim.fabric.socks
        steps = None
        try:
            if k == "adv":
                steps = sim.a_advance(action[1])
            elif k == "tick":
                steps = sim.a_tick(action[1], action[2])
            elif k == "syn_ok":
                s = socks.get(action[1])
                if s is not None and s in sim.connecting_socks():
                    steps = sim.a_syn_ok(s)
            elif k == "accept":
                steps = sim.a_accept(action[1])
            elif k == "cev":
                s = socks.get(action[1])
                if s is not None and s in sim.pending_connected():
                    steps = sim.a_client_event(s, action[2], action[3])
            elif k == "err":
                s = socks.get(action[1])
                if s is not None and sim.owner_live(s) and not s.closed and s.kind in ("connecting", "established") \
                        and s not in sim.strangers:
                    if not (s.kind == "connecting" and action[2] in ("rst", "eof")):
                        steps = sim.a_conn_error(s, action[2], action[3])
            elif k == "idle":
                if action[2] < len(sim.conn_objs[action[1]]):
                    steps = sim.a_poll_idle(action[1], action[2], action[3])
            elif k == "dlv":
                if action[1] < len(sim.wires):
                    steps = sim.a_deliver(sim.wires[action[1]], action[2], action[3], action[4], action[5])
            elif k == "frag":
                if action[1] < len(sim.wires):
                    steps = sim.a_deliver(sim.wires[action[1]], action[2], 1, False, action[4], nbytes=action[3])
            elif k == "send":
                steps = sim.a_send(action[1], action[2], action[3], action[4], action[5],
                                   size=action[6] if len(action) > 6 else 0)
            elif k == "add":
                steps = sim.a_add(action[1], action[2])
            elif k == "drop":
                steps = sim.a_drop(action[1], action[2])
            elif k == "accept_err":
                steps = sim.a_accept_error(action[1], action[2] if len(action) > 2 else "ECONNABORTED")
            elif k == "sconn":
                steps = [] if sim.a_stranger_connect(action[1]) is not None else None
            elif k == "ssend":
                if action[1] < len(sim.wires) and sim.wires[action[1]].ends[0] in sim.strangers:
                    steps = sim.a_stranger_send(sim.wires[action[1]], action[2])
            elif k == "restart":
                steps = sim.a_restart(action[1], action[2])
            else:
                raise ValueError(action)
        except Disagree:
            raise
        if steps is None:
            return False
        self.trace.append(action)
        # the property monitors look at the real objects only and run before (and regardless of) the model diff
        mv = sim.monitor() + sim.monitor_deliveries()
        for v in mv:
            v["replay"] = {"cfg": self.cfg, "actions": list(self.trace)}
            self.violations.append(v)
        for (i, line, out) in steps:
            r = self._model(i, line, out, action)
            if r is not None:
                self._guards(line, out, r)
        return True

    def _guards(self, line, out, r):
        g = self.guards
        op = line.split()[0]
        names = [o[0] for o in out]
        if op in ("connerr", "recv", "pollok", "send") and "nodeDisc" in names:
            cid = None
            if op != "send":
                cid = int(line.split()[2])
                st = r["st"]["conns"][cid][1]
                g["guard.%s.after-disconnect-state=%d" % (op, st)] += 1
        if op == "recv":
            if "nodeDisc" in names and "nodeConn" in names and names.index("nodeDisc") < names.index("nodeConn"):
                g["guard.stale-replaced"] += 1
            if "raised" in names:
                g["guard.unhashable-raise"] += 1
            if "utility" in names:
                g["guard.utility"] += 1
            if "roConn" in names:
                g["guard.readonly-handshake"] += 1
            if "deliver" in names:
                g["guard.deliver"] += 1
            if not out and " A" in line or " H" in line:
                g["guard.handshake-reject-or-timeout"] += 1
        if op == "send" and "nodeDisc" in names:
            g["guard.send.disconnects"] += 1
        if op == "pollok" and "nodeConn" in names:
            g["guard.outgoing-connected"] += 1
        if op == "drop" and "nodeDisc" in names:
            g["guard.drop.reports-disconnect"] += 1
        if op == "tick":
            g["guard.tick"] += 1

    # ---- fair tail: the reconnect bound -----------------------------------------------------------
    def heal(self, rounds=None):
        sim = self.sim
        bound = sim.retry + 4 * TICKP
        start = sim.fabric.now
        payload = 900
        while sim.fabric.now - start < bound:
            self.apply(["adv", TICKP])
            for i in range(sim.n):
                self.apply(["tick", i, []])
            for _ in range(2):
                for s in list(sim.connecting_socks()):
                    self.apply(["syn_ok", s.sid])
                for j in range(sim.n):
                    while self.apply(["accept", j]):
                        pass
                for s in list(sim.pending_connected()):
                    self.apply(["cev", s.sid, False, False])
                for w in range(len(sim.wires)):
                    for side in (0, 1):
                        while self.apply(["dlv", w, side, 99, False, False]):
                            pass
            for i in range(sim.n):
                for j in sorted(sim.members[i]):
                    payload += 1
                    self.apply(["send", i, ["tcp", j], payload, False, False])
            for _ in range(2):
                for w in range(len(sim.wires)):
                    for side in (0, 1):
                        while self.apply(["dlv", w, side, 99, False, False]):
                            pass
        # every pair of mutual members must be connected now, both ends, and agree with the notifications
        for i in range(sim.n):
            for j in sorted(sim.members[i]):
                if i in sim.readonly or j in sim.readonly or i not in sim.members[j]:
                    continue
                if (i, j) in sim.tainted or (j, i) in sim.tainted:
                    sim.cov["heal.skipped-impersonated-pair"] += 1
                    continue
                t = sim.transports[i]
                conn = t._connections.get(sim.node(j))
                ok = conn is not None and conn.state == 2 and repr(["tcp", j]) in sim.view[i]
                if ok:
                    r, out = sim.call(i, lambda: t.send(sim.node(j), {"k": 7}))
                    self._model(i, "send %d T %d 0 0" % (i, j), out + [["sendResult", 1 if r else 0]], ["probe"])
                    ok = bool(r)
                if not ok:
                    self.violations.append({
                        "signature": "transport.reconnect:bound-exceeded",
                        "what": "after a fault-free tail of %d (retry %d + 4 rounds of %d) transport %d has no working "
                                "connection to member %d" % (bound, sim.retry, TICKP, i, j),
                        "replay": {"cfg": self.cfg, "actions": list(self.trace), "heal": True}})
        self.guards["heal"] += 1


# ------------------------------------------------------------------------------------------------
# schedules
# ------------------------------------------------------------------------------------------------
def connect_pair(d, a):
    """Actions that connect dialler d to acceptor a in a fresh world where nothing else is pending.
    Uses symbolic picks resolved at run time: see run_actions."""
    return [["tick", a, []], ["tick", d, []], ["syn_ok*", d, a], ["accept", a], ["cev*", d, a, False, False],
            ["dlv*", d, a, 0, 99]]


def run_actions(runner, actions):
    """Actions may use symbolic socket references (resolved against the current world):
       ["syn_ok*", d, a]        newest connecting socket of d towards a
       ["cev*", d, a, sf, f]    newest answered socket of d towards a
       ["err*", d, a, style, f] newest socket of d towards a
       ["dlv*", d, a, side, k, rf?, f?]  newest wire d->a
    """
    sim = runner.sim
    for act in actions:
        k = act[0]
        if k == "frag*":
            d, a = act[1], act[2]
            ws = [i for i, w in enumerate(sim.wires) if w.ends[0].owner == d and w.ends[0].dest[1] == sim.port(a)]
            if ws:
                runner.apply(["frag", ws[-1], act[3], act[4], False])
        elif k == "dlv*":
            d, a = act[1], act[2]
            ws = [i for i, w in enumerate(sim.wires) if w.ends[0].owner == d and w.ends[0].dest[1] == sim.port(a)]
            if ws:
                runner.apply(["dlv", ws[-1], act[3], act[4], act[5] if len(act) > 5 else False,
                              act[6] if len(act) > 6 else False])
        elif k.endswith("*"):
            d, a = act[1], act[2]
            cands = [s for s in sim.fabric.socks.values()
                     if s.owner == d and s.dest and s.dest[1] == sim.port(a) and s.kind != "listening"
                     and getattr(s, "inc", 0) == sim.incarnation[d]]
            if not cands:
                continue
            s = cands[-1]
            if k == "syn_ok*":
                runner.apply(["syn_ok", s.sid])
            elif k == "cev*":
                runner.apply(["cev", s.sid, act[3], act[4]])
            elif k == "err*":
                runner.apply(["err", s.sid, act[3], act[4]])
        elif k == "heal":
            runner.heal()
        else:
            runner.apply(act)


def directed():
    """Systematic enumerator: every fault class of the property and every guard of the mirrored code at least once."""
    S = []
    base = {"n": 2, "retry": 2048, "timeout": 4096}
    up = connect_pair(1, 0)
    # plain connect, exchange in both directions, idle poll
    S.append(("connect-exchange", base, up + [["send", 1, ["tcp", 0], 1, False, False], ["dlv*", 1, 0, 0, 99],
                                             ["send", 0, ["tcp", 1], 2, False, False], ["dlv*", 1, 0, 1, 99],
                                             ["idle", 1, 0, False], ["idle", 0, 0, False], ["heal"]]))
    # refuse (both error styles), throttle, retry exactly at / just below connectionRetryTime
    for style in ("soerr", "mask"):
        S.append(("refuse-" + style, base, [["tick", 0, []], ["tick", 1, []], ["err*", 1, 0, style, False],
                                           ["adv", 2047], ["tick", 1, []], ["adv", 1], ["tick", 1, []],
                                           ["err*", 1, 0, style, False], ["heal"]]))
    S.append(("connect-fails-immediately", base, [["tick", 0, []], ["tick", 1, [0]], ["adv", 2048], ["tick", 1, [0]],
                                                  ["adv", 2048], ["tick", 1, []], ["heal"]]))
    S.append(("retry-zero", {"n": 2, "retry": 0, "timeout": 1024},
              [["tick", 0, []], ["tick", 1, []], ["err*", 1, 0, "soerr", False], ["err*", 1, 0, "soerr", True],
               ["tick", 1, []], ["heal"]]))
    # reset / EOF of an established connection seen by either end; reconnect inside the disconnect (old attempt)
    for style in ("rst", "eof", "mask", "soerr"):
        S.append(("reset-dialler-" + style, base, up + [["adv", 3000], ["err*", 1, 0, style, False], ["heal"]]))
        S.append(("reset-dialler-early-" + style, base, up + [["adv", 100], ["err*", 1, 0, style, False], ["heal"]]))
    S.append(("reset-acceptor", base, up + [["adv", 3000], ["err", 103, "rst", False], ["heal"]]))
    S.append(("reconnect-fails-inside-disconnect", base, up + [["adv", 3000], ["err*", 1, 0, "rst", True], ["heal"]]))
    # black hole until the read timeout: noticed by send(), by late data (D53), on either side
    S.append(("blackhole-timeout-by-send", base, up + [["adv", 4097], ["send", 1, ["tcp", 0], 3, False, False],
                                                       ["send", 0, ["tcp", 1], 4, False, False], ["heal"]]))
    S.append(("blackhole-timeout-exact", base, up + [["adv", 4096], ["send", 1, ["tcp", 0], 3, False, False],
                                                     ["adv", 1], ["heal"]]))
    S.append(("blackhole-late-data-D53", base, up + [["send", 0, ["tcp", 1], 5, False, False], ["adv", 5000],
                                                     ["dlv*", 1, 0, 1, 99], ["send", 1, ["tcp", 0], 6, False, False],
                                                     ["heal"]]))
    S.append(("connecting-times-out", base, [["tick", 0, []], ["tick", 1, []], ["syn_ok*", 1, 0], ["adv", 4097],
                                            ["cev*", 1, 0, False, False], ["heal"]]))
    # the send of the own address fails right after the connect (D53), with and without an immediate retry
    S.append(("address-send-fails", base, [["tick", 0, []], ["tick", 1, []], ["syn_ok*", 1, 0], ["accept", 0],
                                          ["cev*", 1, 0, True, False], ["heal"]]))
    S.append(("address-send-fails-slow-connect", base, [["tick", 0, []], ["tick", 1, []], ["adv", 2100],
                                                       ["syn_ok*", 1, 0], ["accept", 0], ["cev*", 1, 0, True, False],
                                                       ["send", 1, ["tcp", 0], 1, False, False], ["heal"]]))
    # half-open + stale connection replaced by a new incoming one (D52), then removal (D51), then stale data
    stale = up + [["adv", 3900], ["send", 1, ["tcp", 0], 5, False, False], ["dlv*", 1, 0, 0, 99],
                  ["send", 1, ["tcp", 0], 6, False, False], ["adv", 1100], ["send", 1, ["tcp", 0], 7, False, False],
                  ["adv", 10], ["tick", 1, []], ["syn_ok*", 1, 0], ["accept", 0], ["cev*", 1, 0, False, False],
                  ["dlv*", 1, 0, 0, 99]]
    S.append(("stale-replaced", base, stale + [["dlv", 0, 0, 1, False, False], ["heal"]]))
    S.append(("stale-replaced-drop", base, stale + [["drop", 0, ["tcp", 1]], ["dlv", 0, 0, 1, False, False],
                                                    ["add", 0, 1], ["heal"]]))
    # dropNode / addNode: connected, connecting, disconnected; re-add while unreachable (D51)
    S.append(("drop-connected-both", base, up + [["drop", 0, ["tcp", 1]], ["drop", 1, ["tcp", 0]], ["dlv*", 1, 0, 0, 99],
                                                 ["dlv*", 1, 0, 1, 99], ["add", 0, 1], ["add", 1, 0],
                                                 ["tick", 1, [0]], ["send", 1, ["tcp", 0], 1, False, False],
                                                 ["heal"]]))
    S.append(("drop-connecting", base, [["tick", 0, []], ["tick", 1, []], ["drop", 1, ["tcp", 0]], ["add", 1, 0],
                                       ["tick", 1, []], ["heal"]]))
    S.append(("drop-absent-and-double-add", base, [["drop", 0, ["tcp", 1]], ["drop", 0, ["tcp", 1]],
                                                  ["drop", 0, ["ro", 3]], ["add", 1, 0], ["tick", 0, []],
                                                  ["tick", 1, []], ["add", 0, 1], ["heal"]]))
    # restarts: silent (half-open until somebody sends) and with FIN
    for silent in (True, False):
        S.append(("restart-dialler-%s" % silent, base, up + [["restart", 1, silent], ["heal"]]))
        S.append(("restart-acceptor-%s" % silent, base, up + [["restart", 0, silent], ["heal"]]))
    # the dialling peer loses power (no FIN/RST) and dials again within connectionTimeout: the acceptor still holds the
    # half-open connection as CONNECTED when the new one introduces itself -> disconnected, then connected
    S.append(("power-loss-and-redial", base, up + [["send", 1, ["tcp", 0], 1, False, False], ["dlv*", 1, 0, 0, 99],
                                                   ["adv", 500], ["restart", 1, True], ["adv", 300], ["tick", 1, []],
                                                   ["syn_ok*", 1, 0], ["accept", 0], ["cev*", 1, 0, False, False],
                                                   ["dlv*", 1, 0, 0, 99], ["send", 0, ["tcp", 1], 2, False, False],
                                                   ["dlv*", 1, 0, 1, 99], ["heal"]]))
    # simultaneous reconnect from both sides: 3 nodes, the middle one loses both connections at once
    b3 = {"n": 3, "retry": 512, "timeout": 4096}
    up3 = [["tick", 0, []], ["tick", 1, []], ["tick", 2, []]]
    S.append(("three-nodes-all-links-reset", b3, up3 + [["heal"], ["adv", 600], ["err", 103, "rst", False],
                                                        ["err", 104, "rst", False], ["err", 105, "rst", False],
                                                        ["tick", 1, []], ["tick", 2, []], ["heal"]]))
    S.append(("three-nodes-restart-middle", b3, up3 + [["heal"], ["restart", 1, True], ["heal"]]))
    # handshake alphabet on an unknown connection (strangers)
    hs = [["tick", 0, []], ["tick", 1, []], ["sconn", 0], ["accept", 0]]
    for nm, mk in (("member", ["addr", 1]), ("non-member", ["addr", 7]), ("self", ["addr", 0]), ("readonly", ["readonly"]),
                   ("hash", ["hash", 3]), ("unhash", ["unhash", 3]), ("util-known", ["util", 1]),
                   ("util-unknown", ["util", 0])):
        S.append(("handshake-" + nm, base, hs + [["ssend", 0, mk], ["ssend", 0, ["unhash", 9]], ["dlv", 0, 0, 1, False, False],
                                                 ["dlv", 0, 0, 1, False, False], ["ssend", 0, ["readonly"]],
                                                 ["dlv", 0, 0, 99, False, False], ["dlv", 0, 1, 99, False, False],
                                                 ["send", 0, ["ro", 0], 1, False, False], ["drop", 0, ["ro", 0]],
                                                 ["heal"]]))
    # D77: the first frame of an unknown connection is an arbitrary picklable value; every one closes the connection,
    # none raises, none is delivered, a following well-formed handshake on a NEW connection still works
    for idx in range(len(tf.ARB)):
        S.append(("handshake-arbitrary-%d" % idx, base,
                  hs + [["ssend", 0, ["arb", idx]], ["ssend", 0, ["unhash", 9]], ["dlv", 0, 0, 1, False, False],
                        ["dlv", 0, 0, 99, False, False], ["dlv", 0, 1, 99, False, False]]
                  + ([["heal"]] if idx % 7 == 0 else [])))
    # D78: accept() fails for one connection; the server keeps listening and the pair still connects
    for err in ("ECONNABORTED", "EMFILE"):
        S.append(("accept-fails-once-" + err, base, [["tick", 0, []], ["accept_err", 0, err], ["tick", 1, []],
                                                     ["syn_ok*", 1, 0], ["accept_err", 0, err], ["accept", 0],
                                                     ["cev*", 1, 0, False, False], ["dlv*", 1, 0, 0, 99], ["heal"]]))
    S.append(("handshake-util-reply-fails", base, hs + [["ssend", 0, ["util", 1]], ["dlv", 0, 0, 99, True, False],
                                                        ["heal"]]))
    S.append(("handshake-batch", base, hs + [["ssend", 0, ["util", 1]], ["ssend", 0, ["addr", 1]],
                                             ["ssend", 0, ["unhash", 4]], ["ssend", 0, ["unhash", 5]],
                                             ["dlv", 0, 0, 99, False, False], ["heal"]]))
    S.append(("handshake-timeout", base, hs + [["adv", 4097], ["ssend", 0, ["addr", 1]], ["dlv", 0, 0, 99, False, False],
                                               ["heal"]]))
    # a peer that does not respect the dial order names a node we dial (replaces the dialled object)
    S.append(("impersonate-dialled-node", base, [["tick", 0, []], ["tick", 1, []], ["sconn", 1], ["accept", 1],
                                                ["ssend", 0, ["addr", 0]], ["dlv", 0, 0, 99, False, False],
                                                ["err", 102, "soerr", False], ["tick", 1, []],
                                                ["err", 104, "eof", False], ["adv", 2048], ["tick", 1, []], ["heal"]]))
    # read-only self: dials everybody, is seen as a fresh read-only id each time
    ro = {"n": 3, "retry": 512, "timeout": 4096, "readonly": [2]}
    S.append(("readonly-node", ro, [["tick", 0, []], ["tick", 1, []], ["tick", 2, []], ["heal"],
                                   ["send", 2, ["tcp", 0], 1, False, False], ["dlv", 2, 0, 99, False, False],
                                   ["send", 0, ["ro", 0], 2, False, False], ["dlv", 2, 1, 99, False, False],
                                   ["restart", 2, False], ["heal"], ["send", 0, ["ro", 0], 3, False, False],
                                   ["send", 0, ["ro", 1], 3, False, False]]))
    # black hole right after establishment while the application keeps ticking and sending (nothing is ever delivered,
    # no FIN/RST, local writes accepted): only the read-timeout check inside send() can notice
    bh = []
    for r in range(20):
        bh += [["adv", 256], ["tick", 0, []], ["tick", 1, []], ["send", 1, ["tcp", 0], 100 + r, False, False],
               ["send", 0, ["tcp", 1], 200 + r, False, False]]
    S.append(("blackhole-while-sending", base, up + bh))
    S.append(("blackhole-one-way-silence", base, up + [x for r in range(20) for x in
                                                      (["adv", 256], ["send", 1, ["tcp", 0], 300 + r, False, False],
                                                       ["dlv*", 1, 0, 0, 99])] + [["heal"]]))
    # slow link: one message of several receive buffers arrives in fragments spaced by connectionTimeout/4, the whole
    # transfer takes ~3 timeouts; small messages keep flowing the other way. Towards the acceptor and towards the dialler.
    for nm, snd, side in (("to-acceptor", 1, 0), ("to-dialler", 0, 1)):
        oth = 1 - snd
        sl = [["send", snd, ["tcp", oth], 50, False, False, 4000]]
        for r in range(12):
            sl += [["adv", 1024], ["frag*", 1, 0, side, 400], ["send", oth, ["tcp", snd], 60 + r, False, False],
                   ["dlv*", 1, 0, 1 - side, 99], ["tick", 0, []], ["tick", 1, []]]
        sl += [["dlv*", 1, 0, side, 99], ["send", snd, ["tcp", oth], 51, False, False], ["dlv*", 1, 0, side, 99], ["heal"]]
        S.append(("slow-link-" + nm, base, up + sl))
    # reset in the middle of a LARGE frame (header and part of the body already read), then a re-dial: the dialling side
    # re-uses its TcpConnection object, nothing of the torn frame may survive into the new connection
    for k in (4, 30, 400, 1500):
        S.append(("reset-mid-frame-then-redial-%d" % k, base,
                  up + [["send", 0, ["tcp", 1], 80, False, False, 4000], ["frag*", 1, 0, 1, k],
                        ["err*", 1, 0, "rst", False], ["err", 103, "eof", False], ["adv", 2048], ["tick", 1, []],
                        ["syn_ok*", 1, 0], ["accept", 0], ["cev*", 1, 0, False, False], ["dlv*", 1, 0, 0, 99],
                        ["send", 0, ["tcp", 1], 81, False, False], ["dlv*", 1, 0, 1, 99],
                        ["send", 0, ["tcp", 1], 82, False, False, 1500], ["dlv*", 1, 0, 1, 99],
                        ["send", 1, ["tcp", 0], 83, False, False], ["dlv*", 1, 0, 0, 99], ["heal"]]))
    # send() between the dial and the moment the connect is reported (SyncObj sends to every node whatever its state):
    # nothing may be written ahead of the own address
    S.append(("send-while-connecting", base,
              [["tick", 0, []], ["tick", 1, []], ["send", 1, ["tcp", 0], 70, False, False], ["adv", 100],
               ["send", 1, ["tcp", 0], 71, False, False], ["syn_ok*", 1, 0], ["send", 1, ["tcp", 0], 72, False, False],
               ["accept", 0], ["cev*", 1, 0, False, False], ["dlv*", 1, 0, 0, 99],
               ["send", 1, ["tcp", 0], 73, False, False], ["dlv*", 1, 0, 0, 99], ["send", 0, ["tcp", 1], 74, False, False],
               ["dlv*", 1, 0, 1, 99], ["heal"]]))
    # the accepted socket of a redial gets the descriptor number of the closed, still registered object (lowest free
    # number): the D52 path calls disconnect() on that old object, which must not touch the new subscription
    for fds in ("lowest", "monotone"):
        S.append(("descriptor-reused-by-new-incoming-" + fds, dict(base, fds=fds),
                  up + [["err", 103, "eof", False], ["err*", 1, 0, "eof", False], ["adv", 2048], ["tick", 1, []],
                        ["syn_ok*", 1, 0], ["accept", 0], ["cev*", 1, 0, False, False], ["dlv*", 1, 0, 0, 99],
                        ["send", 1, ["tcp", 0], 11, False, False], ["dlv*", 1, 0, 0, 99],
                        ["send", 0, ["tcp", 1], 12, False, False], ["dlv*", 1, 0, 1, 99], ["heal"]]))
    # two observers join, one leaves, a third joins: ids of connected read-only nodes are never handed out again (C18)
    ro2 = {"n": 3, "retry": 512, "timeout": 4096, "readonly": [1, 2]}

    def join(dd):
        return [["tick", dd, []], ["syn_ok*", dd, 0], ["accept", 0], ["cev*", dd, 0, False, False], ["dlv*", dd, 0, 0, 99]]
    S.append(("readonly-join-leave-join", ro2,
              [["tick", 0, []]] + join(1) + join(2) +
              [["send", 0, ["ro", 0], 1, False, False], ["dlv*", 1, 0, 1, 99], ["send", 0, ["ro", 1], 2, False, False],
               ["dlv*", 2, 0, 1, 99], ["send", 2, ["tcp", 0], 3, False, False], ["dlv*", 2, 0, 0, 99],
               ["restart", 1, False], ["dlv*", 1, 0, 0, 99]] + join(1) +
              [["send", 0, ["ro", 1], 4, False, False], ["dlv*", 2, 0, 1, 99], ["send", 0, ["ro", 2], 5, False, False],
               ["dlv*", 1, 0, 1, 99], ["send", 2, ["tcp", 0], 6, False, False], ["dlv*", 2, 0, 0, 99],
               ["err*", 2, 0, "eof", False]] + join(2) + [["send", 0, ["ro", 3], 7, False, False], ["heal"]]))
    return S


KINDS = [("adv", 12), ("tick", 14), ("syn_ok", 10), ("syn_err", 3), ("accept", 10), ("cev", 10), ("dlv", 22), ("frag", 5),
         ("send", 10), ("err", 4), ("idle", 4), ("add", 2), ("drop", 2), ("sconn", 1.5), ("ssend", 4), ("accept_err", 0.7), ("restart", 1)]


def random_schedule(rng, runner, length):
    sim = runner.sim
    kinds = [k for k, _ in KINDS]
    weights = [w for _, w in KINDS]
    done = 0
    tries = 0
    while done < length and tries < length * 6:
        tries += 1
        k = rng.choices(kinds, weights)[0]
        n = sim.n
        act = None
        if k == "adv":
            act = ["adv", rng.choice([1, 64, 256, 512, sim.retry, max(sim.retry - 1, 1), sim.timeout, sim.timeout + 1,
                                      2 * sim.timeout, 100, 1000])]
        elif k == "tick":
            i = rng.randrange(n)
            fails = [j for j in sorted(sim.members[i]) if rng.random() < 0.08]
            act = ["tick", i, fails]
        elif k == "syn_ok":
            c = sim.connecting_socks()
            if c:
                act = ["syn_ok", rng.choice(c).sid]
        elif k == "syn_err":
            c = sim.connecting_socks()
            if c:
                act = ["err", rng.choice(c).sid, rng.choice(["soerr", "mask"]), rng.random() < 0.15]
        elif k == "accept":
            act = ["accept", rng.randrange(n)]
        elif k == "cev":
            c = sim.pending_connected()
            if c:
                act = ["cev", rng.choice(c).sid, rng.random() < 0.08, rng.random() < 0.1]
        elif k == "dlv":
            c = [(wi, side) for wi, w in enumerate(sim.wires) for side in (0, 1) if w.inflight[side]]
            if c:
                wi, side = rng.choice(c)
                act = ["dlv", wi, side, rng.choice([1, 1, 2, 3, 99]), rng.random() < 0.3, rng.random() < 0.1]
        elif k == "frag":
            c = [(wi, side) for wi, w in enumerate(sim.wires) for side in (0, 1)
                 if w.inflight[side] and isinstance(w.inflight[side][0], bytes) and len(w.inflight[side][0]) > 8]
            if c:
                wi, side = rng.choice(c)
                act = ["frag", wi, side, rng.randrange(1, len(sim.wires[wi].inflight[side][0])), rng.random() < 0.1]
        elif k == "send":
            i = rng.randrange(n)
            t = sim.transports[i]
            keys = [sim.key(nd) for nd in t._connections] + [["tcp", j] for j in range(n) if j != i]
            key = rng.choice(sorted(keys, key=repr))
            act = ["send", i, key, rng.randrange(1000), rng.random() < 0.05, rng.random() < 0.1,
                   rng.choice([0, 0, 0, 0, 0, 1500, 3000])]
        elif k == "err":
            c = [s for s in sim.fabric.socks.values() if s.kind == "established" and sim.owner_live(s) and not s.closed
                 and s not in sim.strangers and sim.cid_of_sock(s.owner, s) is not None]
            if c:
                act = ["err", rng.choice(c).sid, rng.choice(["mask", "soerr", "rst", "eof"]), rng.random() < 0.15]
        elif k == "idle":
            i = rng.randrange(n)
            if sim.conn_objs[i]:
                act = ["idle", i, rng.randrange(len(sim.conn_objs[i])), rng.random() < 0.1]
        elif k == "add":
            i = rng.randrange(n)
            c = [j for j in range(n) if j != i and j not in sim.readonly and j not in sim.members[i]]
            if c and i not in sim.readonly:
                act = ["add", i, rng.choice(c)]
        elif k == "drop":
            i = rng.randrange(n)
            if sim.members[i] and i not in sim.readonly:
                act = ["drop", i, ["tcp", rng.choice(sorted(sim.members[i]))]]
        elif k == "accept_err":
            act = ["accept_err", rng.randrange(n), rng.choice(["ECONNABORTED", "EMFILE"])]
        elif k == "sconn":
            act = ["sconn", rng.randrange(n)]
        elif k == "ssend":
            c = [wi for wi, w in enumerate(sim.wires) if w.ends[0] in sim.strangers]
            if c:
                mk = rng.choice([["arb", rng.randrange(len(tf.ARB))], ["arb", rng.randrange(len(tf.ARB))],
                                 ["addr", rng.randrange(n + 1)], ["addr", rng.randrange(n + 1)], ["readonly"],
                                 ["util", 1], ["util", 0], ["hash", rng.randrange(5)], ["unhash", rng.randrange(5)],
                                 ["unhash", rng.randrange(5)]])
                act = ["ssend", rng.choice(c), mk]
        elif k == "restart":
            act = ["restart", rng.randrange(n), rng.random() < 0.6]
        if act is not None and runner.apply(act):
            done += 1


def random_cfg(rng):
    n = rng.choice([2, 2, 3, 3, 4])
    cfg = {"n": n, "retry": rng.choice([0, 512, 2048]), "timeout": rng.choice([1024, 4096]),
           "fds": rng.choice(["lowest", "lowest", "monotone"])}
    if n >= 3 and rng.random() < 0.3:
        cfg["readonly"] = [n - 1]
    elif n >= 4 and rng.random() < 0.5:
        cfg["readonly"] = [n - 2, n - 1]
    return cfg


def readonly_cfg(rng):
    """Configurations for the C18 run: one voter pair or a single voter plus one or two read-only transports."""
    n = rng.choice([3, 3, 4])
    return {"n": n, "retry": rng.choice([0, 512]), "timeout": rng.choice([1024, 4096]),
            "fds": rng.choice(["lowest", "monotone"]),
            "readonly": [n - 1] if rng.random() < 0.4 else [n - 2, n - 1]}


# ------------------------------------------------------------------------------------------------
# shrinking / replay
# ------------------------------------------------------------------------------------------------
def replay_actions(repo, cfg, actions, heal=False, diff=True):
    """Re-run a recorded action list. Returns (disagreement-or-None, violations)."""
    drv = checklib.DriverProc("transport") if diff else None
    r = None
    try:
        r = Runner(repo, drv, cfg, diff=diff)
        try:
            for a in actions:
                r.apply(a)
                if r.violations:
                    break
            if heal and not r.violations:
                r.heal()
        except Disagree as d:
            return d.info, r.violations
        return None, r.violations
    finally:
        if r is not None:
            r.close()
        if drv is not None:
            drv.close()


def shrink(repo, cfg, actions, pred, budget_s=8.0):
    """Greedy one-at-a-time removal keeping `pred(disagreement, violations)` true."""
    t0 = time.time()
    cur = list(actions)
    i = len(cur) - 1
    while i >= 0 and time.time() - t0 < budget_s:
        cand = cur[:i] + cur[i + 1:]
        try:
            d, v = replay_actions(repo, cfg, cand)
            if pred(d, v):
                cur = cand
        except Exception:
            pass
        i -= 1
    return cur


# ------------------------------------------------------------------------------------------------
# entry points
# ------------------------------------------------------------------------------------------------
FLOORS = ["tick", "accept", "connected", "connected.sendfail", "deliver.data", "deliver.eof", "deliver.rst",
          "deliver.dead", "connerr.soerr", "connerr.mask", "connerr.rst", "connerr.eof", "send.result=True",
          "send.result=False", "addNode", "dropNode", "restart.silent", "restart.fin", "poll_idle", "stranger",
          "guard.stale-replaced", "guard.utility", "guard.readonly-handshake",
          "guard.deliver", "guard.send.disconnects", "guard.outgoing-connected", "guard.drop.reports-disconnect",
          "guard.connerr.after-disconnect-state=0", "guard.connerr.after-disconnect-state=1",
          "guard.recv.after-disconnect-state=1", "guard.fd-reuse.stale-disconnect", "deliver.fragment",
          "deliver.continues-partial-frame", "send.big", "send.from_state=1", "connerr.mid-frame-on-dialled-object", "accept_error.ECONNABORTED", "stranger.arb.dict", "stranger.arb.list",
          "stranger.arb.NoneType", "heal"]


C13_SIGNATURES = ("transport.poll:exception-escapes-event-loop", "transport.deliver:complete-message-not-delivered-once")


def directed_c13():
    """Plan for C13 (framing as the transport uses it): merged reads - the introduction frame and the frames behind it
    in ONE read pass (the handler is replaced from inside the handler of the first frame), in both directions, for a
    member and for a read-only node, with the introduction itself torn into fragments; a large frame in fragments;
    garbage first frames.  (The key-exchange variant needs `cryptography`, which this image does not have.)"""
    S = []
    base = {"n": 2, "retry": 2048, "timeout": 4096}
    pre = [["tick", 0, []], ["tick", 1, []], ["syn_ok*", 1, 0], ["accept", 0], ["cev*", 1, 0, False, False]]
    for nmsg in (1, 3):
        burst = [["send", 1, ["tcp", 0], 10 + k, False, False] for k in range(nmsg)]
        back = [["send", 0, ["tcp", 1], 20 + k, False, False] for k in range(nmsg)]
        S.append(("merged-introduction-%d" % nmsg, base, pre + burst + [["dlv*", 1, 0, 0, 99]] + back +
                  [["dlv*", 1, 0, 1, 99]]))
        S.append(("torn-introduction-%d" % nmsg, base, pre + burst + [["frag*", 1, 0, 0, 5], ["frag*", 1, 0, 0, 9],
                                                                      ["dlv*", 1, 0, 0, 99]]))
    ro = {"n": 2, "retry": 512, "timeout": 4096, "readonly": [1]}
    S.append(("merged-readonly-introduction", ro, pre + [["send", 1, ["tcp", 0], 30, False, False],
                                                         ["send", 1, ["tcp", 0], 31, False, False], ["dlv*", 1, 0, 0, 99],
                                                         ["send", 0, ["ro", 0], 32, False, False], ["dlv*", 1, 0, 1, 99]]))
    hs = [["tick", 0, []], ["tick", 1, []], ["sconn", 0], ["accept", 0]]
    S.append(("stranger-merged", base, hs + [["ssend", 0, ["util", 1]], ["ssend", 0, ["addr", 1]], ["ssend", 0, ["unhash", 4]],
                                             ["ssend", 0, ["unhash", 5]], ["dlv", 0, 0, 99, False, False]]))
    for idx in range(len(tf.ARB)):
        S.append(("garbage-first-frame-%d" % idx, base, hs + [["ssend", 0, ["arb", idx]], ["ssend", 0, ["unhash", 9]],
                                                               ["dlv", 0, 0, 99, False, False]]))
    for name, cfg, actions in directed():
        if name.startswith(("slow-link", "reset-mid-frame")) or name == "handshake-batch":
            S.append((name, cfg, actions))
    return S


def run_c13(ctx):
    """C13 run: monitors on the real code only (no model diff), only the signatures that state C13, a few seconds."""
    t0 = time.time()
    rng = ctx.rng("transport_registry.c13")
    violations, cov, cases, events, hashes = [], {}, 0, 0, set()
    scripts = [(n, c, a) for n, c, a in directed_c13()]
    for k in range(ctx.scale(12, 200)):
        scripts.append(("random:%d" % k, random_cfg(rng), None))
    for name, cfg, actions in scripts:
        if time.time() - t0 > ctx.scale(5, 60):
            break
        r = None
        try:
            r = Runner(ctx.repo, None, dict(cfg), diff=False)
            if actions is None:
                random_schedule(rng, r, ctx.scale(80, 150))
            else:
                run_actions(r, actions)
            for v in r.violations:
                if v["signature"] in C13_SIGNATURES and v["signature"] not in [x["signature"] for x in violations]:
                    v["case"] = name
                    violations.append(v)
            cases += 1
            events += len(r.trace)
            hashes.add(hashlib.sha1(json.dumps([cfg, r.trace], sort_keys=True).encode()).hexdigest())
            for k2, c in r.sim.cov.items():
                cov[k2] = cov.get(k2, 0) + c
        finally:
            if r is not None:
                r.close()
    res = {"cases": cases, "distinct": len(hashes), "coverage": {"events": events, "counters": dict(sorted(cov.items()))},
           "samples": [], "disagreements": [], "violations": violations, "wall_s": round(time.time() - t0, 2)}
    missing = [f for f in ("deliver.merged-with-introduction", "deliver.fragment", "deliver.continues-partial-frame",
                           "stranger.arb.dict", "guard.c13.none") if f != "guard.c13.none" and not cov.get(f)]
    if missing and not violations:
        res["inconclusive"] = "coverage floor missed: " + ", ".join(missing)
    return res


def run(ctx):
    if getattr(ctx, "pid", "") == "C13":
        return run_c13(ctx)
    t0 = time.time()
    rng = ctx.rng("transport_registry")
    drv = checklib.DriverProc("transport")
    cov = {}
    cases = 0
    events = 0
    hashes = set()
    disagreements = []
    violations = []
    samples = []

    def one(name, cfg, body):
        nonlocal cases, events
        r = None
        try:
            r = Runner(ctx.repo, drv, cfg)
            try:
                body(r)
            except Disagree as d:
                info = d.info
                if len(disagreements) < 3:
                    acts = info["input"]["actions"]
                    try:
                        small = shrink(ctx.repo, cfg, acts, lambda dd, vv: dd is not None)
                        d2, _ = replay_actions(ctx.repo, cfg, small)
                        if d2 is not None:
                            info = d2
                    except Exception:
                        pass
                    info["case"] = name
                    disagreements.append(info)
            for v in r.violations:
                if len(violations) < 20 and v["signature"] not in [x["signature"] for x in violations]:
                    v["case"] = name
                    violations.append(v)
            cases += 1
            events += len(r.trace)
            hashes.add(hashlib.sha1(json.dumps([cfg, r.trace], sort_keys=True).encode()).hexdigest())
            for k, c in r.sim.cov.items():
                cov[k] = cov.get(k, 0) + c
            if len(samples) < 2 and len(r.trace) > 8:
                samples.append({"case": name, "cfg": cfg, "actions": r.trace[:25]})
        finally:
            if r is not None:
                r.close()

    try:
        # 1. regression corpus
        cdir = os.path.join(ctx.verif, "corpus", "transport")
        for path in sorted(glob.glob(os.path.join(cdir, "*.json"))):
            data = json.load(open(path))
            one("corpus:" + os.path.basename(path), data["cfg"],
                lambda r, data=data: (run_actions(r, data["actions"]), r.heal() if data.get("heal") else None))
        # 2. systematic enumerator
        for name, cfg, actions in directed():
            one("directed:" + name, dict(cfg), lambda r, actions=actions: run_actions(r, actions))
        for name, cfg, actions in directed_c13():
            if name.startswith(("merged", "torn", "stranger-merged")):
                one("directed:" + name, dict(cfg), lambda r, actions=actions: run_actions(r, actions))
        # 3. seeded random schedules, each ending in the fair tail
        c18 = getattr(ctx, "pid", "") == "C18"      # for C18 only worlds with read-only nodes, smaller budget
        nsched = ctx.scale(25, 400) if c18 else ctx.scale(60, 1500)
        length = ctx.scale(120, 200)
        budget = (ctx.scale(6, 90) if c18 else ctx.scale(12, 240))
        for k in range(nsched):
            if time.time() - t0 > budget:
                break
            cfg = readonly_cfg(rng) if c18 else random_cfg(rng)
            one("random:%d" % k, cfg, lambda r: (random_schedule(rng, r, length), r.heal()))
    finally:
        drv.close()

    res = {"cases": cases, "distinct": len(hashes), "coverage": {"events": events, "counters": dict(sorted(cov.items()))},
           "samples": samples, "disagreements": disagreements, "violations": violations,
           "wall_s": round(time.time() - t0, 2)}
    missing = [f for f in FLOORS if not cov.get(f)]
    if missing and not disagreements and not violations:
        res["inconclusive"] = "coverage floor missed: " + ", ".join(missing)
    return res


def search(ctx, unproved):
    """Looks for a concrete failing input on the real code: the directed fault scripts and a longer random run, with
    only the property monitors deciding (the model diff is ignored here)."""
    found = []
    if getattr(ctx, "pid", "") == "C13":
        return found               # the C13 run already is monitor-only; nothing more to search
    rng = ctx.rng("transport_registry.search")
    drv = None
    try:
        scripts = [(n, c, a) for n, c, a in directed()]
        for k in range(ctx.scale(40, 400)):
            scripts.append(("random:%d" % k, random_cfg(rng), None))
        for name, cfg, actions in scripts:
            r = None
            try:
                r = Runner(ctx.repo, None, dict(cfg), diff=False)
                try:
                    if actions is None:
                        random_schedule(rng, r, 150)
                        r.heal()
                    else:
                        run_actions(r, actions)
                except Disagree:
                    pass
                for v in r.violations:
                    if v["signature"] not in [x["signature"] for x in found]:
                        v["case"] = name
                        found.append(v)
            finally:
                if r is not None:
                    r.close()
    finally:
        pass
    return found


def replay(ctx, violation):
    rp = violation.get("replay") or {}
    # the property monitors alone decide (real code only); the model comparison is reported next to it
    _, v = replay_actions(ctx.repo, rp["cfg"], rp["actions"], heal=rp.get("heal", False), diff=False)
    try:
        d, _ = replay_actions(ctx.repo, rp["cfg"], rp["actions"], heal=rp.get("heal", False), diff=True)
    except Exception as e:
        d = {"error": repr(e)}
    sigs = sorted(set(x["signature"] for x in v))
    return {"violated": violation.get("signature") in sigs, "signatures": sigs,
            "what": [x["what"] for x in v][:3], "model_disagreement": d, "events": len(rp["actions"])}
