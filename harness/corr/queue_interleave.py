"""DETERMINISTIC interleaving explorer for the REAL `pysyncobj.fast_queue.FastQueue` (C19).

The Lean model takes `put_nowait` / `get_nowait` as atomic actions — that is what the queue's lock is for — and the
real-thread families of `corr.queue_threads` only sample schedules.  This component checks the atomicity itself,
exhaustively for small cases: two or three LOGICAL callers (real threads of which exactly one runs at a time) execute
the real `FastQueue` methods (and the real `SyncObj._applyCommand` = put + notify) under a scheduler that may switch at
every operation of the queue's internals.  Inside the loaded `pysyncobj.fast_queue` module
  * `deque` is replaced by a subclass of `collections.deque` whose `__len__` / `append` / `popleft` first pass a
    yield point of the scheduler (it keeps `maxlen` and everything else of the real deque),
  * `threading.Lock` by a scheduler-aware lock: `acquire` is a yield point and blocks the LOGICAL thread while another
    one holds the lock — so with the code as it is a critical section is seen as one atomic block.
All schedules with a bounded number of preemptions (quick: 2 for two callers, 1 for three; switches at the end of
an operation or at a blocked lock are free; depth-first over the scheduler's choice points, by re-execution) of 2 puts, 2 puts + 1 get, 3 puts on
queues of `maxSize` 1..3 that are empty / one short of full / full are enumerated.

A second family explores the hand-over of the RESULT: a logical caller runs a real synchronous call (real wrapper,
real `AsyncResult.onResult`), a logical tick thread invokes the callback; `AsyncResult.event` is an instrumented event
whose `set()` and `wait()` are yield points, and every attribute store of `onResult` (`result`, `error`) is one too — so
"the caller is woken before result and error are stored" is among the explored schedules.  Oracle = the property: the
call returns the result of its own command, or raises the failure reason it was answered with.

Oracle of the queue family = the model's sequential queue semantics (`PSO.Queue.FastQueue`, driver `queue` op `fq`): the observed answers
(accepted / `Queue.Full`, value got / `Queue.Empty`) together with the final queue content must be what SOME sequential
order of the same operations produces on the model (linearizability; all operations are concurrent).  In the property's
words: every put is accepted and later got exactly once, in FIFO order, or answered QUEUE_FULL; never more than the
capacity accepted and unconsumed.
"""
import collections
import itertools
import json
import threading
import time

from harness.corr import queue_common as qc

PROPERTIES = ["C19"]
ORDER = 45


# ---------------------------------------------------------------------------------------------
# scheduler: logical threads, one running at a time
# ---------------------------------------------------------------------------------------------
class LThread(object):
    def __init__(self, sched, name, fn):
        self.sched, self.name, self.fn = sched, name, fn
        self.go = threading.Event()
        self.done = False
        self.waiting_for = None          # a SchedLock this logical thread is blocked on
        self.result = None
        self.error = None
        self.thread = threading.Thread(target=self._body, daemon=True)

    def _body(self):
        self.go.wait()
        self.go.clear()
        try:
            self.result = self.fn()
        except BaseException as e:   # noqa
            self.error = "%s: %s" % (type(e).__name__, e)
        self.done = True
        self.sched.back.set()

    def runnable(self):
        return not self.done and (self.waiting_for is None or self.waiting_for.owner is None)


class Sched(object):
    def __init__(self, choices):
        self.choices = list(choices)
        self.taken = []                  # the choice made at every decision point
        self.options = []                # number of runnable logical threads at every decision point
        self.preempts = []               # would a choice other than 0 at that point preempt a runnable thread?
        self.trace = []                  # (thread, yield point) in execution order
        self.back = threading.Event()
        self.by_ident = {}
        self.threads = []
        self.deadlock = False

    def spawn(self, name, fn):
        t = LThread(self, name, fn)
        self.threads.append(t)
        return t

    def current(self):
        return self.by_ident.get(threading.get_ident())

    def yield_point(self, label):
        t = self.current()
        if t is None:
            return                       # set-up / tear-down code of the harness: not scheduled
        self.back.set()
        t.go.wait()
        t.go.clear()
        self.trace.append((t.name, label))

    def run(self):
        for t in self.threads:
            t.thread.start()
            self.by_ident[t.thread.ident] = t
        prev = None
        while True:
            rs = [t for t in self.threads if t.runnable()]
            if not rs:
                self.deadlock = any(not t.done for t in self.threads)
                break
            cont = prev is not None and prev in rs
            if cont:                      # choice 0 = let the running thread go on
                rs.remove(prev)
                rs.insert(0, prev)
            k = 0
            if len(rs) > 1:
                pos = len(self.taken)
                k = self.choices[pos] if pos < len(self.choices) else 0
                k = min(k, len(rs) - 1)
                self.taken.append(k)
                self.options.append(len(rs))
                self.preempts.append(cont)
            prev = rs[k]
            self.back.clear()
            rs[k].go.set()
            if not self.back.wait(10):
                self.deadlock = True
                break


class SchedLock(object):
    """threading.Lock for logical threads"""
    sched = None

    def __init__(self):
        self.owner = None

    def acquire(self, blocking=True, timeout=-1):
        s = SchedLock.sched
        t = s.current() if s is not None else None
        if t is None:
            self.owner = "harness"
            return True
        s.yield_point("lock.acquire")
        while self.owner is not None:
            t.waiting_for = self
            s.back.set()
            t.go.wait()
            t.go.clear()
        t.waiting_for = None
        self.owner = t
        return True

    def release(self):
        self.owner = None

    def __enter__(self):
        self.acquire()
        return self

    def __exit__(self, *a):
        self.release()

    def locked(self):
        return self.owner is not None


class SchedDeque(collections.deque):
    """the real deque (maxlen included); its three operations used by FastQueue are yield points"""
    sched = None

    def __len__(self):
        s = SchedDeque.sched
        if s is not None:
            s.yield_point("deque.len")
        return collections.deque.__len__(self)

    def append(self, x):
        s = SchedDeque.sched
        if s is not None:
            s.yield_point("deque.append")
        return collections.deque.append(self, x)

    def popleft(self):
        s = SchedDeque.sched
        if s is not None:
            s.yield_point("deque.popleft")
        return collections.deque.popleft(self)


class _ThreadingShim(object):
    def __init__(self, real):
        self._real = real
        self.Lock = SchedLock

    def __getattr__(self, k):
        return getattr(self._real, k)


class Patched(object):
    """`pysyncobj.fast_queue` with the instrumented deque and lock"""

    def __enter__(self):
        import pysyncobj.fast_queue as fq
        self.fq = fq
        self.saved = (fq.deque, fq.threading)
        fq.deque = SchedDeque
        fq.threading = _ThreadingShim(self.saved[1])
        return fq

    def __exit__(self, *a):
        self.fq.deque, self.fq.threading = self.saved
        SchedDeque.sched = None
        SchedLock.sched = None


def raw_items(q):
    return list(collections.deque.__iter__(q._FastQueue__queue))


# ---------------------------------------------------------------------------------------------
# one execution
# ---------------------------------------------------------------------------------------------
def run_fq(fq, cfg, choices):
    """cfg = {"max": m, "fill": n, "ops": [("put", v) | ("get",) ...]} -> observation"""
    q = fq.FastQueue(cfg["max"])
    for i in range(cfg["fill"]):
        collections.deque.append(q._FastQueue__queue, 100 + i)       # initial content, not under test
    s = Sched(choices)
    SchedDeque.sched = s
    SchedLock.sched = s

    def mk(op):
        def fn():
            if op[0] == "put":
                try:
                    q.put_nowait(op[1])
                    return "ok"
                except fq.Queue.Full:
                    return "full"
            try:
                return q.get_nowait()
            except fq.Queue.Empty:
                return "empty"
        return fn
    ts = [s.spawn("T%d" % i, mk(op)) for i, op in enumerate(cfg["ops"])]
    s.run()
    SchedDeque.sched = None
    SchedLock.sched = None
    obs = {"res": [t.result if t.error is None else "exc:" + t.error for t in ts], "items": raw_items(q),
           "deadlock": s.deadlock}
    return s, obs


def run_apply(so, o, fq, cfg, choices):
    """the same through the real `_applyCommand` (put + notify) of a node; ops are puts only"""
    from harness.corr.queue_pipe import pipe_bytes
    o._SyncObj__commandsQueue = fq.FastQueue(cfg["max"])
    q = o._SyncObj__commandsQueue
    o._poller.poll(0.0)                                               # empty the wake-up pipe
    for i in range(cfg["fill"]):
        collections.deque.append(q._FastQueue__queue, (b"c%d" % (100 + i), None))
    s = Sched(choices)
    SchedDeque.sched = s
    SchedLock.sched = s
    pn = o._SyncObj__pipeNotifier
    real_notify = pn.notify

    def notify():
        s.yield_point("pipe.notify")
        return real_notify()
    pn.notify = notify

    def mk(op):
        def fn():
            got = []
            o._applyCommand(b"c%d" % op[1], lambda res, err: got.append(err))
            return "full" if got == [so.FAIL_REASON.QUEUE_FULL] else ("ok" if not got else "cb:%r" % (got,))
        return fn
    ts = [s.spawn("T%d" % i, mk(op)) for i, op in enumerate(cfg["ops"])]
    try:
        s.run()
    finally:
        del pn.notify
        SchedDeque.sched = None
        SchedLock.sched = None
    items = [int(e[0][1:]) for e in raw_items(q)]
    obs = {"res": [t.result if t.error is None else "exc:" + t.error for t in ts], "items": items,
           "deadlock": s.deadlock, "pipe": pipe_bytes(pn._PipeNotifier__pipeR)}
    return s, obs


def explore(run_once, limit, max_preempt):
    """all schedules with at most `max_preempt` preemptions (a switch away from a logical thread that could have
    gone on; switches at the end of a thread or at a blocked lock are free), depth-first by re-execution;
    yields (sched, obs)"""
    stack = [([], 0)]
    n = 0
    while stack and n < limit:
        prefix, used = stack.pop()
        s, obs = run_once(prefix)
        n += 1
        yield s, obs
        u = used
        for i in range(len(prefix), len(s.options)):
            cost = 1 if s.preempts[i] else 0
            if u + cost <= max_preempt:
                for alt in range(1, s.options[i]):
                    stack.append((s.taken[:i] + [alt], u + cost))
            # the default continuation took choice 0 here: no preemption used


# ---------------------------------------------------------------------------------------------
# family R: hand-over of the result through AsyncResult (event.set vs the stores of onResult)
# ---------------------------------------------------------------------------------------------
class SchedEvent(object):
    """threading.Event for logical threads: `set` and `wait` are yield points, `wait` blocks the logical thread"""

    def __init__(self, sched):
        self.sched = sched
        self.flag = False

    @property
    def owner(self):                       # LThread.runnable(): blocked while `owner` is not None
        return None if self.flag else "unset"

    def is_set(self):
        return self.flag

    def set(self):
        self.sched.yield_point("event.set")
        self.flag = True

    def wait(self, timeout=None):
        s = self.sched
        t = s.current()
        if t is None:
            return self.flag
        s.yield_point("event.wait")
        while not self.flag:
            t.waiting_for = self
            s.back.set()
            t.go.wait()
            t.go.clear()
        t.waiting_for = None
        s.trace.append((t.name, "event.woken"))
        return True


class Slot(object):
    """the (command, callback) the caller handed to `_applyCommand`, picked up by the logical tick thread"""

    def __init__(self):
        self.value = None

    @property
    def owner(self):
        return None if self.value is not None else "empty"


def build_result_family(so):
    from pysyncobj import SyncObjConf
    RecTransport = qc.make_transport_class(so)

    Base = so.AsyncResult                  # (so.AsyncResult itself is replaced by AR during a run)

    class AR(Base):                        # the REAL onResult; its event and its attribute stores are instrumented
        sched = None

        def __init__(self):
            Base.__init__(self)
            object.__setattr__(self, "event", SchedEvent(AR.sched))
            object.__setattr__(self, "_armed", True)

        def __setattr__(self, name, value):
            if self.__dict__.get("_armed") and name in ("result", "error") and AR.sched is not None:
                AR.sched.yield_point("onResult.store." + name)
            object.__setattr__(self, name, value)

    class Obj(so.SyncObj):
        def __init__(self):
            super(Obj, self).__init__("n0:1", [], SyncObjConf(autoTick=False), transportClass=RecTransport)

        @so.replicated_sync
        def m_s(self, x):
            return x

        @so.replicated
        def m_r(self, x):
            return x

    return AR, Obj


def run_result(so, AR, o, case, choices):
    """case = (method, kwargs, (res, err)): one sync call, answered once by the logical tick thread"""
    meth, kw, (res, err) = case
    s = Sched(choices)
    AR.sched = s
    slot = Slot()

    def spy(cmd, callback, commandType=None):
        s.yield_point("applyCommand")
        slot.value = (cmd, callback)

    o._applyCommand = spy
    old = so.AsyncResult
    so.AsyncResult = AR

    def caller():
        try:
            return ["value", getattr(o, meth)(41, **dict(kw))]
        except so.SyncObjException as e:
            return ["timeout"] if e.errorCode == "Timeout" else ["raised", e.errorCode]

    def tick():
        t = s.current()
        while slot.value is None:
            t.waiting_for = slot
            s.back.set()
            t.go.wait()
            t.go.clear()
        t.waiting_for = None
        slot.value[1](res, err)
        return "answered"
    ts = [s.spawn("caller", caller), s.spawn("tick", tick)]
    try:
        s.run()
    finally:
        so.AsyncResult = old
        AR.sched = None
        o._applyCommand = lambda *a, **k: None
    obs = {"ret": ts[0].result if ts[0].error is None else ["exc", ts[0].error], "tick": ts[1].result if ts[1].error is None
           else "exc:" + ts[1].error, "deadlock": s.deadlock}
    return s, obs


# ---------------------------------------------------------------------------------------------
# oracle: the model's sequential semantics over all orders
# ---------------------------------------------------------------------------------------------
def model_outcomes(ctx, cfgs):
    """for every config the set of (answers per operation, final content) the model allows"""
    lines, index = [], []
    for ci, cfg in enumerate(cfgs):
        fill = [["put", 100 + i] for i in range(cfg["fill"])]
        for perm in itertools.permutations(range(len(cfg["ops"]))):
            ops = fill + [list(cfg["ops"][i]) for i in perm]
            lines.append(json.dumps({"op": "fq", "max": cfg["max"], "ops": ops}))
            index.append((ci, perm))
    out = ctx.driver("queue", lines)
    allowed = [set() for _ in cfgs]
    for (ci, perm), line in zip(index, out):
        mj = json.loads(line)
        res = mj["res"][cfgs[ci]["fill"]:]
        by_op = [None] * len(perm)
        for pos, i in enumerate(perm):
            by_op[i] = res[pos]
        allowed[ci].add(qc.canon([by_op, mj["items"]]))
    return allowed


def classify(cfg, obs):
    """what the property says is wrong with an observation the model does not allow"""
    if obs.get("deadlock"):
        return "deadlock"
    if any(isinstance(r, str) and r.startswith("exc:") for r in obs["res"]):
        return "unexpected-exception"
    accepted = [100 + i for i in range(cfg["fill"])] + [op[1] for op, r in zip(cfg["ops"], obs["res"]) if op[0] == "put" and r == "ok"]
    got = [r for op, r in zip(cfg["ops"], obs["res"]) if op[0] == "get" and r != "empty"]
    have = got + obs["items"]
    lost = [x for x in accepted if x not in have]
    if lost:
        return "accepted-command-lost"
    if len(have) != len(set(have)) or any(x not in accepted for x in have):
        return "command-duplicated-or-invented"
    if len(obs["items"]) > cfg["max"] + 1:
        return "capacity-exceeded"
    old = [100 + i for i in range(cfg["fill"])]
    pos_old = [have.index(x) for x in old]
    pos_new = [i for i, x in enumerate(have) if x not in old]
    if pos_old != sorted(pos_old) or (pos_old and pos_new and max(pos_old) > min(pos_new)):
        return "not-fifo"
    return "answer-impossible-in-any-order"


def configs(ctx):
    """quick: every size and filling for two concurrent puts; the three-caller cases on the smallest queue"""
    cfgs = []
    thorough = ctx.tier == "thorough"
    for m in (1, 2, 3):
        for fill in (0, m, m + 1):                       # empty / one short of full / full (capacity = maxSize + 1)
            cfgs.append({"max": m, "fill": fill, "ops": [("put", 1), ("put", 2)]})
            if m == 1 or thorough:
                cfgs.append({"max": m, "fill": fill, "ops": [("put", 1), ("put", 2), ("get",)]})
            if (m == 1 and fill == m) or thorough:
                cfgs.append({"max": m, "fill": fill, "ops": [("put", 1), ("put", 2), ("put", 3)]})
    return cfgs


def run(ctx):
    fds = qc.fd_count()
    return qc.fd_audit(_run(ctx), fds)


def _run(ctx):
    t0 = time.time()
    so = qc.load(ctx)
    res = {"cases": 0, "distinct": 0, "coverage": {}, "samples": [], "disagreements": [], "violations": []}
    cov = collections.Counter()
    cfgs = configs(ctx)
    acfgs = [{"max": m, "fill": fill, "ops": [("put", 1), ("put", 2)]}
             for m, fill in ([(1, 1), (1, 2), (2, 2)] if ctx.tier == "quick" else [(m, f) for m in (1, 2, 3) for f in (0, m, m + 1)])]
    try:
        allowed = model_outcomes(ctx, cfgs)
        allowed_a = model_outcomes(ctx, acfgs)
    except Exception as e:   # noqa
        res["inconclusive"] = "driver queue unavailable: " + repr(e)[:300]
        return res
    limit = ctx.scale(400, 5000)
    bound = ctx.scale(2, 4)              # preemption bound (the lost-update pattern of an unlocked test-then-append needs 1)
    seen = set()

    def judge(kind, cfg, ok_set, s, obs):
        res["cases"] += 1
        seen.add(qc.canon([kind, cfg["max"], cfg["fill"], cfg["ops"], s.taken]))
        cov["schedules"] += 1
        cov["switch_points"] += len(s.trace)
        for r in obs["res"]:
            cov["answer_%s" % (r if isinstance(r, str) and not r.startswith("exc") else ("got" if not isinstance(r, str) else "exc"))] += 1
        if any(a[1] == "lock.acquire" for a in s.trace):
            cov["lock_seen"] += 1
        key = qc.canon([obs["res"], obs["items"]])
        bad = key not in ok_set or obs.get("deadlock")
        if kind == "apply" and not bad and "ok" in obs["res"] and obs["pipe"] == 0:
            bad, why = True, "accepted-command-without-wakeup"
        elif bad:
            why = classify(cfg, obs)
        if bad and len(res["violations"]) < 3:
            sig = "fast_queue.interleaving:%s" % why
            if sig not in [v["signature"] for v in res["violations"]]:
                res["violations"].append({
                    "signature": sig,
                    "what": "maxSize %d, %d queued, concurrent %r: answers %r, queue afterwards %r — no sequential order of "
                            "these operations gives that on the model; schedule %s"
                            % (cfg["max"], cfg["fill"], cfg["ops"], obs["res"], obs["items"],
                               " ".join("%s:%s" % x for x in s.trace)),
                    "replay": {"kind": kind, "cfg": {"max": cfg["max"], "fill": cfg["fill"], "ops": [list(o) for o in cfg["ops"]]},
                               "choices": s.taken}})
        return bad

    with qc.real_runtime(so), Patched() as fq:
        for cfg, ok_set in zip(cfgs, allowed):
            for s, obs in explore(lambda ch, cfg=cfg: run_fq(fq, cfg, ch), limit, bound if len(cfg["ops"]) == 2 else bound - 1):
                judge("fq", cfg, ok_set, s, obs)
            cov["configs"] += 1
        # the same through _applyCommand (put + notify) of a real node
        from pysyncobj import SyncObjConf
        RecTransport = qc.make_transport_class(so)
        o = so.SyncObj("n0:1", [], SyncObjConf(autoTick=False, appendEntriesUseBatch=False, commandsQueueSize=1),
                       transportClass=RecTransport)
        try:
            for cfg, ok_set in zip(acfgs, allowed_a):
                for s, obs in explore(lambda ch, cfg=cfg: run_apply(so, o, fq, cfg, ch), ctx.scale(150, 2000), bound):
                    judge("apply", cfg, ok_set, s, obs)
                cov["configs_apply"] += 1
        finally:
            qc.close_node(o)
    # family R: the result hand-over
    with qc.real_runtime(so):
        AR, ObjR = build_result_family(so)
        oR = ObjR()
        try:
            rcases = [("m_s", {}, (41, 0)), ("m_s", {}, (None, 5)), ("m_r", {"sync": True, "timeout": 3}, (41, 0)),
                      ("m_s", {"timeout": 2}, (None, 3)), ("m_r", {"sync": True}, (None, 4))]
            for case in rcases:
                meth, kw, (r0, e0) = case
                want = ["value", r0] if e0 == 0 else ["raised", e0]
                for s, obs in explore(lambda ch, case=case: run_result(so, AR, oR, case, ch), 500, 6):
                    res["cases"] += 1
                    seen.add(qc.canon(["R", meth, sorted(kw), [r0, e0], s.taken]))
                    cov["schedules_result"] += 1
                    if any(a[1] == "event.set" for a in s.trace):
                        cov["result_event_set_seen"] += 1
                    tr = [a[1] for a in s.trace]
                    if "event.woken" in tr and "event.set" in tr and tr.index("event.woken") < max(
                            [i for i, x in enumerate(tr) if x.startswith("onResult.store")] or [-1]):
                        cov["result_woken_before_stores"] += 1
                    if (obs["ret"] != want or obs["deadlock"]) and len(res["violations"]) < 3:
                        sig = "asyncresult.interleaving:%s" % ("deadlock" if obs["deadlock"] else
                                                               "sync-call-did-not-get-the-answer-of-its-own-command")
                        if sig not in [v["signature"] for v in res["violations"]]:
                            res["violations"].append({
                                "signature": sig,
                                "what": "%s(41%s) answered (%r, %r): the call gave %r instead of %r; schedule %s"
                                        % (meth, "".join(", %s=%r" % kv for kv in sorted(kw.items())), r0, e0, obs["ret"], want,
                                           " ".join("%s:%s" % x for x in s.trace)),
                                "replay": {"kind": "result", "case": [meth, kw, [r0, e0]], "choices": s.taken}})
        finally:
            oR._applyCommand = lambda *a, **k: None
            qc.close_node(oR)
    res["distinct"] = len(seen)
    res["coverage"] = dict(cov)
    res["wall_s"] = round(time.time() - t0, 2)
    res["notes"] = "exhaustive schedules of the real FastQueue / _applyCommand under a logical-thread scheduler; oracle = model, all orders"
    missed = [k for k in ("schedules", "lock_seen", "answer_ok", "answer_full", "answer_got", "answer_empty", "configs_apply",
                          "schedules_result", "result_event_set_seen")
              if not cov.get(k)]
    if missed and not res["violations"]:
        res["inconclusive"] = "coverage floor missed: " + ",".join(missed)
    return res


def replay(ctx, violation):
    so = qc.load(ctx)
    r = violation["replay"]
    if r.get("kind") == "result":
        with qc.real_runtime(so):
            AR, ObjR = build_result_family(so)
            oR = ObjR()
            try:
                meth, kw, (r0, e0) = r["case"]
                s, obs = run_result(so, AR, oR, (meth, kw, (r0, e0)), r["choices"])
            finally:
                qc.close_node(oR)
        want = ["value", r0] if e0 == 0 else ["raised", e0]
        return {"violated": obs["ret"] != want, "observed": obs, "expected": want, "schedule": ["%s:%s" % x for x in s.trace]}
    cfg = {"max": r["cfg"]["max"], "fill": r["cfg"]["fill"], "ops": [tuple(o) for o in r["cfg"]["ops"]]}
    ok_set = model_outcomes(ctx, [cfg])[0]
    with qc.real_runtime(so), Patched() as fq:
        if r["kind"] == "fq":
            s, obs = run_fq(fq, cfg, r["choices"])
        else:
            from pysyncobj import SyncObjConf
            o = so.SyncObj("n0:1", [], SyncObjConf(autoTick=False, appendEntriesUseBatch=False, commandsQueueSize=1),
                           transportClass=qc.make_transport_class(so))
            try:
                s, obs = run_apply(so, o, fq, cfg, r["choices"])
            finally:
                qc.close_node(o)
    bad = qc.canon([obs["res"], obs["items"]]) not in ok_set
    return {"violated": bool(bad), "observed": obs, "schedule": ["%s:%s" % x for x in s.trace],
            "model_allows": sorted(ok_set)[:8]}
