"""Correspondence `decorator_pack`: the REAL `@replicated` / `@replicated_sync` wrappers and the REAL
unpacking in `SyncObj.__doApplyCommand`, against the Lean model (`PSO.Queue.planOf`, `Packed.toVal`,
`received`, `outcomeOf`; driver `queue`, ops `plan` / `outcome`).

For every case (decorator kind, positional args, keyword args incl. the reserved `callback`, `sync`,
`timeout`, `_doApply`, and how the "core" answers the callback) it records on the real code
  * the object that is pickled and handed to `_applyCommand`, the kind of callback handed over,
    the timeout given to `Event.wait`,
  * what the method body receives when that pickled command is applied,
  * what the call returns / raises,
and diffs them with the model.  Independently of the model, property monitors written against the
property texts check: arguments arrive intact (C11), the callback of a sync call is the call's own
`AsyncResult.onResult` and the call returns exactly what was answered / raises the reason / raises
'Timeout' (C19, C02).
"""
import json
import pickle
import threading
import time

from harness.corr import queue_common as qc

PROPERTIES = ["C19", "C11", "C02", "C15"]
ORDER = 40

RESERVED = ("_doApply", "callback", "sync", "timeout")

CALL_BOUND_S = 5.0        # REAL seconds a single wrapper call may take (nothing in a case blocks: the event is a fake)
MAX_SUBMISSIONS = 3       # `_applyCommand` calls one wrapper call may make before the fake node refuses to take more


class _Refused(BaseException):
    """raised by the fake `_applyCommand` into a wrapper call that keeps submitting (not an Exception on purpose:
    nothing in the wrapper may swallow it)"""


VALUES = [None, True, False, 0, 1, -3, 2 ** 40, "", "s", (), (1, 2), ((1, 2), (3,)), {"a": 1}, {}, (None,)]


def _build(so):
    """Real classes under test (built after the tree is loaded)."""
    from pysyncobj import SyncObjConf
    RecTransport = qc.make_transport_class(so)

    class FakeEvent(object):
        """Stands in for threading.Event inside AsyncResult: never blocks, records the timeout."""

        def __init__(self):
            self.flag = False
            self.waited = []

        def set(self):
            self.flag = True

        def wait(self, timeout=None):
            self.waited.append(timeout)
            return self.flag

    class AR(so.AsyncResult):           # real onResult, fake event
        made = []

        def __init__(self):
            super().__init__()
            self.event = FakeEvent()
            AR.made.append(self)

    class Obj(so.SyncObj):
        def __init__(self):
            conf = SyncObjConf(autoTick=False, commandsQueueSize=4)
            super().__init__("n0:1", [], conf, transportClass=RecTransport)
            self.got = []

        @so.replicated
        def m_r(self, *a, **k):
            self.got.append(("m_r", a, k))
            return 77

        @so.replicated_sync
        def m_s(self, *a, **k):
            self.got.append(("m_s", a, k))
            return 78

        @so.replicated_sync(timeout=7)
        def m_st(self, *a, **k):
            self.got.append(("m_st", a, k))
            return 79

    return Obj, AR


def user_cb(res, err):      # the `callback=` value of the cases (module level: identity is stable)
    pass


DECS = {"m_r": ("r", None), "m_s": ("s", None), "m_st": ("s", 7)}


def kw_model(kw):
    """kwargs as the model sees them: a callable callback is the value 1 (only `is not None` matters)."""
    out = []
    for k, v in kw.items():
        out.append([k, 1 if callable(v) else qc.to_v(v)])
    return out


def systematic():
    args_l = [(), (1,), ((1, 2),), (None,), ((),), (1, "s", (3,))]
    kws = [{}, {"x": 1}, {"sync": True}, {"sync": False}, {"sync": 0}, {"sync": "yes"}, {"timeout": 5},
           {"timeout": None}, {"callback": user_cb}, {"callback": None}, {"callback": user_cb, "sync": True},
           {"callback": user_cb, "x": (1, 2)}, {"_doApply": True}, {"_doApply": False}, {"_doApply": 0, "x": 2},
           {"_doApply": 1, "sync": True, "y": None}, {"sync": True, "timeout": 3, "x": 2},
           {"x": 1, "sync": True}, {"timeout": 2, "callback": user_cb}, {"y": {}, "x": ()}, {"sync": True, "timeout": 0}]
    answers = [("ok", 5), ("ok", None), ("err", 1), ("err", 3), ("err", 6), ("none",)]
    i = 0
    for m in DECS:
        for a in args_l:
            for kw in kws:
                yield (m, a, dict(kw), answers[i % len(answers)])
                i += 1


def random_case(rng):
    m = rng.choice(list(DECS))
    a = tuple(rng.choice(VALUES) for _ in range(rng.choice([0, 0, 1, 1, 2, 3])))
    kw = {}
    keys = ["x", "y", "key", "sync", "timeout", "callback", "_doApply"]
    rng.shuffle(keys)
    for k in keys[:rng.choice([0, 0, 1, 1, 2, 3, 4])]:
        if k == "callback":
            kw[k] = rng.choice([user_cb, user_cb, None])
        elif k == "timeout":
            kw[k] = rng.choice([None, 0, 1, 5])
        elif k == "sync":
            kw[k] = rng.choice([True, True, False, 0, 1, "", "s", None, (), (1, 2)])
        elif k == "_doApply":
            kw[k] = rng.choice([True, False, False, 0, 1, None])
        else:
            kw[k] = rng.choice(VALUES)
    ans = rng.choice([("ok", rng.randrange(100)), ("ok", None), ("err", rng.randrange(1, 7)), ("none",)])
    return (m, a, kw, ans)


def run_real(so, Obj, AR, case):
    """Returns the canonical observation of the real code for one case."""
    m, a, kw, ans = case
    o = Obj()
    obs = {}
    seen = []
    AR.made[:] = []

    stop = [False]

    def spy(cmd, callback, commandType=None):
        if stop[0] or len(seen) >= MAX_SUBMISSIONS:
            raise _Refused("the fake node takes no further submission of this call")
        seen.append((cmd, callback, commandType))
        if callback is not None and ans[0] != "none":
            if ans[0] == "ok":
                callback(ans[1], so.FAIL_REASON.SUCCESS)
            else:
                callback(None, ans[1])

    o._applyCommand = spy
    old_ar = so.AsyncResult
    so.AsyncResult = AR
    box = {}

    def body():
        try:
            r = getattr(o, m)(*a, **dict(kw))
            box["ret"] = ["value", r]
        except so.SyncObjException as e:
            box["ret"] = ["timeout"] if e.errorCode == "Timeout" else ["raised", e.errorCode]
        except _Refused:
            box["ret"] = ["kept-submitting"]
        except BaseException as e:   # noqa
            box["crash"] = "%s: %s" % (type(e).__name__, e)
    try:
        # hard REAL-time bound: the call runs in a daemon thread; whatever the wrapper does, the case ends
        th = threading.Thread(target=body, daemon=True)
        th.start()
        th.join(CALL_BOUND_S)
        if th.is_alive():
            stop[0] = True                      # the stuck call cannot enqueue any more
            obs["hung"] = True
            th.join(0.5)
    finally:
        so.AsyncResult = old_ar
    if "crash" in box:
        obs["crash"] = box["crash"]
    obs["ret"] = box.get("ret", ["did-not-return"])
    obs["submissions"] = len(seen)
    obs["calls"] = len(seen)
    obs["local"] = [[n, qc.to_v(x), qc.to_v(k)] for (n, x, k) in o.got]
    if seen:
        cmd, cb, ct = seen[0]
        obs["ctype"] = ct
        obs["cmd"] = qc.to_v(pickle.loads(cmd))
        if cb is None:
            obs["mode"] = "nocb"
        elif cb is user_cb:
            obs["mode"] = "user"
        elif getattr(cb, "__self__", None) is not None and isinstance(cb.__self__, so.AsyncResult) \
                and cb.__func__ is so.AsyncResult.onResult and AR.made and cb.__self__ is AR.made[-1]:
            obs["mode"] = "sync"
            obs["waited"] = [qc.to_v(t) for t in cb.__self__.event.waited]
        else:
            obs["mode"] = "other:%r" % (cb,)
        # applying side: feed the very bytes `_applyCommand` would have queued to the real unpacking
        o.got = []
        try:
            res = o._SyncObj__doApplyCommand(so._bchr(ct) + cmd)
            obs["apply"] = [[n, qc.to_v(x), qc.to_v(k)] for (n, x, k) in o.got]
            obs["apply_res"] = res
        except Exception as e:   # noqa
            obs["apply"] = "exc:" + type(e).__name__
    o._applyCommand = lambda *x, **y: None
    try:
        o.destroy()
    except Exception:
        pass
    return obs, o


def expect_from_model(case, func_id, mj, oj):
    """Model's prediction in the same canonical form."""
    m, a, kw, ans = case
    exp = {}
    if mj["plan"] == "local":
        exp["calls"] = 0
        exp["local"] = [[m, {"t": mj["args"]}, {"d": mj["kw"]}]]
        exp["ret"] = ["value", {"m_r": 77, "m_s": 78, "m_st": 79}[m]]
        return exp
    exp["calls"] = 1
    exp["local"] = []
    exp["ctype"] = 0
    exp["cmd"] = mj["cmd"]
    exp["mode"] = mj["mode"]
    if mj["mode"] == "sync":
        exp["waited"] = [mj["timeout"]]
        exp["ret"] = oj["outcome"]
    else:
        exp["ret"] = ["value", None]
    rv = mj["recv"]
    if rv is None:
        exp["apply"] = "model:none"
    else:
        exp["apply"] = [[m, {"t": rv["args"]}, {"d": rv["kw"]}]]
        exp["apply_res"] = {"m_r": 77, "m_s": 78, "m_st": 79}[m]
        if rv["f"] != func_id:
            exp["apply"] = "model:wrong-func %r" % (rv["f"],)
    return exp


def monitors(case, obs):
    """Property statements evaluated on the real observation only."""
    m, a, kw, ans = case
    v = []
    do_apply = bool(kw.get("_doApply", False))
    user_kw = {k: x for k, x in kw.items() if k not in RESERVED}
    if obs.get("hung"):
        return [("replicated.sync:call-did-not-return",
                 "%s%r kwargs %r: the fake node answered %r to the submission, the call is still running after %.0f real "
                 "seconds (%d submissions)" % (m, tuple(a), sorted(kw), ans, CALL_BOUND_S, obs.get("submissions", 0)))]
    if obs.get("submissions", 0) > 1:
        # C02: an outcome that leaves the fate of the command open (LEADER_CHANGED, also a timeout) must not be followed
        # by a second submission of the same call: both copies may be applied
        if (ans[0] == "err" and ans[1] == 5) or ans[0] == "none":
            return [("replicated.sync:command-submitted-again-after-open-outcome",
                     "%s%r: the submission was answered %s (outcome open: the command may still be applied) and the wrapper "
                     "submitted the same command again (%d submissions) — applied at most once no longer holds"
                     % (m, tuple(a), "LEADER_CHANGED" if ans[0] == "err" else "by nothing within the wait", obs["submissions"]))]
        if ans[0] == "ok":
            return [("replicated:call-submitted-again-after-success", "%s%r: answered SUCCESS, %d submissions"
                     % (m, tuple(a), obs["submissions"]))]
        return []          # re-submission after a definite refusal (NOT_LEADER, QUEUE_FULL …): harmless for the property
    if "crash" in obs:
        return [("decorator.wrapper:unexpected-exception", obs["crash"])]
    if do_apply:
        return v
    # C11 / C19: the method body on the applying side gets exactly the caller's arguments
    want = [[m, qc.to_v(tuple(a)), qc.to_v(user_kw)]]
    if obs.get("calls") != 1:
        v.append(("decorator.wrapper:command-not-submitted-once", "calls=%r" % obs.get("calls")))
        return v
    if obs.get("apply") != want:
        v.append(("decorator.pack:arguments-not-intact", "applied %r, called with %r" % (obs.get("apply"), want)))
    # C19 / C02: sync semantics
    cb = kw.get("callback")
    sync = bool(kw.get("sync", m != "m_r")) and cb is None
    if sync:
        if obs.get("mode") != "sync":
            v.append(("decorator.sync:callback-is-not-own-asyncresult", "mode=%r" % obs.get("mode")))
        if ans[0] == "ok":
            want_ret = ["value", ans[1]]
        elif ans[0] == "err":
            want_ret = ["raised", ans[1]]
        else:
            want_ret = ["timeout"]
        if obs.get("ret") != want_ret:
            v.append(("decorator.sync:wrong-outcome", "answered %r, call gave %r" % (ans, obs.get("ret"))))
    else:
        if obs.get("ret") != ["value", None]:
            v.append(("decorator.async:call-did-not-return-none", "ret=%r" % (obs.get("ret"),)))
        if cb is not None and obs.get("mode") != "user":
            v.append(("decorator.async:callback-not-handed-over", "mode=%r" % obs.get("mode")))
    return v


def run(ctx):
    fds = qc.fd_count()
    return qc.fd_audit(_run(ctx), fds)


def _run(ctx):
    t0 = time.time()
    so = qc.load(ctx)
    Obj, AR = _build(so)
    rng = ctx.rng("decorator_pack")
    cases = list(systematic())
    n_rand = ctx.scale(1500, 40000)
    for _ in range(n_rand):
        cases.append(random_case(rng))

    probe = Obj()
    fid = {m: probe._methodToID[m + "_v0"] for m in DECS}
    probe._applyCommand = lambda *x, **y: None
    try:
        probe.destroy()
    except Exception:
        pass

    lines = []
    for (m, a, kw, ans) in cases:
        dec, dt = DECS[m]
        lines.append(json.dumps({"op": "plan", "dec": dec, "dt": dt, "f": fid[m], "args": [qc.to_v(x) for x in a],
                                 "kw": kw_model(kw)}))
        if ans[0] == "none":
            lines.append(json.dumps({"op": "outcome", "flag": False, "res": None, "err": 0}))
        elif ans[0] == "ok":
            lines.append(json.dumps({"op": "outcome", "flag": True, "res": ans[1], "err": 0}))
        else:
            lines.append(json.dumps({"op": "outcome", "flag": True, "res": None, "err": ans[1]}))
    try:
        out = ctx.driver("queue", lines)
        assert len(out) == len(lines), (len(out), len(lines))
        driver_err = None
    except Exception as e:   # noqa
        out = ['{"error": "driver"}'] * len(lines)
        driver_err = repr(e)[:300]

    cov = {"plan_local": 0, "mode_nocb": 0, "mode_user": 0, "mode_sync": 0, "shape_bare": 0, "shape_two": 0,
           "shape_three": 0, "three_with_empty_kw": 0, "ret_value": 0, "ret_raised": 0, "ret_timeout": 0,
           "reserved_in_kw": 0, "callback_and_sync": 0, "falsy_sync_nonbool": 0}
    distinct = set()
    disagreements, violations, samples = [], [], []
    for i, case in enumerate(cases):
        m, a, kw, ans = case
        mj = json.loads(out[2 * i])
        oj = json.loads(out[2 * i + 1])
        try:
            obs, _ = run_real(so, Obj, AR, case)
        except Exception as e:   # noqa  (the real wrapper / unpacking blew up: that is an observation too)
            obs = {"crash": "%s: %s" % (type(e).__name__, e)}
        if "error" in mj or "error" in oj:
            if driver_err is None and len(disagreements) < 3:
                disagreements.append({"input": repr(case), "model": mj, "impl": None, "note": "driver rejected the case"})
            for sig, what in monitors(case, obs):
                if len(violations) < 3 and sig not in [x["signature"] for x in violations]:
                    violations.append({"signature": sig, "what": what,
                                       "replay": {"method": m, "args": qc.to_v(a), "kw": kw_model(kw), "answer": list(ans)}})
            continue
        exp = expect_from_model(case, fid[m], mj, oj)
        key = qc.canon([m, qc.to_v(a), kw_model(kw), list(ans)])
        distinct.add(key)
        # coverage
        if mj["plan"] == "local":
            cov["plan_local"] += 1
        else:
            cov["mode_" + mj["mode"]] += 1
            c = mj["cmd"]
            if not isinstance(c, dict):
                cov["shape_bare"] += 1
            elif len(c["t"]) == 2:
                cov["shape_two"] += 1
            else:
                cov["shape_three"] += 1
                if c["t"][2] == {"d": []}:
                    cov["three_with_empty_kw"] += 1
            cov["ret_" + exp["ret"][0]] += 1
        if any(k in kw for k in RESERVED):
            cov["reserved_in_kw"] += 1
        if kw.get("callback") is not None and kw.get("sync"):
            cov["callback_and_sync"] += 1
        if "sync" in kw and not isinstance(kw["sync"], bool):
            cov["falsy_sync_nonbool"] += 1
        cmp_obs = {k: obs.get(k) for k in exp}
        if cmp_obs != exp and len(disagreements) < 3:
            disagreements.append({"input": {"method": m, "args": qc.to_v(a), "kw": kw_model(kw), "answer": list(ans)},
                                  "model": exp, "impl": cmp_obs,
                                  "note": "real wrapper / unpacking differs from PSO.Queue.planOf / received"})
        for sig, what in monitors(case, obs):
            if len(violations) < 3 and sig not in [x["signature"] for x in violations]:
                violations.append({"signature": sig, "what": what,
                                   "replay": {"method": m, "args": qc.to_v(a), "kw": kw_model(kw), "answer": list(ans)}})
        if len(samples) < 2 and mj["plan"] == "rep" and mj["mode"] == "sync" and kw:
            samples.append({"method": m, "args": qc.to_v(a), "kw": kw_model(kw), "answer": list(ans), "impl": obs})
        if obs.get("hung"):
            cov["stopped_after_hung_call"] = i      # a thread of the tree under test is still spinning: feed it no more
            break
    res = {"cases": len(cases), "distinct": len(distinct), "coverage": cov, "samples": samples,
           "disagreements": disagreements, "violations": violations, "wall_s": round(time.time() - t0, 2),
           "notes": "real @replicated/@replicated_sync + real __doApplyCommand vs PSO.Queue.planOf/received/outcomeOf"}
    floors = [k for k in ("plan_local", "mode_nocb", "mode_user", "mode_sync", "shape_bare", "shape_two", "shape_three",
                          "three_with_empty_kw", "ret_value", "ret_raised", "ret_timeout", "callback_and_sync")
              if cov[k] == 0]
    if driver_err is not None:      # binary missing / being relinked: infrastructure, not a finding
        res["inconclusive"] = "driver queue unavailable: " + driver_err
    elif floors and not violations:
        res["inconclusive"] = "coverage floor missed: " + ",".join(floors)
    return res


def replay(ctx, violation):
    so = qc.load(ctx)
    Obj, AR = _build(so)
    r = violation["replay"]
    kw = {}
    for k, v in r["kw"]:
        kw[k] = user_cb if (k == "callback" and v == 1) else qc.from_v(v)
    case = (r["method"], qc.from_v(r["args"]), kw, tuple(r["answer"]))
    obs, _ = run_real(so, Obj, AR, case)
    vs = monitors(case, obs)
    return {"violated": bool(vs), "violations": vs, "observed": obs}
