"""C15 monitor on a MIXED value domain (None, 0, False, '', (), ... as values, keys, items and defaults; optional
arguments omitted vs. an explicit None).  Monitor level only: the oracle is the real builtin container given
the same call (result value incl. exception class, contents after every sequence, replica rebuilt from
snapshots == replica that applied everything).  The Lean model keeps its Int domain (see notes/batteries.md,
"model domain vs monitor domain"); what this component adds is the part of the builtin semantics the Int domain
cannot show: `is None` / truthiness confusions, `0 == False == 0.0`-style aliasing of keys and items, a stored
None vs. "missing", a stored None vs. the default of `get`, ordering of `ReplSet.pop` across types.

Results are compared by `repr` (so 0, False, None, '' and () are all different), containers element-wise in
order, sets as sorted lists of (type name, repr)."""
import ast
import copy
import hashlib
import json
import pickle
import queue
import time

from harness.corr import batteries_ops as bo

PROPERTIES = ["C15"]
ORDER = 55

MIXED = [None, 0, False, '', (), 1, True, 'a', (0,), -1, 'b', 7]
# members for ReplSet: additionally kinds whose type has NO total order -- tuples with differently typed components,
# nested tuples, complex numbers (`<` raises TypeError), frozensets (`<` is the subset relation: {1,2} and {2,3} are
# incomparable) -- so that a choice rule for pop() that compares the members themselves shows.  Kept OUT of the domain:
# two distinct members with equal type name and equal repr (the recorded caveat of the D20 repair), 1+0j / 1.0 (equal to
# 1 and True).  Frozensets whose repr depends on their own layout are IN the domain since D85.
SETITEMS = MIXED + [(1, 'a'), ('a', 1), (1, None), (1, 2), ((1,), 'x'), ((1,), 2), (None, (0, 'b')), 1j, 2j, (3+1j),
                    frozenset(), frozenset([1]), frozenset([1, 2]), frozenset([2, 3]), frozenset([1, 2, 3]),
                    # D85: members whose OWN repr depends on their hash layout (45 and 53 collide in an 8-slot table;
                    # str members: per-process hash seed); frozenset([50]) sorts between the two reprs of {45, 53}
                    frozenset([45, 53]), frozenset([50]), frozenset([53, 61, 45]), frozenset(['a', 'b']), frozenset(['a', 'c']),
                    (frozenset([45, 53]), 1), (frozenset([50]), 1)]
ORDERABLE = [0, False, True, 1, -1, 7]
ERRS = (IndexError, ValueError, KeyError, TypeError, AssertionError)
CLASSES = bo.CLASSES


class Err(object):
    def __init__(self, name):
        self.name = name


def lit(v):
    return repr(v)


def unlit(r):
    """reprs written by this module only (literals, `set()`, `frozenset(...)`, complex)"""
    try:
        return ast.literal_eval(r)
    except (ValueError, SyntaxError):
        return eval(r, {"__builtins__": {}}, {"frozenset": frozenset, "set": set})


def vrepr(x):
    """repr that depends on the VALUE only: repr(frozenset) lists the members in the order of the frozenset's own
    hash table, which legitimately differs between equal values (e.g. after a pickle round trip)"""
    if isinstance(x, (frozenset, set)):
        return "%s({%s})" % (type(x).__name__, ", ".join(sorted(vrepr(y) for y in x)))
    if isinstance(x, tuple):
        return "(%s%s)" % (", ".join(vrepr(y) for y in x), "," if len(x) == 1 else "")
    return repr(x)


def value_key(x):
    """harness mirror of `pysyncobj.batteries._valueKey` (D85): the order by which ReplSet.pop chooses; used only to
    steer generators and to sort pictures of sets -- the oracles follow what the implementation returned"""
    if isinstance(x, (frozenset, set)):
        return (type(x).__name__, sorted(value_key(y) for y in x))
    if isinstance(x, tuple):
        return (type(x).__name__, [value_key(y) for y in x])
    return (type(x).__name__, repr(x))


def canon(v):
    """immediate, type-strict, layout-independent picture of a result / of contents"""
    if isinstance(v, Err):
        return {"e": v.name}
    if isinstance(v, (set, frozenset)):
        return ["set", sorted([type(x).__name__, vrepr(x)] for x in v)]
    if isinstance(v, dict):
        return ["dict", [[vrepr(k), vrepr(x)] for k, x in v.items()]]
    n = type(v).__name__
    if n in ("dict_keys", "dict_values"):
        return ["list", [vrepr(x) for x in v]]
    if n == "dict_items":
        return ["dict", [[vrepr(k), vrepr(x)] for k, x in v]]
    if n in ("list", "deque"):
        return ["list", [vrepr(x) for x in v]]
    return vrepr(v)


def args_of(op):
    return op[0], [unlit(r) for r in op[1:]]


# ------------------------------------------------------------------------------------------------
# real battery
# ------------------------------------------------------------------------------------------------
def call_battery(cls, obj, op):
    name, args = args_of(op)
    kw = {"_doApply": True} if name in bo.REPLICATED[cls] else {}
    try:
        r = getattr(obj, name)(*args, **kw)
        return r, canon(r)
    except ERRS as e:
        r = Err(type(e).__name__)
        return r, canon(r)


def battery_raw_contents(cls, obj):
    if cls == "counter":
        return obj.get(), 0
    if cls in ("list", "dict", "set"):
        return obj.rawData(), 0
    pre = "_ReplQueue__" if cls == "queue" else "_ReplPriorityQueue__"
    return list(getattr(obj, pre + "data")), getattr(obj, pre + "maxsize")


def contents_canon(cls, c):
    if cls == "pq":
        return ["multiset", sorted(vrepr(x) for x in c)]
    return canon(c)


def run_battery(B, cls, maxsize, ops, snapshots=True):
    obj = bo.make_battery(B, cls, maxsize)
    raw, res = [], []
    for op in ops:
        if op[0] == "snapshot":
            if snapshots:
                obj = bo.snapshot_battery(B, cls, obj)
            raw.append(None)
            res.append("snapshot")
            continue
        r, c = call_battery(cls, obj, op)
        raw.append(r)
        res.append(c)
    c, m = battery_raw_contents(cls, obj)
    return {"res": res, "raw": raw, "state": contents_canon(cls, c), "maxsize": m, "obj": obj}


# ------------------------------------------------------------------------------------------------
# real builtin given the same call
# ------------------------------------------------------------------------------------------------
NO_ORACLE = object()


def _reset(b, v, typ):
    assert isinstance(v, typ)
    b.v = v


def call_builtin(cls, b, op, oracle=NO_ORACLE, tags=None):
    name, a = args_of(op)
    x = b.v

    def tag(t):
        if tags is not None:
            tags[t] = tags.get(t, 0) + 1
    try:
        if cls == "counter":
            if name == "set":
                b.v = a[0]
            elif name == "add":
                b.v += a[0]
            elif name == "sub":
                b.v -= a[0]
            elif name == "inc":
                b.v += 1
            if not b.v:
                tag("counter:holds-falsy")
            return b.v
        if cls == "list":
            if a and name in ("append", "insert", "remove", "index", "count") and a[-1] is None:
                tag("list.%s:None-item" % name)
            if a and name in ("remove", "index", "count") and a[0] in (0, False) and type(a[0]) in (int, bool) \
                    and any(type(y) in (int, bool) and y == a[0] and type(y) is not type(a[0]) for y in x):
                tag("list.%s:0-equals-False" % name)
            if name == "reset":
                return _reset(b, a[0], list)
            if name in ("set", "__setitem__"):
                x[a[0]] = a[1]
                return None
            if name in ("get", "__getitem__"):
                return x[a[0]]
            if name == "sort":
                return x.sort(reverse=a[0]) if a else x.sort()
            if name == "__len__":
                return len(x)
            if name == "rawData":
                return x
            return getattr(x, name)(*a)
        if cls == "dict":
            if a and name in ("setdefault", "get", "pop", "__contains__", "__getitem__"):
                try:
                    if a[0] in x and x[a[0]] is None:
                        tag("dict.%s:stored-None-hit" % name)
                    elif a[0] in x and not x[a[0]]:
                        tag("dict.%s:stored-falsy-hit" % name)
                except TypeError:
                    pass
            if name in ("setdefault", "get", "pop"):
                tag("dict.%s:%s" % (name, "default-omitted" if len(a) == 1 else "default-None" if a[1] is None else "default-given"))
            if name == "reset":
                return _reset(b, a[0], dict)
            if name in ("set", "__setitem__"):
                x[a[0]] = a[1]
                return None
            if name == "__getitem__":
                return x[a[0]]
            if name == "__len__":
                return len(x)
            if name == "__contains__":
                return a[0] in x
            if name == "rawData":
                return x
            if name == "pop":
                return x.pop(a[0], a[1] if len(a) > 1 else None)      # documented: default instead of KeyError
            return getattr(x, name)(*a)                                 # setdefault get update clear keys values items
        if cls == "set":
            if a and name in ("add", "discard", "remove", "__contains__"):
                if a[0] is None:
                    tag("set.%s:None-item" % name)
                try:
                    if type(a[0]) in (int, bool) and any(type(y) in (int, bool) and y == a[0] and type(y) is not type(a[0]) for y in x):
                        tag("set.%s:0-equals-False" % name)
                except TypeError:
                    pass
            if name == "reset":
                return _reset(b, a[0], set)
            if name == "__len__":
                return len(x)
            if name == "__contains__":
                return a[0] in x
            if name == "rawData":
                return x
            if name == "pop":
                if len(set(type(y).__name__ for y in x)) > 1:
                    tag("set.pop:several-types")
                for tn, label in (("tuple", "tuples"), ("complex", "complex-members"), ("frozenset", "frozensets")):
                    if sum(1 for y in x if type(y).__name__ == tn) > 1:
                        tag("set.pop:several-%s" % label)
                if oracle is NO_ORACLE or isinstance(oracle, Err):
                    return x.pop()
                if oracle not in x:
                    return Err("popped-element-is-not-a-member")
                x.remove(oracle)
                return oracle
            return getattr(x, name)(*a)
        if cls in ("queue", "pq"):
            if name in ("qsize", "__len__"):
                return x.qsize()
            if name == "empty":
                return x.empty()
            if name == "full":
                return x.full()
            if name == "put":
                if not a[0]:
                    tag("%s.put:falsy-item" % cls)
                try:
                    x.put_nowait(a[0])
                    return True
                except queue.Full:
                    return False
            if name == "get":
                try:
                    r = x.get_nowait()
                    if r is None:
                        tag("%s.get:stored-None-returned" % cls)
                    return r
                except queue.Empty:
                    tag("%s.get:%s" % (cls, "default-on-empty" if a else "None-on-empty"))
                    return a[0] if a else None
    except ERRS as e:
        return Err(type(e).__name__)
    raise KeyError((cls, name))


def builtin_raw_contents(cls, b):
    if cls in ("queue", "pq"):
        return list(b.v.queue), max(b.v.maxsize, 0)
    return b.v, 0


def run_builtin(cls, maxsize, ops, oracle=None, tags=None):
    b = bo.make_builtin(cls, maxsize)
    res = []
    for i, op in enumerate(ops):
        if op[0] == "snapshot":
            res.append("snapshot")
            continue
        o = oracle[i] if (oracle is not None and cls == "set" and op[0] == "pop") else NO_ORACLE
        res.append(canon(call_builtin(cls, b, op, o, tags)))
        if tags is not None and cls != "counter":
            c = builtin_raw_contents(cls, b)[0]
            try:
                vals = list(c.values()) + list(c) if isinstance(c, dict) else list(c)
                if any((not y) for y in vals):
                    tags["%s:holds-falsy" % cls] = tags.get("%s:holds-falsy" % cls, 0) + 1
                if any(y is None for y in vals):
                    tags["%s:holds-None" % cls] = tags.get("%s:holds-None" % cls, 0) + 1
            except TypeError:
                pass
    c, m = builtin_raw_contents(cls, b)
    return {"res": res, "state": contents_canon(cls, c), "maxsize": m}


# ------------------------------------------------------------------------------------------------
# generators
# ------------------------------------------------------------------------------------------------
def gen_reset(rng, cls):
    if cls == "list":
        good = [rng.choice(MIXED) for _ in range(rng.randrange(0, 5))]
    elif cls == "dict":
        good = dict((k, rng.choice(MIXED)) for k in rng.sample(MIXED, rng.randrange(0, 4)))
    else:
        good = set(rng.sample(SETITEMS, rng.randrange(0, 6)))
    if rng.random() < 0.8:
        return good
    return rng.choice([None, 0, '', (), [], {}, set()])


def gen_op(rng, cls, size):
    v = lambda: rng.choice(MIXED)
    pos = lambda: rng.randrange(-size - 1, size + 2)
    r = rng.random()
    if cls == "counter":
        n = rng.choice(["set", "add", "sub", "inc", "get"])
        return [n] if n in ("inc", "get") else [n, lit(rng.choice([0, False, True, 1, -1, 5, 0, 0]))]
    if cls == "list":
        n = rng.choice(["append", "append", "append", "extend", "insert", "remove", "remove", "pop", "pop", "index", "index",
                        "count", "count", "get", "__getitem__", "set", "__len__", "rawData", "reset", "sort"])
        if n in ("append", "remove", "index", "count"):
            return [n, lit(v())]
        if n == "extend":
            return [n, lit([v() for _ in range(rng.randrange(0, 3))])]
        if n in ("insert", "set"):
            return [n, lit(pos()), lit(v())]
        if n == "pop":
            return [n] if r < 0.5 else [n, lit(pos())] if r < 0.9 else [n, lit(None)]
        if n == "sort":
            return [n] if r < 0.9 else [n, lit(True)]
        if n in ("get", "__getitem__"):
            return [n, lit(pos())]
        if n == "reset":
            return [n, lit(gen_reset(rng, cls))]
        return [n]
    if cls == "dict":
        n = rng.choice(["__setitem__", "set", "set", "setdefault", "setdefault", "update", "pop", "pop", "__getitem__", "get",
                        "get", "__len__", "__contains__", "__contains__", "keys", "values", "items", "rawData", "reset", "clear"])
        if n in ("__setitem__", "set"):
            return [n, lit(v()), lit(v())]
        if n == "setdefault":
            return [n, lit(v()), lit(v())] if r < 0.75 else [n, lit(v())]
        if n == "update":
            return [n, lit(dict((k, v()) for k in rng.sample(MIXED, rng.randrange(0, 3))))]
        if n in ("pop", "get"):
            return [n, lit(v())] if r < 0.4 else [n, lit(v()), lit(None)] if r < 0.6 else [n, lit(v()), lit(v())]
        if n in ("__getitem__", "__contains__"):
            return [n, lit(v())]
        if n == "reset":
            return [n, lit(gen_reset(rng, cls))]
        if n == "clear" and r < 0.8:
            return ["__len__"]
        return [n]
    if cls == "set":
        sv = lambda: rng.choice(SETITEMS)
        n = rng.choice(["add", "add", "add", "remove", "discard", "pop", "pop", "update", "rawData", "__len__", "__contains__",
                        "__contains__", "reset", "clear"])
        if n in ("add", "remove", "discard", "__contains__"):
            return [n, lit(sv())]
        if n == "update":
            return [n, lit([sv() for _ in range(rng.randrange(0, 4))])]
        if n == "reset":
            return [n, lit(gen_reset(rng, cls))]
        if n == "clear" and r < 0.8:
            return ["add", lit(sv())]
        return [n]
    n = rng.choice(["put", "put", "put", "get", "get", "full", "empty", "qsize", "__len__"])
    if n == "put":
        if cls == "pq":
            return [n, lit(rng.choice(ORDERABLE) if r < 0.93 else v())]
        return [n, lit(v())]
    if n == "get":
        return [n] if r < 0.4 else [n, lit(None)] if r < 0.55 else [n, lit(v())]
    return [n]


def systematic(cls):
    L = lit
    out = []
    if cls == "counter":
        out.append((None, [["get"], ["add", L(0)], ["sub", L(0)], ["set", L(0)], ["inc"], ["sub", L(1)], ["get"], ["add", L(False)],
                           ["set", L(False)], ["get"], ["inc"], ["add", L(True)]]))
    if cls == "list":
        out.append((None, [["append", L(None)], ["append", L(0)], ["append", L(False)], ["append", L('')], ["append", L(())],
                           ["count", L(0)], ["count", L(False)], ["count", L(None)], ["index", L(False)], ["index", L(0)],
                           ["index", L(None)], ["remove", L(False)], ["rawData"], ["remove", L(None)], ["remove", L(None)],
                           ["insert", L(0), L(None)], ["pop"], ["pop"], ["pop", L(0)], ["pop", L(None)], ["rawData"], ["snapshot"],
                           ["pop"], ["pop"], ["pop"], ["pop"]]))
        out.append((None, [["reset", L([False, 0, None])], ["index", L(0)], ["remove", L(0)], ["rawData"], ["count", L(False)],
                           ["sort"], ["rawData"], ["reset", L(())], ["reset", L(None)], ["extend", L([None, None])], ["count", L(None)]]))
    if cls == "dict":
        for stored in (None, 0, False, '', ()):
            for k in ('a', None, 0):
                pre = [["set", L(k), L(stored)]]
                out.append((None, pre + [["setdefault", L(k), L(1)], ["items"], ["setdefault", L('z'), L(stored)], ["items"]]))
                out.append((None, pre + [["setdefault", L(k)], ["setdefault", L('y')], ["items"]]))
                out.append((None, pre + [["get", L(k)], ["get", L(k), L(5)], ["get", L(k), L(None)], ["get", L('q')], ["get", L('q'), L(None)],
                                         ["get", L('q'), L(0)], ["__contains__", L(k)], ["__getitem__", L(k)], ["__contains__", L('q')]]))
                out.append((None, pre + [["pop", L(k), L(5)], ["items"], ["pop", L(k), L(5)], ["pop", L(k)], ["pop", L(k), L(None)]]))
                out.append((None, pre + [["pop", L(k)], ["__contains__", L(k)], ["__len__"], ["snapshot"], ["items"]]))
                out.append((None, pre + [["update", L({k: 1, 'n': None})], ["items"], ["update", L({})], ["__setitem__", L(k), L(None)],
                                         ["snapshot"], ["items"], ["values"], ["keys"]]))
        out.append((None, [["set", L(0), L('zero')], ["set", L(False), L('false')], ["items"], ["__contains__", L(False)],
                           ["pop", L(False)], ["items"], ["set", L(False), L(0)], ["set", L(0), L(None)], ["items"], ["reset", L([])],
                           ["reset", L(None)], ["reset", L({None: None})], ["items"]]))
    if cls == "set":
        out.append((None, [["add", L(None)], ["add", L(0)], ["add", L(False)], ["rawData"], ["__contains__", L(False)], ["__contains__", L(None)],
                           ["__contains__", L('')], ["add", L('')], ["add", L(())], ["add", L('a')], ["add", L(-1)], ["rawData"], ["snapshot"],
                           ["pop"], ["pop"], ["pop"], ["snapshot"], ["pop"], ["pop"], ["pop"], ["pop"], ["pop"]]))
        out.append((None, [["add", L(False)], ["add", L(0)], ["rawData"], ["discard", L(0)], ["rawData"], ["remove", L(None)], ["add", L(None)],
                           ["remove", L(None)], ["discard", L(None)], ["update", L([None, 0, ''])], ["remove", L(False)], ["rawData"],
                           ["reset", L({None, 0})], ["pop"], ["pop"], ["pop"], ["reset", L(None)], ["reset", L(())]]))
        for members in ([(1, 'a'), ('a', 1)], [(1, None), (1, 2)], [((1,), 'x'), ((1,), 2), (None, (0, 'b'))], [1j, 2j, (3+1j)],
                        [frozenset([1, 2]), frozenset([2, 3]), frozenset([1])], [frozenset([2, 3]), frozenset([1, 2]), frozenset()],
                        SETITEMS[len(MIXED):]):
            out.append((None, [["add", L(x)] for x in members] + [["rawData"], ["snapshot"], ["pop"], ["rawData"], ["snapshot"]]
                        + [["pop"]] * len(members) + [["__len__"]]))
            out.append((None, [["reset", L(set(members))], ["pop"], ["add", L(members[0])], ["snapshot"], ["pop"], ["pop"], ["rawData"]]))
    if cls in ("queue", "pq"):
        items = [None, 0, False, ''] if cls == "queue" else [0, False, True, -1]
        for m in (None, 0, 2):
            ops = [["get"], ["get", L(None)], ["get", L(0)], ["get", L(5)]]
            for x in items:
                ops += [["put", L(x)], ["empty"], ["full"], ["qsize"]]
            ops += [["snapshot"], ["get", L(5)], ["get"], ["get", L(None)], ["get", L(5)], ["get", L(5)], ["empty"]]
            out.append((m, ops))
        out.append((None, [["put", L(None)], ["get", L('default')], ["get", L('default')], ["put", L(None)], ["get"], ["__len__"]]))
        if cls == "pq":
            out.append((None, [["put", L(None)], ["put", L(None)], ["qsize"], ["put", L(1)], ["put", L('a')], ["qsize"], ["get"]]))
    return out


def random_case(rng, cls):
    maxsize = rng.choice([None, 0, 1, 2, 3]) if cls in ("queue", "pq") else None
    n = rng.choice([3, 8, 15, 25])
    ops = []
    b = bo.make_builtin(cls, maxsize)
    for _ in range(n):
        if rng.random() < 0.07:
            ops.append(["snapshot"])
            continue
        v = b.v
        try:
            size = v.qsize() if cls in ("queue", "pq") else 0 if cls == "counter" else len(v)
        except TypeError:
            size = 0
        op = gen_op(rng, cls, size)
        ops.append(op)
        call_builtin(cls, b, op)
    return maxsize, ops


# ------------------------------------------------------------------------------------------------
# monitor
# ------------------------------------------------------------------------------------------------
def first_diff(a, b):
    for i, (x, y) in enumerate(zip(a["res"], b["res"])):
        if not bo.same(x, y):
            return i
    if not bo.same(a["state"], b["state"]) or not bo.same(a["maxsize"], b["maxsize"]):
        return len(a["res"])
    return None


def drain(obj):
    out = []
    while len(obj):
        try:
            out.append(vrepr(obj.pop(_doApply=True)))
        except ERRS as e:                       # pop on a non-empty set must not raise; reported by the caller
            out.append("raises " + type(e).__name__)
            break
    return out


def pop_order_variants(B, contents):
    c = list(contents)
    out = {}
    a = B.ReplSet()
    a.reset(set(c), _doApply=True)
    out["reset"] = drain(a)
    a = B.ReplSet()
    for x in reversed(c):
        a.add(x, _doApply=True)
    out["added-reversed"] = drain(a)
    a = B.ReplSet()
    for x in c + list(range(200, 260)):
        a.add(x, _doApply=True)
    for x in range(200, 260):
        a.discard(x, _doApply=True)
    out["grown-and-shrunk"] = drain(a)
    a = B.ReplSet()
    for x in c:
        a.add(x, _doApply=True)
    b = B.ReplSet()
    b._deserialize(pickle.loads(pickle.dumps(a._serialize(), -1)))
    out["pickle-round-trip"] = drain(b)
    return out


def show(op):
    return "%s(%s)" % (op[0], ", ".join(op[1:]))


def monitor_case(B, cls, maxsize, ops, tags=None):
    real = run_battery(B, cls, maxsize, ops, snapshots=True)
    plain = run_battery(B, cls, maxsize, ops, snapshots=False)
    ref = run_builtin(cls, maxsize, ops, plain["raw"] if cls == "set" else None, tags)
    viols = []

    def mk(sig, what, i):
        return {"signature": sig, "what": what,
                "replay": {"domain": "mixed", "cls": cls, "maxsize": maxsize, "ops": ops[:i + 1] if i < len(ops) else ops}}
    i = first_diff(plain, ref)
    if i is not None:
        if i < len(ops):
            got = plain["res"][i]
            detail = got["e"] if isinstance(got, dict) else "value"
            viols.append(mk("batteries.%s.%s:differs-from-builtin:%s" % (bo.CLSNAME[cls], ops[i][0], detail),
                            "%s.%s returned %s, %s given the same operations returned %s (operation %d of %s)"
                            % (bo.CLSNAME[cls], show(ops[i]), json.dumps(got), bo.BUILTIN[cls], json.dumps(ref["res"][i]), i,
                               "; ".join(show(o) for o in ops[:i + 1])[-300:]), i))
        else:
            viols.append(mk("batteries.%s:contents-differ-from-builtin" % bo.CLSNAME[cls],
                            "%s holds %s (maxsize %r), %s given the same operations holds %s"
                            % (bo.CLSNAME[cls], json.dumps(plain["state"]), plain["maxsize"], bo.BUILTIN[cls], json.dumps(ref["state"])), i))
    if cls == "set":
        c = list(plain["obj"].rawData())
        if c:
            var = pop_order_variants(B, c)
            raised = [x for v in var.values() for x in v if x.startswith("raises ")]
            if raised:
                viols.append(mk("batteries.ReplSet.pop:differs-from-builtin:%s" % raised[0].split()[1],
                                "pop() on a non-empty ReplSet holding %r %s (set.pop() returns a member): %r" % (c, raised[0], var), len(ops)))
            elif len(set(json.dumps(v) for v in var.values())) > 1:
                viols.append(mk("batteries.ReplSet.pop:layout-dependent",
                                "ReplSets holding the same elements %r, built in different ways, are drained by pop() in different "
                                "orders: %r" % (c, var), len(ops)))
    if any(op[0] == "snapshot" for op in ops):
        i = first_diff(real, plain)
        if i is not None:
            if cls == "set" and i < len(ops) and ops[i][0] == "pop":
                viols.append(mk("batteries.ReplSet.pop:layout-dependent",
                                "ReplSet.pop() on a replica rebuilt from a snapshot returned %s, on the replica that applied the whole "
                                "history %s" % (json.dumps(real["res"][i]), json.dumps(plain["res"][i])), i))
            else:
                viols.append(mk("batteries.%s:replica-from-snapshot-differs" % bo.CLSNAME[cls],
                                "%s replica rebuilt from a snapshot: results %s, contents %s, maxsize %r; replica that applied everything: "
                                "results %s, contents %s, maxsize %r (first difference at operation %d)"
                                % (bo.CLSNAME[cls], json.dumps(real["res"][i:i + 1]), json.dumps(real["state"]), real["maxsize"],
                                   json.dumps(plain["res"][i:i + 1]), json.dumps(plain["state"]), plain["maxsize"], i), i))
    return viols


# ------------------------------------------------------------------------------------------------
# correspondence: which member ReplSet.pop removes  vs.  the Lean model of `_valueKey` (PSO.Py.PySet.chooseIdx)
# ------------------------------------------------------------------------------------------------
def member_json(m, flip=False):
    """int | {"a":[type name, repr]} | {"t":[...]} | {"f":[members in the iteration order of the frozenset]}"""
    if isinstance(m, (frozenset, set)):
        e = list(m)
        return {"f": [member_json(y, flip) for y in (reversed(e) if flip else e)]}
    if isinstance(m, tuple):
        return {"t": [member_json(y, flip) for y in m]}
    if type(m) is int:
        return m
    return {"a": [type(m).__name__, repr(m)]}


def member_cases(rng, n):
    atoms = [None, False, True, 0, 1, -1, 2, 10, 45, 50, 53, 61, 100, 'a', 'b', 'ab', '', 1j]
    fs = [frozenset(), frozenset([1]), frozenset([1, 2]), frozenset([2, 3]), frozenset([45, 53]), frozenset([50]), frozenset([53, 61, 45]),
          frozenset(['a', 'b']), frozenset(['a', 'c']), frozenset([frozenset([45, 53]), 1]), frozenset([(1, 'a'), (1, 2)])]
    tps = [(), (1,), (1, 2), (1, 'a'), ('a', 1), (1, None), ((1,), 2), ((1,), 'x'), (frozenset([45, 53]), 1), (frozenset([50]), 1),
           (1, (2, frozenset([53, 45])))]
    pool = atoms + fs + tps
    out = [[frozenset([45, 53]), frozenset([50])], [(1, 'a'), (1, 2)], [(frozenset([45, 53]), 1), (frozenset([50]), 1)], [0, False],
           fs, tps, atoms]
    while len(out) < n:
        kind = rng.random()
        src = pool if kind < 0.5 else fs if kind < 0.7 else tps if kind < 0.9 else atoms
        out.append(rng.sample(src, rng.randrange(1, min(7, len(src)) + 1)))
    return out


def members_correspondence(ctx, B, rng):
    cases = member_cases(rng, ctx.scale(300, 5000))
    lines, metas = [], []
    for ms in cases:
        obj = B.ReplSet()
        for m in ms:
            obj.add(pickle.loads(pickle.dumps(m, -1)) if rng.random() < 0.5 else m, _doApply=True)
        enum = list(obj.rawData())                    # iteration order of the real hash table
        try:
            got = obj.pop(_doApply=True)
        except ERRS as e:
            got = Err(type(e).__name__)
        for variant in range(2):                      # as iterated / another enumeration of the same values
            en = enum if variant == 0 else rng.sample(enum, len(enum))
            lines.append(json.dumps({"cls": "members", "enum": [member_json(m, flip=(variant == 1)) for m in en]}))
            metas.append((ms, en, got))
    outl = ctx.driver("batteries", lines)
    dis, kinds = [], {}
    for (ms, en, got), o in zip(metas, outl):
        idx = json.loads(o).get("idx")
        model = en[idx] if isinstance(idx, int) else None
        for m in en:
            kinds[type(m).__name__] = kinds.get(type(m).__name__, 0) + 1
        if isinstance(got, Err) or idx is None or not (model == got and type(model) is type(got)):
            if len(dis) < 3:
                dis.append({"input": {"cls": "members", "members": [vrepr(m) for m in en]},
                            "model": None if model is None else vrepr(model), "impl": canon(got),
                            "note": "Lean PySet.chooseIdx (model of batteries._valueKey) vs the member the real ReplSet.pop() removed"})
    return len(lines), dis, kinds


FLOORS = [
    "dict.setdefault:stored-None-hit", "dict.get:stored-None-hit", "dict.pop:stored-None-hit", "dict.__contains__:stored-None-hit",
    "dict.__getitem__:stored-None-hit", "dict.setdefault:stored-falsy-hit", "dict.get:stored-falsy-hit", "dict.pop:stored-falsy-hit",
    "dict.setdefault:default-omitted", "dict.setdefault:default-given", "dict.get:default-omitted", "dict.get:default-None",
    "dict.get:default-given", "dict.pop:default-omitted", "dict.pop:default-None", "dict.pop:default-given",
    "counter:holds-falsy", "list:holds-falsy", "dict:holds-falsy", "set:holds-falsy", "queue:holds-falsy", "pq:holds-falsy",
    "list:holds-None", "dict:holds-None", "set:holds-None", "queue:holds-None",
    "list.append:None-item", "list.insert:None-item", "list.remove:None-item", "list.index:None-item", "list.count:None-item",
    "list.remove:0-equals-False", "list.index:0-equals-False", "list.count:0-equals-False",
    "set.add:None-item", "set.discard:None-item", "set.remove:None-item", "set.__contains__:None-item",
    "set.add:0-equals-False", "set.__contains__:0-equals-False", "set.pop:several-types", "set.pop:several-tuples",
    "set.pop:several-complex-members", "set.pop:several-frozensets",
    "queue.put:falsy-item", "pq.put:falsy-item", "queue.get:stored-None-returned", "queue.get:default-on-empty",
    "queue.get:None-on-empty", "pq.get:default-on-empty", "pq.get:None-on-empty",
]


def _minimise(B, cls, m, ops, sig):
    small = bo.shrink(ops, lambda c: any(x["signature"] == sig for x in monitor_case(B, cls, m, c)))
    vs = [x for x in monitor_case(B, cls, m, small) if x["signature"] == sig]
    return vs[0] if vs else None


def run(ctx):
    t0 = time.time()
    B = bo.load_batteries(ctx.repo)
    rng = ctx.rng("batteries_mixed")
    cases = []
    for cls in CLASSES:
        for m, ops in systematic(cls):
            cases.append((cls, m, ops))
    n_sys = len(cases)
    for cls in CLASSES:
        for _ in range(ctx.scale(500, 8000)):
            m, ops = random_case(rng, cls)
            cases.append((cls, m, ops))
    tags, cov, viols, seen, distinct, n_ops = {}, {}, [], set(), set(), 0
    for cls, m, ops in cases:
        distinct.add(hashlib.sha1(json.dumps([cls, m, ops]).encode()).hexdigest())
        n_ops += len(ops)
        for op in ops:
            k = "%s.%s/%d" % (cls, op[0], len(op) - 1)
            cov[k] = cov.get(k, 0) + 1
        for v in monitor_case(B, cls, m, ops, tags):
            if v["signature"] in seen:
                continue
            seen.add(v["signature"])
            viols.append(_minimise(B, cls, m, ops, v["signature"]) or v)
    n_mc, dis, mkinds = members_correspondence(ctx, B, ctx.rng("batteries_mixed.members"))
    missing = [f for f in FLOORS if not tags.get(f)]
    missing += ["members-correspondence:" + k for k in ("int", "str", "tuple", "frozenset", "NoneType", "bool") if not mkinds.get(k)]
    res = {"cases": len(cases) + n_mc, "distinct": len(distinct),
           "coverage": {"systematic_cases": n_sys, "operations": n_ops, "domain": [repr(x) for x in MIXED],
                        "situations": dict(sorted(tags.items())), "method/arity": dict(sorted(cov.items()))},
           "samples": [{"cls": c, "maxsize": m, "ops": [show(o) for o in o_[:10]]} for c, m, o_ in (cases[1], cases[n_sys], cases[-1])],
           "disagreements": dis, "violations": viols[:8], "wall_s": round(time.time() - t0, 2),
           "notes": "monitor (real battery vs real builtin, mixed value domain) + correspondence of the member chosen by ReplSet.pop "
                    "with the Lean model of _valueKey (driver `batteries`, cls `members`)"}
    res["coverage"]["members_correspondence"] = {"queries": n_mc, "member_kinds": mkinds}
    if missing and not viols and not dis:
        res["inconclusive"] = "coverage floor missed: " + ", ".join(missing[:8])
    elif missing:
        res["coverage"]["floors_missed"] = missing
    return res


def search(ctx, unproved):
    B = bo.load_batteries(ctx.repo)
    rng = ctx.rng("batteries_mixed.search")
    found, seen, t0 = [], set(), time.time()
    for i in range(ctx.scale(3000, 40000)):
        cls = CLASSES[i % len(CLASSES)]
        m, ops = random_case(rng, cls)
        for v in monitor_case(B, cls, m, ops):
            if v["signature"] not in seen:
                seen.add(v["signature"])
                found.append(_minimise(B, cls, m, ops, v["signature"]) or v)
        if time.time() - t0 > ctx.budget_s:
            break
    return found


def replay(ctx, violation):
    B = bo.load_batteries(ctx.repo)
    r = violation["replay"]
    vs = monitor_case(B, r["cls"], r.get("maxsize"), r["ops"])
    same = [v for v in vs if v["signature"] == violation["signature"]]
    plain = run_battery(B, r["cls"], r.get("maxsize"), r["ops"], snapshots=False)
    out = {"violated": bool(same), "signature": violation["signature"], "input": [show(o) for o in r["ops"]],
           "battery": {"res": plain["res"], "state": plain["state"]},
           "builtin": run_builtin(r["cls"], r.get("maxsize"), r["ops"], plain["raw"] if r["cls"] == "set" else None)}
    if same:
        out["what"] = same[0]["what"]
    return out
