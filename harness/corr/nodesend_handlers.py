"""Handler-level correspondence `nodesend.handlers` (C11, node-local C02, node-local C10).

Every case = abstract node state + ONE entry point.  The state is injected into a live REAL `SyncObj`
(built by harness/sim.py; see nodesend_lib for the private attributes touched), the real entry point is fired
(`_SyncObj__sendAppendEntries`, `_checkCommandsToApply`, `_applyCommand`, `_SyncObj__onMessageReceived` with
append_entries / chunk / apply_command / apply_command_response messages, `_SyncObj__onLeaderChanged`,
`_SyncObj__loadDumpFile`, `_SyncObj__doApplyCommand`, `_onTick` with `__needLoadDumpFile` (journal fold at start-up),
kill + start of a journaled node on real journal / meta / dump files (op `restartnode`, see `restart_real`),
`_SyncObj__tryLogCompaction` with a recording serializer (the cluster written into a dump)), the messages handed to the transport, the callbacks,
the registry calls and the post-state are captured and diffed with `driver nodesend`.

Besides the diff, property statements are evaluated on the real observations of every case (monitors):
  M-C11  chunk bursts of one run reassemble to exactly the pickled entry, `finish` only on the last chunk;
         the entries carried by a full send run are the log suffix from nextIndex, in order, once
  M-C02  a callback id fires at most once per case; a case that reports QUEUE_FULL / MISSING_LEADER / NOT_LEADER /
         REQUEST_DENIED for a command leaves the log without that command and forwards nothing for it
  M-C10  a leader that appends a membership entry had lastApplied >= noopIDx and no recorded unapplied change
"""
import collections
import hashlib
import json
import os
import time

from harness.corr import nodesend_lib as L

PROPERTIES = ["C11", "C02", "C10"]
ORDER = 40

SIG_CHUNK = "syncobj.sendAppendEntries:chunk-burst-does-not-reassemble"
SIG_PART = "syncobj.sendAppendEntries:batches-do-not-partition-log-suffix"
SIG_CB2 = "syncobj.callbacks:fired-twice-in-one-handler"
SIG_FAILAPP = "syncobj.checkCommandsToApply:definite-failure-but-appended-or-forwarded"
SIG_GATE = "syncobj.changeCluster:membership-entry-appended-while-gate-closed"
SIG_EXC = "syncobj.handler:exception-escaped-on-wellformed-state"

BASE_CONF = {"batch": 65536, "useBatch": True, "dyn": False, "waitLeader": True, "queueMax": 100000}


def conf(**kw):
    c = dict(BASE_CONF)
    c.update(kw)
    return c


def blank_state(**kw):
    s = {"self": 0, "role": 0, "term": 1, "leader": None, "log": [], "commit": 1, "lastApplied": 1,
         "members": [1, 2], "readonly": [], "connected": [1, 2], "next": [], "match": [],
         "queue": [], "waitCommit": [], "waitReply": [], "counter": 0, "noop": None, "change": None, "buf": None}
    s.update(kw)
    return s


# --------------------------------------------------------------------------------------------------
# running one case on the real code
# --------------------------------------------------------------------------------------------------
class Clock(object):
    """call-counting clock: returns T for the first `n` calls, T+100 afterwards (None: never jumps, but a safety
    jump after 20000 calls ends a loop the frozen clock would let spin forever)"""

    def __init__(self, n):
        self.n = 20000 if n is None else n
        self.calls = 0
        self.safety = n is None

    def __call__(self):
        self.calls += 1
        return 1000.0 if self.calls <= self.n else 1100.0


def run_real(env, case):
    """returns dict(err=class|None, out=canonical outputs, state=abstract post state, extra)"""
    op = case["op"]
    st, cf = case["state"], case["conf"]
    env.inject(st, cf)
    obj = env.obj
    N = lambda i: env.Node(L.nid(i))
    so = env.so
    old_clock = so.monotonicTime
    err = None
    extra = {}
    try:
        try:
            if op == "send":
                d = case["dst"]
                env.ser.answers[L.nid(d)] = list(case.get("snap", []))
                env.drop_after = case.get("drop")
                b = case.get("budget")
                clk = Clock(None if b is None else 2 + (b - 1))
                so.monotonicTime = clk
                obj._SyncObj__sendAppendEntries()
                extra["safety"] = clk.safety and clk.calls > clk.n
            elif op == "sendall":
                order = [L.nnum(n.id) for n in (env.P("otherNodes") | env.P("readonlyNodes"))]
                extra["order"] = order
                b = case.get("budget")
                clk = Clock(None if b is None else 2 + (b - 1))
                so.monotonicTime = clk
                obj._SyncObj__sendAppendEntries()
            elif op == "check":
                b = case.get("budget")
                n0 = len(st["queue"])
                q = env.P("commandsQueue")._FastQueue__queue
                if b is not None:
                    first = [True]

                    def qclock():
                        if first[0]:            # startTime
                            first[0] = False
                            return 1000.0
                        return 1000.0 if (n0 - len(q)) < b else 1100.0
                    so.monotonicTime = qclock
                else:
                    so.monotonicTime = lambda: 1000.0
                obj._checkCommandsToApply()
            elif op == "submit":
                so.monotonicTime = lambda: 1000.0
                obj._applyCommand(env.cmds.to_bytes(case["cmd"]), env.cb_real(case.get("cb")))
            elif op == "recv_apply":
                m = {"type": "apply_command", "command": env.cmds.to_bytes(case["cmd"])}
                if case.get("req") is not None:
                    m["request_id"] = case["req"]
                obj._SyncObj__onMessageReceived(N(case["from"]), m)
            elif op == "recv_response":
                m = {"type": "apply_command_response", "request_id": case["req"]}
                if case.get("err") is not None:
                    m["error"] = case["err"]
                else:
                    m["log_idx"], m["log_term"] = case["idx"], case["lterm"]
                obj._SyncObj__onMessageReceived(N(case["from"]), m)
            elif op == "leader_changed":
                obj._SyncObj__onLeaderChanged()
            elif op == "fappend":
                so.monotonicTime = lambda: 1000.0
                m = {"type": "append_entries", "term": st["term"], "commit_index": st["commit"]}
                if case.get("prev") is not None:
                    m["prevLogIdx"], m["prevLogTerm"] = case["prev"]
                else:
                    m["prevLogIdx"], m["prevLogTerm"] = None, None
                if case.get("chunk") is not None:
                    m["transmission"] = case["chunk"][0]
                    m["data"] = env.spans_bytes(case["chunk"][1])
                else:
                    m["entries"] = [env.entry_real(e) for e in case.get("entries", [])]
                obj._SyncObj__onMessageReceived(N(case["from"]), m)
            elif op == "frun":
                so.monotonicTime = lambda: 1000.0
                for fm in case["msgs"]:
                    m = {"type": "append_entries", "term": st["term"], "commit_index": st["commit"]}
                    if fm.get("prev") is not None:
                        m["prevLogIdx"], m["prevLogTerm"] = fm["prev"]
                    else:
                        m["prevLogIdx"], m["prevLogTerm"] = None, None
                    if fm.get("chunk") is not None:
                        m["transmission"] = fm["chunk"][0]
                        m["data"] = env.spans_bytes(fm["chunk"][1])
                    else:
                        m["entries"] = [env.entry_real(e) for e in fm.get("entries", [])]
                    obj._SyncObj__onMessageReceived(N(case["from"]), m)
            elif op == "restore":
                data = (None, env.entry_real(case["lastE"]), env.entry_real(case["prevE"]),
                        set(N(i) for i in case["cluster"]))
                env.ser.deserialize = lambda incoming=False: data
                cf_obj = env.P("conf")
                r = obj._SyncObj__loadDumpFile(clearJournal=True)
                extra["ret"] = r
            elif op == "reapply":
                obj._SyncObj__doApplyCommand(env.cmds.to_bytes(case["entry"][0]))
            elif op == "appendmsg":
                so.monotonicTime = lambda: 1000.0
                x = case["extra"]
                obj._SyncObj__votedForNodeId = None if x["votedFor"] is None else L.nid(x["votedFor"])
                obj._SyncObj__votesCount = x["votes"]
                obj._SyncObj__raftElectionDeadline = 5.0
                jr = env.P("raftLog")
                calls = {"tv": [], "commit": []}
                otv, oc = jr.setTermAndVote, jr.setRaftCommitIndex
                jr.setTermAndVote = lambda t, v: (calls["tv"].append([t, None if v is None else L.nnum(v)]), otv(t, v))[1]
                jr.setRaftCommitIndex = lambda c: (calls["commit"].append(c), oc(c))[1]
                m = {"type": "append_entries", "term": case["term"], "commit_index": case["commit"]}
                k = case["kind"]
                if "regular" in k:
                    r = k["regular"]
                    if r.get("prev") is not None:
                        m["prevLogIdx"], m["prevLogTerm"] = r["prev"]
                    else:
                        m["prevLogIdx"], m["prevLogTerm"] = None, None
                    if r.get("chunk") is not None:
                        m["transmission"] = r["chunk"][0]
                        m["data"] = env.spans_bytes(r["chunk"][1])
                    else:
                        m["entries"] = [env.entry_real(e) for e in r.get("entries", [])]
                else:
                    sn = k["snap"]
                    if sn is None:
                        m["serialized"] = None
                    else:
                        m["serialized"] = (b"chunk", False, sn != "notlast")
                        env.ser.setTransmissionData = (lambda d: False) if sn == "notlast" else (lambda d: True)
                        if sn == "broken":
                            def boom(incoming=False):
                                raise IOError("damaged dump")
                            env.ser.deserialize = boom
                        elif sn != "notlast":
                            data = (None, env.entry_real(sn["lastE"]), env.entry_real(sn["prevE"]),
                                    set(N(i) for i in sn["cluster"]))
                            env.ser.deserialize = lambda incoming=False: data
                            env.ser.store_fails = bool(sn.get("storeFails"))
                try:
                    obj._SyncObj__onMessageReceived(N(case["from"]), m)
                finally:
                    v = obj._SyncObj__votedForNodeId
                    extra["x"] = {"votedFor": None if v is None else L.nnum(v), "votes": obj._SyncObj__votesCount}
                    extra["obs"] = {"deadline": obj._SyncObj__raftElectionDeadline != 5.0,
                                    "termVote": calls["tv"][-1] if calls["tv"] else None,
                                    "commit": calls["commit"][-1] if calls["commit"] else None,
                                    "ncalls": [len(calls["tv"]), len(calls["commit"])]}
            elif op == "journalfold":
                # first tick after a start: the `__needLoadDumpFile` block of `_onTick` (no dump file configured)
                so.monotonicTime = lambda: 1000.0
                obj._SyncObj__needLoadDumpFile = True
                obj._SyncObj__raftElectionDeadline = 1e18
                obj._onTick(0.0)
            elif op == "restartnode":
                extra.update(restart_real(env, case))
            elif op == "capture":
                so.monotonicTime = lambda: 1000.0
                obj._SyncObj__forceLogCompaction = True
                obj._SyncObj__lastSerializedEntry = None
                obj._SyncObj__tryLogCompaction()
                ser = getattr(env.ser, "serialized", [])
                extra["cluster"] = None if not ser else sorted(L.nnum(n.id) for n in ser[0][0][3])
                extra["dump_id"] = None if not ser else ser[0][1]
            else:
                raise ValueError("unknown op " + op)
        finally:
            so.monotonicTime = old_clock
    except Exception as e:   # noqa: an escaping exception is an observation
        err = type(e).__name__
        extra["exc"] = "%s: %s" % (err, str(e)[:120])
    for e in env.P("raftLog")[:]:
        if e[1] not in env.pickled or op != "fappend":
            env.pickled[e[1]] = env.pickle.dumps(e)
    out = env.canon_out(env.out)
    post = extra.pop("post", None) or env.extract()
    return {"err": err, "out": out, "state": post, "extra": extra, "plen": dict((i, len(p)) for i, p in env.pickled.items())}


def restart_real(env, case):
    """op `restartnode`: a REAL journaled SyncObj (journal file, meta file, optionally a dump file written by its own
    `__tryLogCompaction`, `useFork` False) is abandoned without any shutdown call; a second SyncObj is constructed on the
    same files and runs its first `_onTick` under the simulator's clock.  The state is taken when that tick reaches
    `__applyLogEntries` for the first time (= right after the start-up block; applying the commands is a separate
    step of the protocol model, `apply`, and the seeded command bytes are not executable).
    returns {"post": abstract state of the new object, "x": votedFor/votes, "pre_log": journal at the kill, "dump": entries}"""
    import shutil
    import tempfile
    st = case["state"]
    sim = env.sim
    n0 = L.nid(st["self"])
    N = lambda i: env.Node(L.nid(i))
    base = getattr(env, "scratch", None)
    d = tempfile.mkdtemp(prefix="restartnode-", dir=base)
    jf, df = os.path.join(d, "n.journal"), os.path.join(d, "n.dump")
    dump_at = case.get("dump")
    saved = (sim.objs.get(n0), sim.transports.get(n0), sim.per_node_conf.get(n0), env.obj, sim.generation[n0])
    held = []
    try:
        pc = {"journalFile": jf, "useFork": False, "dynamicMembershipChange": False}
        if dump_at is not None or case.get("dumpConfigured"):
            pc["fullDumpFile"] = df
        sim.per_node_conf[n0] = pc
        others = [L.nid(m) for m in st["members"]]
        sim._start(n0, others=others)
        a = sim.objs[n0]
        held.append(a)
        A = lambda name, v: setattr(a, "_SyncObj__" + name, v)
        j = a._SyncObj__raftLog
        # ---- the state the node has reached: through the journal's own interface, as the handlers store it
        j.clear()
        for e in st["log"]:
            j.add(*env.entry_real(e))
        vf = case["extra"]["votedFor"]
        A("raftCurrentTerm", st["term"])
        A("votedForNodeId", None if vf is None else L.nid(vf))
        j.setTermAndVote(st["term"], None if vf is None else L.nid(vf))         # stored at once (D16)
        A("votesCount", case["extra"]["votes"])
        A("raftState", st["role"])
        A("raftLeader", None if st["leader"] is None else N(st["leader"]))
        A("raftNextIndex", dict((N(k), v) for k, v in st["next"]))
        A("raftMatchIndex", dict((N(k), v) for k, v in st["match"]))
        sc = case.get("storedCommit")
        if sc is not None:
            A("raftCommitIndex", sc)
            j.setRaftCommitIndex(sc)
            j.onOneSecondTimer()                                                # the meta reaches the disk once a second
        A("raftCommitIndex", st["commit"])
        j.setRaftCommitIndex(st["commit"])                                      # ... this later value does not
        dump_entries = None
        if dump_at is not None:
            A("raftLastApplied", dump_at)
            A("forceLogCompaction", True)
            A("lastSerializedEntry", None)
            a._SyncObj__tryLogCompaction()                                      # writes the dump file (no fork)
            if not os.path.isfile(df):
                raise RuntimeError("dump file was not written")
            by_idx = dict((e[1], e) for e in st["log"])
            dump_entries = [by_idx[dump_at - 1], by_idx[dump_at]]
            if case.get("trim"):
                a._SyncObj__tryLogCompaction()                                  # SUCCESS seen: the journal head is dropped
            dmg = case.get("damage")
            if dmg is not None:
                # journal and dump file that do not belong together: the journal lost its tail / holds another entry
                cur = [tuple(e) for e in j[:]]
                j.clear()
                for e in cur:
                    if e[1] < dump_at:
                        j.add(*e)
                    elif e[1] == dump_at and dmg == "term":
                        j.add(e[0], e[1], e[2] + 1)
        A("raftLastApplied", st["lastApplied"])
        pre_log = [env.entry_abs(e) for e in j[:]]
        # ---- kill -9: no destroy, no flush; the object stays referenced so that no destructor runs now
        sim.objs.pop(n0, None)
        # ---- start again on the same files
        sim._start(n0, others=others)
        b = sim.objs[n0]
        held.append(b)
        snap = {}
        env.obj = b

        def hook():
            if not snap:
                snap["st"] = env.extract()
                snap["x"] = {"votedFor": None if b._SyncObj__votedForNodeId is None else L.nnum(b._SyncObj__votedForNodeId),
                             "votes": b._SyncObj__votesCount}
        b._SyncObj__applyLogEntries = hook
        sim.tick(n0, 0.0)
        hook()
        for e in b._SyncObj__raftLog[:]:
            env.pickled[e[1]] = env.pickle.dumps(e)
        res = {"post": snap["st"], "x": snap["x"], "pre_log": pre_log, "dump": dump_entries,
               "meta_commit": b._SyncObj__raftLog.getRaftCommitIndex()}
        if case.get("twice"):
            # killed again right after the start-up block: a THIRD object on the files the second one left behind
            # (`PSO.C06.restart_twice_is_restart_once`: the same node comes back)
            sim.objs.pop(n0, None)
            sim._start(n0, others=others)
            c = sim.objs[n0]
            held.append(c)
            snap2 = {}
            env.obj = c

            def hook2():
                if not snap2:
                    snap2["st"] = env.extract()
                    snap2["x"] = {"votedFor": None if c._SyncObj__votedForNodeId is None else L.nnum(c._SyncObj__votedForNodeId),
                                  "votes": c._SyncObj__votesCount}
            c._SyncObj__applyLogEntries = hook2
            sim.tick(n0, 0.0)
            hook2()
            res["post2"], res["x2"] = snap2["st"], snap2["x"]
        return res
    finally:
        env.obj = saved[3]
        for o in held:
            try:
                o._SyncObj__raftLog._destroy()
            except Exception:
                pass
        if saved[0] is not None:
            sim.objs[n0] = saved[0]
        if saved[1] is not None:
            sim.transports[n0] = saved[1]
        if saved[2] is None:
            sim.per_node_conf.pop(n0, None)
        else:
            sim.per_node_conf[n0] = saved[2]
        sim.generation[n0] = saved[4]
        shutil.rmtree(d, ignore_errors=True)


def err_class(name):
    if name is None:
        return None
    if name in ("IndexError", "KeyError", "TypeError", "AssertionError"):
        return name
    return "Unpickle"        # EOFError, UnpicklingError, ValueError ... of pickle.loads on a damaged string


# --------------------------------------------------------------------------------------------------
# the same case for the driver
# --------------------------------------------------------------------------------------------------
def driver_line(env, case, real):
    st = case["state"]
    post_log = {}
    for e in real["state"]["log"]:
        post_log.setdefault(tuple(e[0]), (e[1], e[2]))
    orig = set(tuple(e[0]) for e in st["log"])

    def ovh_entry(e):
        return env.ovh_of(env.cmds.to_bytes(e[0]), e[1], e[2])

    last = st["log"][-1][1] if st["log"] else 0

    def ovh_queue(c):
        t = tuple(c)
        if t in post_log and t not in orig:
            i, tm = post_log[t]
        else:
            i, tm = last + 1, st["term"]
        return env.ovh_of(env.cmds.to_bytes(c), i, tm)
    js = L.state_json(st, ovh_entry, ovh_queue)
    op = case["op"]
    ent = lambda e: [L.with_ovh(e[0], ovh_entry(e)), e[1], e[2]]
    if op == "send":
        d = case["dst"]
        nx = dict((k, v) for k, v in st["next"])[d]
        return {"op": "send", "B": case["conf"]["batch"], "term": st["term"], "commit": st["commit"], "log": js["log"],
                "next": nx, "snap": case.get("snap", []), "budget": case.get("budget"), "drop": case.get("drop"),
                "match": dict((k, v) for k, v in st["match"]).get(d)}
    if op == "sendall":
        # iteration order of the real set union (only matters when a budget is shared between destinations)
        order = real["extra"].get("order", [])
        js["members"] = [d for d in order if d in st["members"]] + [d for d in st["members"] if d not in order]
    if op in ("sendall", "check"):
        return {"op": op, "conf": case["conf"], "state": js, "budget": case.get("budget")}
    if op == "submit":
        return {"op": op, "conf": case["conf"], "state": js, "cmd": L.with_ovh(case["cmd"], 1), "cb": case.get("cb")}
    if op == "recv_apply":
        return {"op": op, "conf": case["conf"], "state": js, "from": case["from"], "cmd": L.with_ovh(case["cmd"], 1),
                "req": case.get("req")}
    if op == "recv_response":
        return {"op": op, "state": js, "req": case["req"], "err": case.get("err"), "idx": case.get("idx", 0),
                "lterm": case.get("lterm", 0)}
    if op == "leader_changed":
        return {"op": op, "state": js}
    if op == "fappend":
        ln = {"op": op, "conf": case["conf"], "state": js, "from": case["from"], "prev": case.get("prev")}
        if case.get("chunk") is not None:
            ln["chunk"] = [case["chunk"][0], [[ent(e), p, n] for (e, p, n) in case["chunk"][1]]]
        else:
            ln["entries"] = [ent(e) for e in case.get("entries", [])]
        return ln
    if op == "frun":
        ms = []
        for fm in case["msgs"]:
            d = {"prev": fm.get("prev")}
            if fm.get("chunk") is not None:
                d["chunk"] = [fm["chunk"][0], [[ent(e), p_, n_] for (e, p_, n_) in fm["chunk"][1]]]
            else:
                d["entries"] = [ent(e) for e in fm.get("entries", [])]
            ms.append(d)
        return {"op": op, "conf": case["conf"], "state": js, "from": case["from"], "msgs": ms}
    if op == "restore":
        return {"op": op, "state": js, "prevE": ent(case["prevE"]), "lastE": ent(case["lastE"]),
                "cluster": case["cluster"], "dyn": case["conf"]["dyn"]}
    if op == "reapply":
        return {"op": op, "state": js, "entry": ent(case["entry"])}
    if op == "appendmsg":
        k = case["kind"]
        if "regular" in k:
            r = k["regular"]
            kk = {"prev": r.get("prev")}
            if r.get("chunk") is not None:
                kk["chunk"] = [r["chunk"][0], [[ent(e), p_, n_] for (e, p_, n_) in r["chunk"][1]]]
            else:
                kk["entries"] = [ent(e) for e in r.get("entries", [])]
            kj = {"regular": kk}
        else:
            sn = k["snap"]
            kj = {"snap": sn if (sn is None or isinstance(sn, str)) else
                  {"prevE": ent(sn["prevE"]), "lastE": ent(sn["lastE"]), "cluster": sn["cluster"],
                   "storeFails": bool(sn.get("storeFails"))}}
        return {"op": op, "conf": case["conf"], "state": js, "extra": case["extra"], "from": case["from"],
                "term": case["term"], "commit": case["commit"], "kind": kj}
    if op == "restartnode":
        js["log"] = [ent(e) for e in real["extra"].get("pre_log", st["log"])]
        de = real["extra"].get("dump")
        sc = case.get("storedCommit")
        return {"op": op, "state": js, "extra": case["extra"], "storedCommit": 1 if sc is None else sc,
                "dump": None if de is None else {"prevE": ent(de[0]), "lastE": ent(de[1])}}
    if op == "journalfold":
        return {"op": op, "state": js, "dyn": case["conf"]["dyn"]}
    if op == "capture":
        return {"op": op, "state": js}
    raise ValueError(op)


STATE_KEYS = ("self", "role", "term", "leader", "log", "commit", "lastApplied", "members", "readonly", "connected",
              "next", "match", "queue", "waitCommit", "waitReply", "counter", "noop", "change")


def compare(env, case, real, model):
    """returns None or a short description of the first difference"""
    op = case["op"]
    if "error" in model:
        return "driver rejected the case: %s" % model["error"]
    merr = model.get("err")
    rerr = err_class(real["err"])
    if merr == "Unpickle" and rerr is not None:
        rerr = "Unpickle"       # pickle.loads of a damaged string raises whatever the garbage opcodes lead to
    if merr != rerr:
        return "exception: model %s, impl %s (%s)" % (merr, rerr, real["extra"].get("exc"))
    if real["out"]["notes"]:
        return real["out"]["notes"][0]
    if op == "send":
        d = str(case["dst"])
        rm = L.strip_cmd(real["out"]["sends"].get(d, []))
        if merr is not None:
            return None
        mm = L.strip_cmd(model["msgs"])
        if model["spin"]:
            if not real["extra"].get("safety"):
                return "model predicts a spinning loop, impl terminated by itself"
            if rm[:len(mm)] != mm:
                return "spinning loop: impl messages do not start with the model's"
            return None
        if real["extra"].get("safety"):
            return "impl loop spun until the safety clock, model terminates"
        if rm != mm:
            for i, (a, b) in enumerate(zip(rm, mm)):
                if a != b:
                    return "message %d: impl %s model %s" % (i, L.jdump(a)[:300], L.jdump(b)[:300])
            return "message count: impl %d model %d" % (len(rm), len(mm))
        rn = dict((k, v) for k, v in real["state"]["next"]).get(case["dst"])
        if case["dst"] in case["state"]["readonly"] and case["dst"] not in real["state"]["connected"]:
            if rn is not None:
                return "a dropped read-only node still has a next index"
            return None
        if rn != model["next"]:
            return "nextIndex: impl %s model %s" % (rn, model["next"])
        return None
    if op == "restartnode" and merr is None and model.get("extra") != real["extra"].get("x"):
        return "votedFor/votes after the restart: impl %s model %s" % (real["extra"].get("x"), model.get("extra"))
    if op == "appendmsg":
        if model.get("extra") != real["extra"].get("x"):
            return "votedFor/votes: impl %s model %s" % (real["extra"].get("x"), model.get("extra"))
        ro = dict(real["extra"]["obs"])
        ro.pop("ncalls", None)
        if model.get("obs") != ro:
            return "side observations (deadline re-armed, stored term/vote, stored commit): impl %s model %s" % (ro, model.get("obs"))
    if merr is not None and op not in ("fappend", "appendmsg", "frun"):
        return None
    if op == "capture":
        if real["extra"].get("cluster") != model.get("cluster"):
            return "dump cluster: impl %s model %s" % (real["extra"].get("cluster"), model.get("cluster"))
        return None
    if "out" in model:
        mo = L.strip_cmd(L.canon_model_out(model["out"]))
        ro = L.strip_cmd(dict(real["out"]))
        for k in ("sends", "cbs", "reg"):
            if mo[k] != ro[k]:
                return "outputs[%s]: impl %s model %s" % (k, L.jdump(ro[k])[:400], L.jdump(mo[k])[:400])
    ms = L.strip_cmd(model["state"])
    rs = real["state"]
    for k in STATE_KEYS:
        if k == "counter" and op == "restartnode":
            continue        # __commandsLocalCounter of a new object starts at a value drawn per process start (not node state)
        if ms[k] != rs[k]:
            return "state[%s]: impl %s model %s" % (k, L.jdump(rs[k])[:300], L.jdump(ms[k])[:300])
    mb = model["state"]["buf"]
    exp = None if mb is None else env.spans_bytes([[L.strip_cmd(e), p, n] for (e, p, n) in mb])
    if exp != rs["bufraw"]:
        return "receive buffer: impl %s bytes, model %s bytes" % (None if rs["bufraw"] is None else len(rs["bufraw"]),
                                                                   None if exp is None else len(exp))
    return None


# --------------------------------------------------------------------------------------------------
# monitors on the real observations (property statements, not the model)
# --------------------------------------------------------------------------------------------------
def wellformed_send(case):
    st = case["state"]
    if not st["log"]:
        return False
    idxs = [e[1] for e in st["log"]]
    if idxs != list(range(idxs[0], idxs[0] + len(idxs))):
        return False
    nx = dict((k, v) for k, v in st["next"]).get(case["dst"])
    mi = dict((k, v) for k, v in st["match"]).get(case["dst"])        # a leader holds both dict entries for a destination
    return nx is not None and mi is not None and idxs[0] < nx <= idxs[-1] + 1


def monitors(env, case, real):
    v = []
    op = case["op"]
    st = case["state"]
    out = real["out"]
    # C02: one callback id at most once
    ids = [c[0] for c in out["cbs"]]
    if len(ids) != len(set(ids)):
        v.append({"signature": SIG_CB2, "what": "callbacks %s fired in one %s" % (out["cbs"], op)})
    if op == "send" and wellformed_send(case) and real["err"] is not None:
        # C11: no exception while sending - also when the clock cuts the run or the destination is lost in the middle
        v.append({"signature": SIG_EXC + ":" + real["err"],
                  "what": "sendAppendEntries raised %s on a well-formed state (budget %s, destination lost at send %s, %s destination)"
                          % (real["extra"].get("exc"), case.get("budget"), case.get("drop"),
                             "read-only" if case["dst"] in st["readonly"] else "voting")})
        return v
    if op == "send" and wellformed_send(case) and case.get("budget") is None and case.get("drop") is None:
        if real["err"] is not None:
            v.append({"signature": SIG_EXC + ":" + real["err"], "what": "sendAppendEntries raised %s on a well-formed state" % real["extra"].get("exc")})
            return v
        msgs = out["sends"].get(str(case["dst"]), [])
        carried = []
        burst = None
        for m in msgs:
            if m["t"] == "append":
                if burst is not None:
                    v.append({"signature": SIG_CHUNK, "what": "regular message inside an unfinished chunk burst"})
                carried += [e[1] for e in m["entries"]]
            elif m["t"] == "chunk":
                if m["label"] == "start":
                    if burst is not None:
                        v.append({"signature": SIG_CHUNK, "what": "start inside an unfinished burst (idx %s)" % burst[0]})
                    burst = [m["idx"], m["len"]]
                elif burst is None:
                    v.append({"signature": SIG_CHUNK, "what": "chunk '%s' of entry %s without a preceding start (premature finish before it)" % (m["label"], m["idx"])})
                    burst = [m["idx"], m["len"]]
                else:
                    burst[1] += m["len"]
                if m["label"] == "finish" and burst is not None:
                    full = real["plen"].get(burst[0], -1)
                    if burst[1] != full:
                        v.append({"signature": SIG_CHUNK, "what": "finish after %d of %d bytes of pickled entry %d (batch %d)" % (burst[1], full, burst[0], case["conf"]["batch"])})
                    carried.append(burst[0])
                    burst = None
        if burst is not None:
            v.append({"signature": SIG_CHUNK, "what": "burst of entry %s never finished" % burst[0]})
        nx = dict((k, v2) for k, v2 in st["next"])[case["dst"]]
        want = [e[1] for e in st["log"] if e[1] >= nx]
        mi = dict((k, v2) for k, v2 in st["match"]).get(case["dst"])
        # C11: what one run carries is a gap-free, duplicate-free prefix of the log suffix from nextIndex, non-empty
        # when there is something to send (repair D62 sends ONE batch to a destination that has not confirmed the
        # preceding entry; the rest follows in later runs - how much one run carries is compared with the model only)
        if carried != want[:len(carried)] or (want and not carried):
            v.append({"signature": SIG_PART, "what": "entries carried %s, log suffix %s, matchIndex %s nextIndex %s"
                                                     % (carried[:20], want[:20], mi, nx)})
    if op == "check":
        pre = [tuple(e[0]) for e in st["log"]]
        post = [tuple(e[0]) for e in real["state"]["log"]]
        appended = post[len(pre):]
        failed = set()
        for (cid, code) in out["cbs"]:
            if code in (1, 2, 4, 6):
                for (c, cb) in st["queue"]:
                    if cb is not None and cb[0] == "loc" and cb[1] == cid:
                        failed.add(tuple(c))
        for d, ms in out["sends"].items():
            for m in ms:
                if m["t"] == "response" and m.get("err") in (1, 2, 4, 6):
                    for (c, cb) in st["queue"]:
                        if cb is not None and cb[0] == "rem" and cb[1] == int(d) and cb[2] == m["req"]:
                            failed.add(tuple(c))
        multi = collections.Counter(tuple(c) for (c, _) in st["queue"])
        fwd = set()
        for d, ms in out["sends"].items():
            for m in ms:
                if m["t"] == "apply_command":
                    fwd.add(tuple(m["cmd"]))
        for c in failed:
            if multi[c] == 1 and (c in appended or c in fwd):
                v.append({"signature": SIG_FAILAPP, "what": "command %s reported as definitely failed but appended/forwarded" % (c,)})
        # C10 gate
        if case["conf"]["dyn"] and st["role"] == 2:
            mem_new = [c for c in appended if c[0] in ("add", "rem", "memother")]
            if mem_new:
                closed = st["noop"] is not None and st["lastApplied"] < st["noop"]
                pending = st["change"] is not None and st["lastApplied"] < st["change"]
                if closed or pending or len(mem_new) > 1:
                    v.append({"signature": SIG_GATE, "what": "leader appended %s with lastApplied %s noop %s pending change %s" % (mem_new, st["lastApplied"], st["noop"], st["change"])})
    return v


# --------------------------------------------------------------------------------------------------
# generators
# --------------------------------------------------------------------------------------------------
class Gen(object):
    def __init__(self, env, rng):
        self.env, self.rng = env, rng
        self.salt = 0

    def cmd(self, kind="reg", node=0, size=None, hi=False):
        self.salt += 1
        return self.env.cmds.make(kind, node, size, salt=self.salt, hi=hi)

    def log(self, first, sizes, terms=None, kinds=None):
        out = []
        for i, sz in enumerate(sizes):
            k = kinds[i] if kinds else ("noop" if (i == 0 and first == 1) else "reg")
            if isinstance(k, tuple):
                c = self.cmd(k[0], k[1])
            else:
                c = self.cmd(k, size=sz, hi=(self.rng.random() < 0.15))
            out.append([c, first + i, terms[i] if terms else 1])
        return out

    # ---------------------------------------------------------------- send
    def send_case(self, B, log, nxt, snap=(), budget=None, drop=None, term=None, commit=None, match="confirmed",
                  readonly=False):
        """match: "confirmed" = the destination has confirmed the entry before nextIndex (pipelined run);
        an int = that matchIndex; None = no matchIndex key for the destination"""
        last = log[-1][1] if log else 0
        if match == "confirmed":
            match = max(nxt - 1, 0)
        st = blank_state(role=2, leader=0, term=term if term is not None else (max([e[2] for e in log] + [1])),
                         log=log, commit=commit if commit is not None else (log[0][1] if log else 1),
                         members=([] if readonly else [1]), readonly=([1] if readonly else []), connected=[1],
                         next=[[1, nxt]], match=([] if match is None else [[1, match]]), noop=last)
        return {"op": "send", "conf": conf(batch=B), "state": st, "dst": 1, "snap": list(snap), "budget": budget, "drop": drop}

    def sys_send(self, tier_scale):
        cases = []
        # chunk band: a single over-sized entry of size k*B + d (relative to the command AND to the pickled entry)
        for B in (1, 2, 3, 7, 64, 1000):
            ds = range(-64, 65) if B in (64, 1000) else range(-6, 7)
            for k in (1, 2, 3, 4):
                for d in ds:
                    for rel in (0, 54, 55, 56):
                        sz = k * B + d - rel
                        if sz < 1 or sz > 5000:
                            continue
                        if B == 1000 and (abs(d) > 8 and d % tier_scale):
                            continue
                        log = self.log(1, [1, sz])
                        cases.append(self.send_case(B, log, 2))
        # batching boundaries: cumulative sizes at / around B
        for B in (10, 100):
            for a in (B - 1, B, B + 1, 1, B // 2):
                for b in (B - a - 1, B - a, B - a + 1, B, 1):
                    if a < 1 or b < 1:
                        continue
                    log = self.log(1, [1, a, b, 3, B, B - 1, 2])
                    for nxt in (1, 2, 3, 4, 7, 8, 9, 12):
                        cases.append(self.send_case(B, log, nxt))
        # nextIndex against first / last index, compacted logs, snapshot answers, budgets, drops
        for first in (1, 5, 300):
            log = self.log(first, [3, 40, 120, 7, 99, 100, 101, 5])
            last = log[-1][1]
            for nxt in (max(first - 1, 0), first, first + 1, first + 2, last - 1, last, last + 1, last + 2, last + 7):
                for snap in ((), (None,), (True,), (False, False, True), (False, None), (False, False)):
                    if nxt > first and snap:
                        continue
                    for budget in (None, 1, 2, 3):
                        for drop in (None, 1, 2, 4):
                            if budget is not None and drop is not None:
                                continue
                            cases.append(self.send_case(100, log, nxt, snap, budget, drop))
        # repair D62: matchIndex against prevLogIdx = nextIndex - 1 (probe with one batch unless confirmed)
        for first in (1, 5):
            log = self.log(first, [3, 40, 120, 7, 99, 100, 101, 5])
            last = log[-1][1]
            for nxt in (first, first + 1, first + 2, last, last + 1, last + 2, last + 7):
                for m in (nxt - 2, nxt - 1, nxt, 0, None):
                    if m is not None and m < 0:
                        continue
                    for snap in ((), (True,), (False, True)):
                        if nxt > first and snap:
                            continue
                        for budget, drop in ((None, None), (1, None), (None, 1), (None, 2)):
                            cases.append(self.send_case(100, log, nxt, snap, budget, drop, match=m))
        # repair D65: the destination is lost in the middle of a chunk burst (drop at chunk 1..n and just after), for
        # a voter and for a READ-ONLY node (whose next / match index disappear with the connection), probing or not
        for ro in (False, True):
            for sizes in ([1, 330], [1, 330, 5, 250], [1, 20, 330, 7]):
                log = self.log(1, sizes)
                for nxt in (2, 3):
                    for m in ("confirmed", 0):
                        for drop in (1, 2, 3, 4, 5, 6, 7, 9):
                            cases.append(self.send_case(100, log, nxt, (), None, drop, match=m, readonly=ro))
        # partial operations: empty log, one-entry log with a final snapshot chunk, holes (malformed stream)
        cases.append(self.send_case(100, [], 1))
        one = self.log(1, [1])
        cases.append(self.send_case(100, one, 1, (True,)))
        cases.append(self.send_case(100, one, 1, (False, True)))
        cases.append(self.send_case(100, one, 2))
        return cases

    def rnd_send(self):
        r = self.rng
        B = r.choice([1, 2, 5, 16, 64, 100, 255, 256, 1000, 4096, 65536])
        first = r.choice([1, 1, 2, 9, 250, 70000])
        n = r.randint(1, 9)
        sizes = []
        for _ in range(n):
            mode = r.random()
            if mode < 0.35:
                sizes.append(max(1, r.choice([1, 2, 3, 4]) * B + r.randint(-64, 64) - r.choice([0, 54, 55])))
            elif mode < 0.6:
                sizes.append(max(1, B + r.randint(-2, 2)))
            else:
                sizes.append(r.randint(1, max(2, min(3 * B, 3000))))
        sizes = [min(s, 300000) for s in sizes]
        if sum(sizes) > 600000:
            sizes = sizes[:2]
        log = self.log(first, sizes, terms=sorted(r.randint(0, 3) for _ in sizes))
        last = log[-1][1]
        nxt = r.choice([first + 1, first + 1, r.randint(first, last + 1), last + 1, last, max(first - 1, 0), last + 2])
        snap = ()
        if nxt <= first:
            snap = r.choice([(), (None,), (True,), (False, True), (False, False, False, True), (False, None)])
        budget = r.choice([None, None, None, 1, 2, 3, 5])
        drop = r.choice([None, None, None, 1, 2, 3, 6]) if budget is None else None
        m = r.choice(["confirmed", "confirmed", "confirmed", max(nxt - 2, 0), nxt, 0, last, None if r.random() < 0.2 else 0])
        return self.send_case(B, log, nxt, snap, budget, drop, commit=r.randint(first, last), match=m)

    # ---------------------------------------------------------------- sendall
    def sys_sendall(self):
        cases = []
        log = self.log(1, [1, 30, 100, 7, 250])
        for (members, ro, conn, nx, budget) in (
                ([1, 2], [], [1, 2], [[1, 2], [2, 6]], None),
                ([1, 2], [5], [1, 5], [[1, 3], [2, 2], [5, 7]], None),
                ([1, 2, 3], [], [1, 2, 3], [[1, 2], [2, 4], [3, 6]], 2),
                ([1, 2], [], [1, 2], [[1, 2]], None),            # KeyError: no nextIndex for a connected member
                ([], [], [], [], None)):
            st = blank_state(role=2, leader=0, term=2, log=log, commit=1, members=members, readonly=ro, connected=conn,
                             next=nx, match=[[d, (n - 1 if d != 2 else 0)] for d, n in nx], noop=5)
            cases.append({"op": "sendall", "conf": conf(batch=100), "state": st, "budget": budget})
        return cases

    def rnd_sendall(self):
        r = self.rng
        B = r.choice([5, 50, 100, 1000])
        first = r.choice([1, 4])
        sizes = [r.choice([1, B - 1, B, B + 1, 2 * B + 3, r.randint(1, 2 * B)]) for _ in range(r.randint(1, 6))]
        sizes = [max(1, s) for s in sizes]
        log = self.log(first, sizes)
        last = log[-1][1]
        members = r.sample([1, 2, 3, 4], r.randint(0, 3))
        ro = r.sample([5, 6], r.randint(0, 2))
        if r.random() < 0.2 and members:
            ro.append(members[0])
        conn = [d for d in members + ro if r.random() < 0.75]
        nx = [[d, r.randint(first + 1, last + 2)] for d in set(members + ro)]
        if r.random() < 0.08 and nx:
            nx.pop()                      # KeyError path (malformed stream)
        st = blank_state(role=2, leader=0, term=2, log=log, commit=first, members=members, readonly=sorted(set(ro)),
                         connected=sorted(set(conn)), next=nx,
                         match=[[d, r.choice([n - 1, n - 1, 0, n, max(n - 2, 0)])] for d, n in nx], noop=last)
        return {"op": "sendall", "conf": conf(batch=B), "state": st, "budget": None if ro else r.choice([None, None, 1, 2, 4])}

    # ---------------------------------------------------------------- queue
    def queue_items(self, n, dyn_pool, with_big=None):
        r = self.rng
        items = []
        for i in range(n):
            kr = r.random()
            if kr < 0.45:
                c = self.cmd("reg", size=(with_big if (with_big and r.random() < 0.4) else r.randint(1, 60)))
            elif kr < 0.5:
                c = self.cmd("noop", size=1)
            elif kr < 0.55:
                c = self.cmd("ver", node=r.randint(0, 3))
            elif kr < 0.75:
                c = self.cmd("add", node=r.choice(dyn_pool))
            elif kr < 0.95:
                c = self.cmd("rem", node=r.choice(dyn_pool))
            else:
                c = self.cmd("memother", node=r.choice(dyn_pool))
            cbk = r.random()
            if cbk < 0.2:
                cb = None
            elif cbk < 0.65:
                self.salt += 1
                cb = ["loc", 1000 + self.salt]
            else:
                self.salt += 1
                cb = ["rem", r.choice([1, 2, 7]), 2000 + self.salt]
            items.append([c, cb])
        return items

    def check_case(self, role, leader, queue, dyn, wait, use_batch, la, noop, change, members, budget=None, B=100,
                   self_id=0, log=None, connected=None):
        log = log if log is not None else self.log(1, [1, 10, 20, 5])
        last = log[-1][1] if log else 0
        conn = connected if connected is not None else list(members)
        st = blank_state(self=self_id, role=role, leader=leader, term=3, log=log, commit=la, lastApplied=la, members=members,
                         connected=conn, next=[[d, last + 1] for d in members],
                         match=[[d, (last if d % 2 else 0)] for d in members],
                         queue=queue, noop=noop, change=change, counter=self.rng.randint(0, 5),
                         waitCommit=[[2, 1, 900]] if self.rng.random() < 0.3 else [],
                         waitReply=[[1, 901]] if self.rng.random() < 0.3 else [])
        return {"op": "check", "conf": conf(batch=B, dyn=dyn, waitLeader=wait, useBatch=use_batch), "state": st, "budget": budget}

    def sys_check(self):
        cases = []
        mk = self.cmd
        # the six dispatch branches x callback kinds
        for role, leader in ((2, 0), (0, 1), (0, None), (1, None), (0, 0), (2, None)):
            for wait in (True, False):
                for cb in (None, ["loc", 77], ["rem", 2, 9]):
                    for use_batch in (True, False):
                        q = [[mk("reg", size=12), cb], [mk("reg", size=7), ["loc", 78]]]
                        cases.append(self.check_case(role, leader, q, False, wait, use_batch, 4, 4, None, [1, 2]))
        # membership gate: lastApplied vs noopIDx vs changeClusterIDx, effective / ineffective requests, self
        for la, noop in ((4, 3), (4, 4), (4, 5), (3, 4)):
            for change in (None, la - 1, la, la + 1):
                for (kind, node) in (("add", 3), ("add", 1), ("add", 0), ("rem", 1), ("rem", 3), ("rem", 0), ("memother", 1)):
                    for cb in (["loc", 55], ["rem", 2, 4], None):
                        for use_batch in (True, False):
                            q = [[mk(kind, node), cb]]
                            cases.append(self.check_case(2, 0, q, True, True, use_batch, la, noop, change, [1, 2]))
        # two membership requests in one drain (back to back): the second must be refused
        for a, b in ((("add", 3), ("add", 4)), (("add", 3), ("rem", 3)), (("rem", 1), ("rem", 2)), (("add", 1), ("add", 3))):
            q = [[mk(*a), ["loc", 60]], [mk("reg", size=5), ["loc", 61]], [mk(*b), ["loc", 62]]]
            cases.append(self.check_case(2, 0, q, True, True, True, 4, 4, None, [1, 2]))
            cases.append(self.check_case(2, 0, q, False, True, True, 4, 4, None, [1, 2]))   # gate off: dynamicMembershipChange False
        # leader without noopIDx (malformed), empty log (malformed)
        cases.append(self.check_case(2, 0, [[mk("add", 3), ["loc", 63]]], True, True, True, 4, None, None, [1, 2]))
        cases.append(self.check_case(2, 0, [[mk("reg", size=3), ["loc", 64]]], False, True, True, 1, 1, None, [1, 2], log=[]))
        # budgets
        for b in (0, 1, 2, 3):
            q = [[mk("reg", size=4), ["loc", 70 + i]] for i in range(3)]
            cases.append(self.check_case(2, 0, q, False, True, True, 4, 4, None, [1, 2], budget=b))
        # unbatched mode with over-sized commands (chunked immediately)
        for sz in (99, 100, 101, 146, 200, 246, 247, 300):
            q = [[mk("reg", size=sz), ["loc", 80]], [mk("reg", size=3), None]]
            cases.append(self.check_case(2, 0, q, False, True, False, 4, 4, None, [1, 2], connected=[1]))
        return cases

    def rnd_check(self):
        r = self.rng
        role = r.choice([2, 2, 2, 0, 0, 1])
        leader = 0 if (role == 2 and r.random() < 0.9) else r.choice([None, 1, 2, 0])
        dyn = r.random() < 0.6
        members = r.sample([1, 2, 3, 4], r.randint(0, 3))
        la = r.randint(2, 5)
        log = self.log(1, [1] + [r.randint(1, 30) for _ in range(r.randint(la - 1, 6))])
        noop = r.choice([la - 1, la, la + 1, 2])
        change = r.choice([None, None, la - 1, la, la + 1])
        use_batch = r.random() < 0.6
        B = r.choice([20, 100, 1000])
        q = self.queue_items(r.randint(0, 5), [0, 1, 2, 3, 4, 5], with_big=(B + r.randint(-3, 60)) if not use_batch else None)
        conn = [d for d in members if r.random() < 0.7]
        return self.check_case(role, leader, q, dyn, r.random() < 0.7, use_batch, la, noop, change, members,
                               budget=r.choice([None, None, None, 0, 1, 2]), B=B, log=log, connected=conn,
                               self_id=r.choice([0, 0, 0, None]))

    # ---------------------------------------------------------------- submit / forwarded commands / responses
    def sys_small(self):
        cases = []
        mk = self.cmd
        for qmax in (0, 1, 3):
            for n in range(0, qmax + 3):
                for cb in (None, ["loc", 5], ["rem", 2, 8]):
                    q = [[mk("reg", size=3 + i), ["loc", 100 + i]] for i in range(n)]
                    st = blank_state(queue=q, log=self.log(1, [1]))
                    cases.append({"op": "submit", "conf": conf(queueMax=qmax), "state": st, "cmd": mk("reg", size=9), "cb": cb})
                    cases.append({"op": "recv_apply", "conf": conf(queueMax=qmax), "state": st, "from": 2,
                                  "cmd": mk("reg", size=9), "req": None if cb is None else 8})
        for la in (3, 4, 5):
            for wr in ([], [[7, 300]], [[6, 301], [7, 300], [2, 302]]):
                for err in (None, 1, 2, 4, 5, 6):
                    st = blank_state(lastApplied=la, commit=la, waitReply=wr, log=self.log(1, [1, 2, 3, 4, 5]),
                                     waitCommit=[[4, 1, 500]])
                    cases.append({"op": "recv_response", "conf": conf(), "state": st, "from": 1, "req": 7, "err": err,
                                  "idx": 4, "lterm": 2})
        for wr in ([], [[3, 30]], [[9, 31], [3, 30], [5, 32], [4, 33]]):
            st = blank_state(waitReply=wr, log=self.log(1, [1]), waitCommit=[[2, 1, 40]])
            cases.append({"op": "leader_changed", "conf": conf(), "state": st})
        return cases

    # ---------------------------------------------------------------- follower append
    def fappend_case(self, log, prev, entries=None, chunk=None, dyn=False, members=(1, 2), buf=None, term=None, self_id=0):
        last = log[-1][1] if log else 0
        st = blank_state(self=self_id, role=0, leader=1, term=term if term is not None else 5, log=log,
                         commit=log[0][1] if log else 1, lastApplied=log[0][1] if log else 1, members=list(members),
                         connected=[1], next=[[d, last + 1] for d in members], match=[[d, 0] for d in members], buf=buf)
        c = {"op": "fappend", "conf": conf(dyn=dyn), "state": st, "from": 1, "prev": prev}
        if chunk is not None:
            c["chunk"] = chunk
        else:
            c["entries"] = entries or []
        return c

    def sys_fappend(self):
        cases = []
        mk = self.cmd
        base_kinds = ["noop", "reg", ("add", 3), "reg", ("rem", 1), ("add", 4), "reg"]
        for first in (1, 6):
            log = self.log(first, [1, 5, 0, 6, 0, 0, 7], terms=[0, 1, 1, 2, 2, 3, 3], kinds=base_kinds)
            last = log[-1][1]
            for dyn in (True, False):
                members = (1, 2, 3, 4) if dyn else (1, 2)       # = initial {1,2} + add 3 - rem 1 + add 4 … injected freely
                members = (2, 3, 4) if dyn else (1, 2)
                # prev positions
                for pi in (None, first - 1, first, first + 2, last - 1, last, last + 1, last + 3):
                    if pi is not None and pi < 0:
                        continue
                    own = dict((e[1], e[2]) for e in log)
                    for pterm_ok in (True, False):
                        prev = None if pi is None else [pi, own.get(pi, 9) if pterm_ok else own.get(pi, 9) + 1]
                        # new entries: k matching entries followed by j diverging ones
                        for k in (0, 1, 3):
                            for j in (0, 1, 2):
                                es = []
                                if pi is not None:
                                    for x in range(k):
                                        i = pi + 1 + x
                                        if i in own:
                                            es.append([e for e in log if e[1] == i][0])
                                    nxt = pi + 1 + len(es)
                                    for y in range(j):
                                        kd = [("add", 5), "reg", ("rem", 2)][y % 3]
                                        c = mk(kd[0], kd[1]) if isinstance(kd, tuple) else mk("reg", size=4 + y)
                                        es.append([c, nxt + y, 4])
                                cases.append(self.fappend_case(log, prev, es, dyn=dyn, members=members))
        # chunk reassembly: complete bursts delivered chunk by chunk (state carried by injection), and broken ones
        log = self.log(1, [1, 9, 9])
        for B in (10, 64):
            for sz in (B, B + 1, 2 * B - 54, 2 * B - 55, 2 * B, 3 * B + 5):
                if sz < 1:
                    continue
                e = [mk("reg", size=sz), 4, 2]
                full = len(self.env.pickle.dumps(self.env.entry_real(e)))
                spans = [(p, min(B, full - p)) for p in range(0, full, B)]
                buf = None
                for i, (p, n) in enumerate(spans):
                    lab = "start" if i == 0 else ("finish" if i == len(spans) - 1 else "process")
                    cases.append(self.fappend_case(log, [3, 1], chunk=[lab, [[e, p, n]]], buf=buf))
                    buf = (buf or []) + [[e, p, n]]
                # premature finish (what D7 produced), finish/process without start, finish twice, wrong order
                cases.append(self.fappend_case(log, [3, 1], chunk=["finish", [[e, spans[1][0], spans[1][1]]]], buf=[[e, 0, B]] if len(spans) > 2 else None))
                cases.append(self.fappend_case(log, [3, 1], chunk=["process", [[e, spans[-1][0], spans[-1][1]]]], buf=None))
                cases.append(self.fappend_case(log, [3, 1], chunk=["finish", [[e, spans[-1][0], spans[-1][1]]]], buf=None))
                cases.append(self.fappend_case(log, [3, 1], chunk=["finish", [[e, 0, B]]], buf=[[e, spans[-1][0], spans[-1][1]]]))
                # complete pickle followed by trailing bytes
                cases.append(self.fappend_case(log, [3, 1], chunk=["finish", [[e, 0, 5]]], buf=[[e, 0, full]]))
                # complete burst on a log that conflicts / lacks prev
                cases.append(self.fappend_case(log, [2, 1], chunk=["finish", [[e, spans[-1][0], spans[-1][1]]]], buf=[[e, 0, spans[-1][0]]]))
                cases.append(self.fappend_case(log, [7, 1], chunk=["finish", [[e, spans[-1][0], spans[-1][1]]]], buf=[[e, 0, spans[-1][0]]]))
        # every chunk label x prevLogIdx (none / beyond the log / term mismatch / compacted / ok) x receive buffer
        # (initial '' / partial of this entry / partial of ANOTHER entry), alone ...
        for first in (1, 6):
            flog = self.log(first, [1, 9, 9], terms=[1, 1, 1])
            last = flog[-1][1]
            e = [mk("reg", size=25), last + 1, 2]
            other = [mk("reg", size=33), last + 1, 3]
            full = len(self.env.pickle.dumps(self.env.entry_real(e)))
            prevs = [("none", None), ("beyond", [last + 4, 1]), ("mismatch", [last, 7]), ("ok", [last, 1])]
            if first > 1:
                prevs.append(("compacted", [first - 2, 1]))
            bufs = [None, [[e, 0, 10]], [[other, 0, 12]], [[e, 0, full - 10]]]
            for (pn, prev) in prevs:
                for buf in bufs:
                    for lab, span in (("start", [e, 0, 10]), ("process", [e, 10, 10]), ("finish", [e, full - 10, 10]),
                                      ("finish", [e, 10, full - 10])):
                        cases.append(self.fappend_case(flog, prev, chunk=[lab, [span]], buf=buf))
                # ... and as whole bursts delivered in order (what the leader's chunk loop has already sent)
                B = 10
                spans = [(p, min(B, full - p)) for p in range(0, full, B)]
                burst = [{"prev": prev, "chunk": ["start" if i == 0 else ("finish" if i == len(spans) - 1 else "process"), [[e, p, n]]]}
                         for i, (p, n) in enumerate(spans)]
                for buf in bufs[:3]:
                    base = self.fappend_case(flog, prev, [], buf=buf)
                    cases.append({"op": "frun", "conf": base["conf"], "state": base["state"], "from": 1, "msgs": burst})
                    cases.append({"op": "frun", "conf": base["conf"], "state": base["state"], "from": 1,
                                  "msgs": burst + [{"prev": [last, 1], "entries": []}] + burst})
        cases.append(self.fappend_case([], [1, 0], []))
        return cases

    def rnd_fappend(self):
        r = self.rng
        first = r.choice([1, 1, 3, 40])
        n = r.randint(1, 7)
        pool = [0, 1, 2, 3, 4, 5]
        kinds = []
        for i in range(n):
            x = r.random()
            kinds.append(("add", r.choice(pool)) if x < 0.2 else ("rem", r.choice(pool)) if x < 0.4 else ("memother", 2) if x < 0.43 else "reg")
        terms = sorted(r.randint(0, 4) for _ in range(n))
        log = self.log(first, [r.randint(1, 12) for _ in range(n)], terms=terms, kinds=kinds)
        last = log[-1][1]
        own = dict((e[1], e) for e in log)
        pi = r.choice([first, r.randint(first, last), last, last + 1, max(first - 1, 0), None])
        prev = None
        if pi is not None:
            pt = own[pi][2] if pi in own else r.randint(0, 4)
            if r.random() < 0.12:
                pt += 1
            prev = [pi, pt]
        es = []
        if pi is not None:
            k = r.randint(0, 3)
            i = pi + 1
            while k > 0 and i in own:
                es.append(own[i])
                i += 1
                k -= 1
            for y in range(r.randint(0, 3)):
                x = r.random()
                c = self.cmd("add", r.choice(pool)) if x < 0.25 else self.cmd("rem", r.choice(pool)) if x < 0.5 else self.cmd("reg", size=r.randint(1, 9))
                tm = (own[i][2] if (i in own and r.random() < 0.3) else r.randint(3, 6))
                es.append([c, i, tm])
                i += 1
        members = r.sample([1, 2, 3, 4, 5], r.randint(0, 4))
        return self.fappend_case(log, prev, es, dyn=r.random() < 0.7, members=members, self_id=r.choice([0, 0, None]))

    # ---------------------------------------------------------------- the whole append_entries handler
    def env_case(self, st, kind, term, commit, src=1, extra=None, dyn=False):
        return {"op": "appendmsg", "conf": conf(dyn=dyn), "state": st, "from": src, "term": term, "commit": commit,
                "kind": kind, "extra": extra or {"votedFor": None, "votes": 0}}

    def env_state(self, log, role=0, leader=1, term=5, commit=None, la=None, members=(1, 2), wr=(), wc=(), buf=None):
        last = log[-1][1] if log else 0
        first = log[0][1] if log else 1
        return blank_state(role=role, leader=leader, term=term, log=log, commit=first if commit is None else commit,
                           lastApplied=first if la is None else la, members=list(members), connected=[1],
                           next=[[d, last + 1] for d in members], match=[[d, 0] for d in members],
                           waitReply=[list(x) for x in wr], waitCommit=[list(x) for x in wc], buf=buf,
                           noop=last if role == 2 else None)

    def sys_env(self):
        cases = []
        mk = self.cmd
        log = self.log(1, [1, 5, 6, 7], terms=[0, 1, 1, 2])
        new2 = [[mk("reg", size=4), 5, 5], [mk("reg", size=5), 6, 5]]
        kinds = [
            ("heartbeat", {"regular": {"prev": [4, 2], "entries": []}}, 4),
            ("append", {"regular": {"prev": [4, 2], "entries": new2}}, 6),
            ("conflict", {"regular": {"prev": [2, 1], "entries": [[mk("reg", size=9), 3, 4]]}}, 3),
            ("mismatch", {"regular": {"prev": [4, 3], "entries": new2}}, None),
            ("beyond", {"regular": {"prev": [9, 2], "entries": new2}}, None),
            ("noprev", {"regular": {"prev": None, "entries": []}}, None),
            ("snap-none", {"snap": None}, None),
            ("snap-notlast", {"snap": "notlast"}, None),
            ("snap-broken", {"snap": "broken"}, None),
        ]
        for (name, kind, last_new) in kinds:
            for term in (4, 5, 6):
                for role in (0, 1, 2):
                    for leader in (1, 2, None):
                        commits = [1] if last_new is None else [1, 2, last_new - 1, last_new, last_new + 1, 50]
                        for lc in commits:
                            for commit in (1, 3):
                                st = self.env_state(log, role=role, leader=leader, term=5, commit=commit, la=1,
                                                    wr=[(7, 300), (2, 301)] if leader != 1 or term == 4 else [(3, 302)])
                                x = {"votedFor": self.rng.choice([None, 0, 1, 2]), "votes": self.rng.randint(0, 3)}
                                cases.append(self.env_case(st, kind, term, lc, extra=x))
        # chunks through the envelope
        e = [mk("reg", size=30), 5, 5]
        full = len(self.env.pickle.dumps(self.env.entry_real(e)))
        for term in (4, 5, 6):
            for lc in (1, 5, 9):
                st = self.env_state(log, term=5)
                cases.append(self.env_case(st, {"regular": {"prev": [4, 2], "chunk": ["start", [[e, 0, 20]]]}}, term, lc))
                st = self.env_state(log, term=5, buf=[[e, 0, 20]])
                cases.append(self.env_case(st, {"regular": {"prev": [4, 2], "chunk": ["finish", [[e, 20, full - 20]]]}}, term, lc))
                cases.append(self.env_case(st, {"regular": {"prev": [4, 2], "chunk": ["finish", [[e, 20, 5]]]}}, term, lc))
                st = self.env_state(log, term=5, buf=None)
                cases.append(self.env_case(st, {"regular": {"prev": [4, 2], "chunk": ["process", [[e, 20, 5]]]}}, term, lc))
        # complete snapshots: installed / kept because applied / kept because the last entry is held / empty journal
        pe, le = [mk("reg", size=6), 8, 3], [mk("reg", size=7), 9, 3]
        held = [mk("reg", size=7), 4, 2]
        for dyn in (False, True):
            for (pE, lE, la) in ((pe, le, 1), (pe, le, 9), (pe, le, 12), ([mk("reg", size=3), 3, 1], log[3], 1),
                                 ([mk("reg", size=3), 3, 1], [held[0], 4, 7], 1)):
                for cluster in ([0, 1, 2], [0, 2, 3], [0]):
                    for term in (4, 5, 6):
                        for lc in (1, lE[1] - 1, lE[1], lE[1] + 3):
                            for wc in ((), ((3, 1, 400), (9, 3, 401), (9, 3, 402), (10, 3, 403), (2, 1, 404))):
                                st = self.env_state(log, term=5, la=la, commit=min(la, 4) if la <= 4 else 1, wc=wc,
                                                    leader=self.rng.choice([1, 2, None]), wr=[(4, 310)])
                                kind = {"snap": {"prevE": pE, "lastE": lE, "cluster": cluster}}
                                cases.append(self.env_case(st, kind, term, lc, dyn=dyn))
                                if lc == lE[1] and cluster == [0, 1, 2]:
                                    # repair D70: storing the received snapshot fails -> nothing is installed
                                    kind = {"snap": {"prevE": pE, "lastE": lE, "cluster": cluster, "storeFails": True}}
                                    cases.append(self.env_case(json.loads(json.dumps(st)), kind, term, lc, dyn=dyn))
        cases.append(self.env_case(self.env_state([], term=5), {"snap": {"prevE": pe, "lastE": le, "cluster": [0, 1]}}, 5, 3))
        cases.append(self.env_case(self.env_state([], term=5), {"regular": {"prev": [1, 0], "entries": []}}, 6, 3))
        return cases

    def rnd_env(self):
        r = self.rng
        base = self.rnd_fappend()
        st = base["state"]
        st["role"] = r.choice([0, 0, 1, 2])
        st["leader"] = r.choice([1, 1, 2, None])
        st["waitReply"] = [[r.randint(1, 9), 500 + i] for i in range(r.randint(0, 3))]
        st["waitReply"] = [list(x) for x in dict((k, v) for k, v in st["waitReply"]).items()]
        last = st["log"][-1][1]
        st["commit"] = r.randint(st["log"][0][1], last)
        kind = {"regular": {"prev": base["prev"], "entries": base.get("entries", [])}}
        x = {"votedFor": r.choice([None, 0, 1, 2]), "votes": r.randint(0, 3)}
        lastnew = (base["prev"][0] if base["prev"] else last) + len(base.get("entries", []))
        lc = r.choice([st["commit"] - 1, st["commit"], lastnew - 1, lastnew, lastnew + 1, last + 5])
        return self.env_case(st, kind, st["term"] + r.choice([-1, 0, 0, 1, 2]), max(lc, 0), extra=x, dyn=base["conf"]["dyn"])

    # ---------------------------------------------------------------- journal fold at start-up / dump cluster
    def mem_log(self, first, kinds, terms=None):
        out = []
        for i, k in enumerate(kinds):
            c = self.cmd(k[0], k[1]) if isinstance(k, tuple) else self.cmd(k, size=3 + i)
            out.append([c, first + i, terms[i] if terms else 1])
        return out

    def sys_start_capture(self):
        cases = []
        hist = ["noop", ("add", 3), "reg", ("rem", 1), ("add", 1), ("rem", 3), ("add", 0), ("rem", 0), ("memother", 2), ("add", 4)]
        for first in (1, 7):
            for n in range(1, len(hist) + 1):
                log = self.mem_log(first, hist[:n])
                for members in ([1, 2], [1, 2, 3], [2, 4], []):
                    for dyn in (True, False):
                        st = blank_state(members=members, log=log, lastApplied=first, commit=first, connected=[],
                                         next=[[d, first + n] for d in members], match=[[d, 0] for d in members])
                        cases.append({"op": "journalfold", "conf": conf(dyn=dyn), "state": st})
                    # dump cluster at every lastApplied that `__tryLogCompaction` accepts (two entries up to it)
                    for la in range(first + 1, first + n):
                        st = blank_state(members=members, log=log, lastApplied=la, commit=la, connected=[],
                                         next=[[d, first + n] for d in members], match=[[d, 0] for d in members])
                        cases.append({"op": "capture", "conf": conf(dyn=True), "state": st})
        cases.append({"op": "journalfold", "conf": conf(dyn=True), "state": blank_state(log=[])})
        return cases

    def rnd_start_capture(self):
        r = self.rng
        first = r.choice([1, 1, 5, 30])
        n = r.randint(2, 9)
        pool = [0, 1, 2, 3, 4, 5]
        kinds = []
        for i in range(n):
            x = r.random()
            kinds.append(("add", r.choice(pool)) if x < 0.3 else ("rem", r.choice(pool)) if x < 0.6 else ("memother", 2) if x < 0.63 else "reg")
        log = self.mem_log(first, kinds, terms=sorted(r.randint(0, 3) for _ in range(n)))
        members = r.sample([1, 2, 3, 4, 5], r.randint(0, 4))
        la = r.randint(first + 1, first + n - 1)
        st = blank_state(members=members, log=log, lastApplied=la, commit=la, connected=[],
                         next=[[d, first + n] for d in members], match=[[d, 0] for d in members])
        if r.random() < 0.5:
            return {"op": "capture", "conf": conf(dyn=True), "state": st}
        return {"op": "journalfold", "conf": conf(dyn=r.random() < 0.85), "state": st}

    # ---------------------------------------------------------------- snapshot restore / re-apply at commit
    def restart_case(self, log, role, term, voted, commit, la, stored, dump, trim=False, damage=None, dump_conf=False):
        leader = {0: 1, 1: None, 2: 0}[role]
        st = blank_state(role=role, term=term, leader=leader, log=log, commit=commit, lastApplied=la,
                         next=[[1, log[-1][1] + 1], [2, log[-1][1]]] if role == 2 else [],
                         match=[[1, log[-1][1]], [2, log[-1][1] - 1]] if role == 2 else [])
        c = {"op": "restartnode", "conf": conf(), "state": st, "extra": {"votedFor": voted, "votes": {0: 0, 1: 1, 2: 2}[role]},
             "storedCommit": stored, "dump": dump}
        if trim:
            c["trim"] = True
        if damage:
            c["damage"] = damage
        if dump_conf:
            c["dumpConfigured"] = True
        return c

    def sys_restart(self):
        """kill + start of a journaled node: roles x votes x dump positions x stored commit index (>= 150 cases)"""
        cases = []
        k = 0
        for first, n in ((1, 5), (1, 2), (4, 6)):
            log = self.log(first, [3 + (i % 3) for i in range(n)], terms=[min(i // 2, 3) + (0 if first == 1 else 2) for i in range(n)])
            last = log[-1][1]
            top = log[-1][2]
            dumps = [None] + sorted(set([first + 1, (first + last + 1) // 2, last]) - set([first]))
            for role in (0, 1, 2):
                for voted in ((None, 0, 1) if role == 0 else (0,)) if role != 2 else (0,):
                    for dump in dumps:
                        la_min = dump if dump is not None else 1
                        for (commit, stored) in ((last, None), (last, max(1, la_min - 1)), (last, last), (max(la_min, last - 1), la_min)):
                            k += 1
                            term = top + (k % 2)
                            cases.append(self.restart_case(log, role, term, voted, commit, max(la_min, min(commit, la_min + (k % 2))),
                                                           stored, dump, trim=(dump is not None and k % 3 == 0),
                                                           dump_conf=(dump is None and k % 2 == 0)))
            # journal and dump that do not belong together (the branch of __loadDumpFile that replaces the journal)
            for dmg in ("short", "term"):
                for dump in dumps[1:]:
                    cases.append(self.restart_case(log, 0, top, 1, last, dump, dump, dump, damage=dmg))
        return cases

    def rnd_restart(self):
        r = self.rng
        first = r.choice([1, 1, 2, 5])
        n = r.randint(2, 7)
        terms = sorted(r.randint(0, 4) for _ in range(n))
        log = self.log(first, [r.randint(1, 6) for _ in range(n)], terms=terms)
        last = log[-1][1]
        dump = None if r.random() < 0.3 else r.randint(first + 1, last)
        la = r.randint(dump or 1, last) if (dump or 1) <= last else last
        commit = r.randint(la, last)
        stored = r.choice([None, 1, commit, r.randint(1, commit)])
        role = r.choice([0, 0, 1, 2])
        voted = r.choice([None, 0, 1, 2]) if role == 0 else 0
        return self.restart_case(log, role, terms[-1] + r.randint(0, 2), voted, commit, la, stored, dump,
                                 trim=(dump is not None and r.random() < 0.4),
                                 damage=(r.choice(["short", "term"]) if dump is not None and r.random() < 0.15 else None),
                                 dump_conf=(dump is None and r.random() < 0.5))

    def sys_member_misc(self):
        cases = []
        mk = self.cmd
        log = self.log(1, [1, 4, 4])
        for members in ([1, 2], [1, 2, 3], []):
            for cluster in ([0, 1, 2], [0, 2, 3], [0], [0, 1, 2, 3, 4], [1, 2]):
                for dyn in (True, False):
                    st = blank_state(members=members, log=log, lastApplied=2, commit=2, connected=list(members),
                                     next=[[d, 4] for d in members], match=[[d, 0] for d in members])
                    pe = [mk("reg", size=6), 8, 3]
                    le = [mk(*(("add", 3) if len(cluster) % 2 else ("reg", 0))), 9, 3] if True else None
                    cases.append({"op": "restore", "conf": conf(dyn=dyn), "state": st, "prevE": pe, "lastE": le, "cluster": cluster})
            for (kind, node) in (("add", 3), ("add", 1), ("add", 0), ("rem", 1), ("rem", 3), ("rem", 0), ("memother", 1)):
                for role in (0, 2):
                    st = blank_state(role=role, leader=0 if role == 2 else 1, members=members, log=log, connected=list(members),
                                     next=[[d, 4] for d in members], match=[[d, 0] for d in members], noop=1)
                    cases.append({"op": "reapply", "conf": conf(dyn=True), "state": st, "entry": [mk(kind, node), 3, 1]})
        return cases


# --------------------------------------------------------------------------------------------------
def case_key(case):
    return hashlib.sha1(L.jdump(case).encode()).hexdigest()


def classify(case, real, model):
    """guard-outcome names hit by this case (for the coverage histogram / floors)"""
    tags = ["op:" + case["op"]]
    op = case["op"]
    if model.get("err"):
        tags.append("err:" + model["err"])
    if op == "send":
        for b in model.get("batches", []):
            tags.append("batch:" + b)
        if model.get("spin"):
            tags.append("send:spin")
        if case.get("budget") is not None:
            tags.append("send:budget")
        if case.get("drop") is not None:
            tags.append("send:drop")
            chunks = [m for m in model.get("msgs", []) if m["t"] == "chunk"]
            if chunks and chunks[-1]["label"] != "finish":
                tags.append("send:drop-inside-burst" + ("-readonly" if case["dst"] in case["state"]["readonly"] else ""))
        nxs = dict((k, v) for k, v in case["state"]["next"]).get(case["dst"])
        mi = dict((k, v) for k, v in case["state"]["match"]).get(case["dst"])
        reg = [b for b in model.get("batches", []) if b != "snapshot"]
        if reg:
            if mi is None:
                tags.append("probe:no-matchindex-key")
            elif mi < nxs - 1 and not any(b == "snapshot" for b in model.get("batches", [])):
                tags.append("probe:unconfirmed")
            elif mi == nxs - 1:
                tags.append("probe:confirmed-exactly")
            elif mi > nxs - 1:
                tags.append("probe:confirmed-beyond")
            if len(reg) > 1:
                tags.append("send:pipelined")
        for m in model.get("msgs", []):
            if m["t"] == "chunk":
                tags.append("chunk:" + m["label"])
    if op == "check":
        for b in model.get("branches", []):
            tags.append("dispatch:" + b)
        st = case["state"]
        if st["role"] == 2 and case["conf"]["dyn"] and st["noop"] is not None:
            for (c, cb) in st["queue"][:1]:
                if c[0] in ("add", "rem", "memother"):
                    if st["lastApplied"] < st["noop"]:
                        tags.append("gate:noop-unapplied")
                    elif st["change"] is not None and st["lastApplied"] < st["change"]:
                        tags.append("gate:change-pending")
                    elif st["change"] is not None:
                        tags.append("gate:change-cleared")
                    else:
                        tags.append("gate:open")
        if not case["conf"]["useBatch"]:
            tags.append("check:unbatched")
        if case.get("budget") is not None:
            tags.append("check:budget")
    if op in ("fappend", "frun") and "out" in model:
        for o in model["out"]:
            if o[0] == "send" and o[2]["t"] == "next":
                m = o[2]
                tags.append("fappend:" + ("success" if m["success"] else ("reset" if m["reset"] else "chunk-ack")))
        if len(model["state"]["log"]) < len(case["state"]["log"]):
            tags.append("fappend:truncated")
        if any(o[0] in ("addNode", "dropNode") for o in model["out"]):
            tags.append("fappend:membership-effect")
    if op == "appendmsg":
        st = case["state"]
        if case["term"] < st["term"]:
            tags.append("env:stale-term")
        else:
            tags.append("env:term-adopted" if case["term"] > st["term"] else "env:term-equal")
            tags.append("env:role-%d" % st["role"])
            tags.append("env:leader-same" if st["leader"] == case["from"] else ("env:leader-none" if st["leader"] is None else "env:leader-changed"))
            if st["leader"] != case["from"] and st["waitReply"]:
                tags.append("env:callbacks-leader-changed")
            if "state" in model and model["state"]["commit"] > st["commit"]:
                tags.append("env:commit-raised")
            elif (model.get("obs") or {}).get("commit") is not None:
                tags.append("env:commit-kept")
            k = case["kind"]
            if "snap" in k:
                sn = k["snap"]
                if sn is None or isinstance(sn, str):
                    tags.append("env:snap-%s" % (sn or "none"))
                elif "state" in model:
                    installed = [e[1] for e in model["state"]["log"]] == [sn["prevE"][1], sn["lastE"][1]] and model["state"]["lastApplied"] == sn["lastE"][1] and [e[1] for e in st["log"]] != [sn["prevE"][1], sn["lastE"][1]]
                    acked = any(o[0] == "send" and o[2]["t"] == "next" for o in model.get("out", []))
                    tags.append("env:snap-installed" if installed else ("env:snap-kept" if acked else "env:snap-load-failed"))
                    if sn.get("storeFails"):
                        tags.append("env:snap-store-fails-" + ("kept" if acked else "nothing-installed"))
                    if any(o[0] == "cb" for o in model.get("out", [])) and installed:
                        tags.append("env:snap-covered-callbacks")
            else:
                tags.append("env:regular")
    if op == "restartnode" and "state" in model:
        pre = real["extra"].get("pre_log") or []
        post = model["state"]["log"]
        tags.append("restart:role-%d" % case["state"]["role"])
        tags.append("restart:voted-" + ("none" if case["extra"]["votedFor"] is None else "set"))
        if case.get("dump") is None:
            tags.append("restart:no-dump" + ("-configured" if case.get("dumpConfigured") else ""))
        elif len(post) == 2 and [e[1] for e in pre[-2:]] != [e[1] for e in post]:
            tags.append("restart:dump-replaces-journal")
        elif len(post) < len(pre):
            tags.append("restart:dump-drops-head")
        else:
            tags.append("restart:dump-at-head")
        if case.get("dump") is not None and case["dump"] > model["state"]["commit"]:
            tags.append("restart:applied-ahead-of-commit")
        tags.append("restart:commit-" + ("never-stored" if case.get("storedCommit") is None else
                                         ("stale" if case["storedCommit"] < case["state"]["commit"] else "current")))
    if op in ("submit", "recv_apply") and model.get("out"):
        tags.append("queue:full")
    return tags


FLOORS = ["send:drop-inside-burst", "send:drop-inside-burst-readonly", "probe:unconfirmed", "probe:confirmed-exactly", "probe:confirmed-beyond", "send:pipelined", "op:send", "op:sendall", "op:check", "op:submit", "op:recv_apply", "op:recv_response", "op:leader_changed",
          "op:fappend", "op:frun", "op:restore", "op:reapply", "op:journalfold", "op:capture", "op:appendmsg", "op:restartnode", "restart:role-0", "restart:role-1", "restart:role-2",
          "restart:voted-none", "restart:voted-set", "restart:no-dump", "restart:dump-drops-head", "restart:dump-at-head",
          "restart:dump-replaces-journal", "restart:applied-ahead-of-commit", "restart:commit-never-stored", "restart:commit-stale", "env:stale-term", "env:term-adopted", "env:term-equal",
          "env:role-0", "env:role-1", "env:role-2", "env:leader-same", "env:leader-none", "env:leader-changed",
          "env:callbacks-leader-changed", "env:commit-raised", "env:commit-kept", "env:snap-none", "env:snap-notlast",
          "env:snap-broken", "env:snap-store-fails-kept", "env:snap-store-fails-nothing-installed", "env:snap-installed", "env:snap-kept", "env:snap-covered-callbacks", "env:regular", "batch:regular", "batch:chunked", "batch:heartbeat", "batch:snapshot",
          "chunk:start", "chunk:process", "chunk:finish", "send:spin", "send:budget", "send:drop",
          "dispatch:appendLocal", "dispatch:appendRemote", "dispatch:denied", "dispatch:forward", "dispatch:notLeader",
          "dispatch:missingLeader", "gate:noop-unapplied", "gate:change-pending", "gate:change-cleared", "gate:open",
          "check:unbatched", "check:budget", "fappend:success", "fappend:reset", "fappend:chunk-ack", "fappend:truncated",
          "fappend:membership-effect", "queue:full", "err:IndexError", "err:TypeError", "err:Unpickle", "err:AssertionError",
          "err:KeyError"]


def shrink(env, ctx, case, failing):
    """greedy structural shrinking; `failing(case)` re-runs the case on both sides"""
    cur = case
    tried = 0
    progress = True
    while progress and tried < 60:
        progress = False
        cands = []
        st = cur["state"]
        if st["queue"]:
            for i in range(len(st["queue"])):
                c = json.loads(json.dumps(cur))
                c["state"]["queue"].pop(i)
                cands.append(c)
        if cur["op"] == "fappend" and cur.get("entries"):
            c = json.loads(json.dumps(cur))
            c["entries"].pop()
            cands.append(c)
        if len(st["log"]) > 1:
            c = json.loads(json.dumps(cur))
            c["state"]["log"].pop()
            cands.append(c)
        for k in ("waitCommit", "waitReply", "readonly"):
            if st[k]:
                c = json.loads(json.dumps(cur))
                c["state"][k] = []
                cands.append(c)
        for c in cands:
            tried += 1
            try:
                if failing(c):
                    cur = c
                    progress = True
                    break
            except Exception:
                pass
    return cur


def run_cases(ctx, env, cases, cov, seen, budget_end):
    """run on the real code, then the driver in one batch; returns (n, disagreements, violations)"""
    reals, lines, kept = [], [], []
    for case in cases:
        if time.time() > budget_end:
            break
        try:
            real = run_real(env, case)
        except KeyError as e:        # a case the environment cannot express (e.g. unknown command)
            continue
        reals.append(real)
        lines.append(L.jdump(driver_line(env, case, real)))
        kept.append(case)
    outs = ctx.driver("nodesend", lines) if lines else []
    dis, viol = [], []
    for case, real, o in zip(kept, reals, outs):
        model = json.loads(o)
        seen.add(case_key(case))
        for t in classify(case, real, model):
            cov[t] += 1
        d = compare(env, case, real, model)
        for v in monitors(env, case, real):
            v["replay"] = {"case": case}
            viol.append(v)
        if d is not None:
            dis.append((case, d, real, model))
    return len(kept), dis, viol


def one_case_fails(ctx, env, case):
    real = run_real(env, case)
    o = ctx.driver("nodesend", [L.jdump(driver_line(env, case, real))])
    return compare(env, case, real, json.loads(o[0])) is not None


def load_corpus(ctx):
    d = os.path.join(ctx.verif, "corpus", "nodesend")
    out = []
    if os.path.isdir(d):
        for fn in sorted(os.listdir(d)):
            if fn.endswith(".json"):
                try:
                    x = json.load(open(os.path.join(d, fn)))
                    out += x if isinstance(x, list) else [x]
                except Exception:
                    pass
    return out


def build_cases(env, gen, ctx):
    n_rnd = ctx.scale(1800, 60000)
    cases = []
    cases += gen.sys_sendall()
    cases += gen.sys_check()
    cases += gen.sys_small()
    cases += gen.sys_fappend()
    cases += gen.sys_member_misc()
    cases += gen.sys_start_capture()
    cases += gen.sys_env()
    cases += gen.sys_restart()
    cases += [gen.rnd_restart() for _ in range(ctx.scale(40, 400))]
    cases += gen.sys_send(ctx.scale(8, 1))
    for i in range(n_rnd):
        x = i % 10
        if i % 23 == 0:
            cases.append(gen.rnd_start_capture())
        elif i % 7 == 0:
            cases.append(gen.rnd_env())
        elif x < 4:
            cases.append(gen.rnd_send())
        elif x < 5:
            cases.append(gen.rnd_sendall())
        elif x < 8:
            cases.append(gen.rnd_check())
        else:
            cases.append(gen.rnd_fappend())
    return cases


def run(ctx):
    t0 = time.time()
    env = L.Env(ctx.repo, seed=ctx.seed)
    env.scratch = ctx.tmpdir()           # journal / dump files of op `restartnode`
    gen = Gen(env, ctx.rng("nodesend.handlers"))
    cov = collections.Counter()
    seen = set()
    budget_end = t0 + ctx.budget_s * (0.8 if ctx.tier == "quick" else 0.9)
    total = 0
    dis_all, viol_all = [], []
    # corpus first (commands are rebuilt from their abstract form: register them)
    corpus = load_corpus(ctx)
    for c in corpus:
        reg_case(env, c)
    cases = corpus + build_cases(env, gen, ctx)
    CH = 1500
    n_rnd = ctx.scale(1800, 60000)
    n_sys = len(cases) - n_rnd           # corpus + systematic enumerators: always run (they guarantee the floors)
    for i in range(0, len(cases), CH):
        if i >= n_sys and time.time() > budget_end:
            break
        n, dis, viol = run_cases(ctx, env, cases[i:i + CH], cov, seen, budget_end if i >= n_sys else float("inf"))
        total += n
        dis_all += dis
        viol_all += viol
        if len(dis_all) > 20:
            break
    disagreements = []
    for (case, d, real, model) in dis_all[:3]:
        small = shrink(env, ctx, case, lambda c: one_case_fails(ctx, env, c))
        real2 = run_real(env, small)
        o = json.loads(ctx.driver("nodesend", [L.jdump(driver_line(env, small, real2))])[0])
        disagreements.append({"input": small, "model": L.jdump(o)[:1500], "impl": L.jdump({"err": real2["err"], "out": real2["out"], "state": dict((k, real2["state"][k]) for k in STATE_KEYS)})[:1500],
                              "note": compare(env, small, real2, o) or d})
    # de-duplicate violations by signature
    vs, sigs = [], set()
    for v in viol_all:
        if v["signature"] not in sigs:
            sigs.add(v["signature"])
            vs.append(v)
    res = {"name": "corr.nodesend_handlers", "cases": total, "distinct": len(seen), "coverage": dict(sorted(cov.items())),
           "samples": [cases[len(corpus)] if len(cases) > len(corpus) else None], "disagreements": disagreements,
           "violations": vs[:5], "wall_s": round(time.time() - t0, 2)}
    missing = [f for f in FLOORS if cov[f] == 0]
    if missing and not disagreements and not vs:
        res["inconclusive"] = "coverage floor missed: " + ", ".join(missing[:8])
    return res


def reg_case(env, case):
    """make sure every CMD of a stored case is known to the command table (same bytes as when generated)"""
    def walk(x):
        if isinstance(x, list):
            if len(x) == 4 and isinstance(x[0], str) and x[0] in L.KINDS and all(isinstance(y, int) for y in x[1:]):
                k = tuple(x)
                if k not in env.cmds.by_key:
                    kind, node, cid, size = x
                    b = rebuild_bytes(env, kind, node, cid, size)
                    env.cmds.by_key[k] = b
                    env.cmds.by_bytes.setdefault(b, k)
                    env.cmds.next_id = max(env.cmds.next_id, cid + 1)
                return
            for y in x:
                walk(y)
        elif isinstance(x, dict):
            for y in x.values():
                walk(y)
    walk(case)


def rebuild_bytes(env, kind, node, cid, size):
    pk = env.pickle
    tb = bytes([L.TYPE_BYTE[kind]])
    if kind in ("add", "rem"):
        return tb + pk.dumps([kind, L.nid(node), env.Node(L.nid(node))])
    if kind == "memother":
        return tb + pk.dumps(["swap", L.nid(node), env.Node(L.nid(node))])
    if kind == "ver":
        return tb + pk.dumps(int(node))
    head = ("c%d:" % cid).encode()
    return tb + (head + b"xy" * (size // 2 + 1))[:size - 1]


def replay(ctx, violation):
    env = L.Env(ctx.repo, seed=ctx.seed)
    case = violation["replay"]["case"]
    reg_case(env, case)
    real = run_real(env, case)
    vs = monitors(env, case, real)
    return {"violated": bool(vs), "violations": vs[:3], "impl": {"err": real["err"], "out": real["out"]}}
