"""Correspondence `queue.model` (C19): the Lean model `PSO.Queue` against the REAL hand-over code.

Part A — `FastQueue` (real class, op sequences `put_nowait` / `get_nowait`, maxSize 0..3) vs
         `FastQueue.putNowait / getNowait` (driver op `fq`).
Part B — lock-step schedules: a REAL `SyncObj` (un-networked recording transport, `autoTick=False`) with
         REAL caller threads that call REAL `@replicated` / `@replicated_sync` methods.  The threads are
         stopped at three gates (before the call, at the entry of `_applyCommand`, inside
         `AsyncResult.event.wait`) so that the scheduler thread decides the interleaving: exactly the
         labels of `PSO.Queue.Sys.step` (`call t`, `timeout t`, `tick env`, `answer j err`, `rput …`).
         `tick` runs the real `_checkCommandsToApply` for ONE loop iteration (call-counting clock) or,
         as a "drain", to the end (frozen clock), on an injected node state (role / leader /
         `commandsWaitLeader` / a refusing `__changeCluster`).  `answer` plays the replication core: it
         takes a callback out of the real `commandsWaitingCommit` / `commandsWaitingReply` and invokes it.
         Compared: which labels were enabled, the global event order, queue contents, registered
         callbacks, `commandsLocalCounter`, thread positions.

Private attributes touched: `_SyncObj__{raftState, raftLeader, conf, commandsQueue, commandsWaitingCommit,
commandsWaitingReply, commandsLocalCounter (read only: its random start value is handed to the model as `counter0`), raftLog,
raftCurrentTerm, parseChangeClusterRequest, changeCluster}`, `_FastQueue__queue`, module attributes `syncobj.monotonicTime`, `syncobj.AsyncResult`.

Property monitors (against the property text, on the real observations only): every submitted call is
enqueued exactly once or gets QUEUE_FULL; never dequeued twice; FIFO; every callback at most once; a sync
call returns exactly what its own callback was answered with, or raises that reason, or 'Timeout'.
"""
import json
import pickle
import threading
import time

from harness.corr import queue_common as qc

PROPERTIES = ["C19"]
ORDER = 50


# ---------------------------------------------------------------------------------------------
# Part A: FastQueue
# ---------------------------------------------------------------------------------------------
def fq_cases(ctx, rng):
    cases = []
    for m in range(0, 4):                       # both sides of the capacity guard and of the empty guard
        cases.append((m, [["put", i] for i in range(m + 3)] + [["get"]] * (m + 4)))
        cases.append((m, [["get"], ["put", 1], ["get"], ["get"]]))
    for _ in range(ctx.scale(300, 6000)):
        m = rng.choice([0, 0, 1, 1, 2, 3, 5])
        ops = []
        for i in range(rng.randrange(1, 25)):
            ops.append(["put", rng.randrange(1000)] if rng.random() < 0.6 else ["get"])
        cases.append((m, ops))
    return cases


def fq_real(ctx, m, ops):
    from pysyncobj.fast_queue import FastQueue, Queue
    q = FastQueue(m)
    res = []
    for op in ops:
        if op[0] == "put":
            try:
                q.put_nowait(op[1])
                res.append("ok")
            except Queue.Full:
                res.append("full")
        else:
            try:
                res.append(q.get_nowait())
            except Queue.Empty:
                res.append("empty")
    return {"res": res, "items": list(q._FastQueue__queue)}


def fq_monitor(m, ops, real):
    """FIFO multiset: everything got = prefix of everything accepted, in order; nothing else."""
    acc = [op[1] for op, r in zip(ops, real["res"]) if op[0] == "put" and r == "ok"]
    got = [r for op, r in zip(ops, real["res"]) if op[0] == "get" and r != "empty"]
    if acc != got + real["items"]:
        return [{"signature": "fast_queue:not-fifo-or-lost-item",
                 "what": "accepted %r, delivered %r + left %r" % (acc, got, real["items"]),
                 "replay": {"kind": "fq", "max": m, "ops": ops}}]
    return []


# ---------------------------------------------------------------------------------------------
# Part B: lock-step schedules on the real SyncObj
# ---------------------------------------------------------------------------------------------
METHODS = {"m_r": ("r", None), "m_s": ("s", None), "m_st": ("s", 7)}


GATE_BOUND_S = 10.0       # REAL seconds a worker may take from one gate to the next (pure computation in between)
MAX_SUBMISSIONS = 3       # `_applyCommand` calls ONE wrapper call may make before the harness refuses more


class Stuck(RuntimeError):
    """a worker did not come back to a gate within the bound"""


class _Refused(BaseException):
    """raised into a wrapper call that keeps submitting the same command"""


class Worker(object):
    """A real caller thread, stopped at gates."""

    def __init__(self, rs, t, prog):
        self.rs, self.t, self.prog = rs, t, prog
        self.k = 0
        self.go = threading.Event()
        self.arrived = threading.Event()
        self.state = ("init", None)
        self.decision = None
        self.error = None
        self.thread = threading.Thread(target=self.body, daemon=True)

    def gate(self, kind, info=None):
        self.state = (kind, info)
        self.arrived.set()
        self.go.wait()
        self.go.clear()
        return self.decision

    def release(self, decision=None):
        self.decision = decision
        self.arrived.clear()
        self.go.set()
        if not self.arrived.wait(GATE_BOUND_S):
            self.stuck = True
            raise Stuck("worker %d (call %d) did not reach a gate within %.0f real seconds" % (self.t, self.k, GATE_BOUND_S))

    def body(self):
        rs = self.rs
        try:
            for k, (meth, args, kw) in enumerate(self.prog):
                self.k = k
                self.waited = False
                self.gate("g0")
                real_kw = {}
                for key, v in kw.items():
                    real_kw[key] = rs.make_user_cb(self.t, k) if (key == "callback" and v == "CB") else v
                try:
                    r = getattr(rs.o, meth)(*args, **real_kw)
                    out = ["value", r]
                except rs.so.SyncObjException as e:
                    out = ["timeout"] if e.errorCode == "Timeout" else ["raised", e.errorCode]
                if self.waited:
                    rs.log.append(["ret", self.t, k, out])
            self.k = len(self.prog)
        except BaseException as e:   # noqa
            import traceback
            self.error = traceback.format_exc()[-1500:]
        self.state = ("done", None)
        self.arrived.set()


class RealSys(object):
    def __init__(self, so, max_size, progs, use_batch):
        from pysyncobj import SyncObjConf
        self.so = so
        self.log = []
        self.workers = {}
        self.by_ident = {}
        self.entry_ids = {}          # id(queue tuple) -> (cmdref json, tuple kept alive)
        self.cb_ids = {}             # id(callback function) -> ["user", t, k]
        rs = self
        RecTransport = qc.make_transport_class(so)

        class Tr(RecTransport):
            def send(self, node, message):
                if message.get("type") == "apply_command_response":
                    if "error" in message:
                        body = ["err", message["error"]]
                    else:
                        body = ["ok", message["log_idx"], message["log_term"]]
                    rs.log.append(["sent", rs.node_no(node), message["request_id"], body])
                elif message.get("type") == "apply_command":
                    rs.forwards.append((node, message))
                return True

        class Ev(object):
            def __init__(self):
                self.flag = False

            def set(self):
                self.flag = True

            def wait(self, timeout=None):
                w = rs.by_ident[threading.get_ident()]
                w.waited = True
                return w.gate("g2", {"timeout": timeout, "ev": self})

        class AR(so.AsyncResult):
            def __init__(self):
                super().__init__()
                self.event = Ev()
                w = rs.by_ident[threading.get_ident()]
                self.cid = (w.t, w.k)

            def onResult(self, res, err):
                rs.log.append(["fired", self.cid[0], self.cid[1], res, err])
                super().onResult(res, err)

        self.AR = AR

        class Obj(so.SyncObj):
            def __init__(self):
                conf = SyncObjConf(autoTick=False, commandsQueueSize=max_size, dynamicMembershipChange=True,
                                   appendEntriesUseBatch=use_batch)
                super().__init__("n0:1", ["n1:1", "n2:1"], conf, transportClass=Tr)

            def body(self, name, a, k):
                w = rs.by_ident.get(threading.get_ident())
                if w is not None:
                    rs.log.append(["localRun", w.t, w.k])
                return None

            @so.replicated
            def m_r(self, *a, **k):
                return self.body("m_r", a, k)

            @so.replicated_sync
            def m_s(self, *a, **k):
                return self.body("m_s", a, k)

            @so.replicated_sync(timeout=7)
            def m_st(self, *a, **k):
                return self.body("m_st", a, k)

        self.forwards = []
        self.submissions = {}
        self.o = Obj()
        self.real_apply = self.o._applyCommand
        self.o._applyCommand = self.gated_apply
        self.fq = self.o._SyncObj__commandsQueue
        self.dq = self.fq._FastQueue__queue
        self.pend = []               # mirror of registrations, in registration order: [key, cb]
        self.nodes = {}
        for w_t, prog in enumerate(progs):
            self.workers[w_t] = Worker(self, w_t, prog)

    # -- helpers -------------------------------------------------------------------------------
    def node_no(self, node):
        return {"n0:1": 0, "n1:1": 1, "n2:1": 2}.get(getattr(node, "id", node), 9)

    def make_user_cb(self, t, k):
        rs = self

        def cb(res, err):
            rs.log.append(["fired", t, k, res, err])
        self.cb_ids[id(cb)] = (["user", t, k], cb)
        return cb

    def cb_json(self, cb):
        if cb is None:
            return None
        if isinstance(cb, tuple):
            return ["remote", self.node_no(cb[0]), cb[1]]
        if id(cb) in self.cb_ids:
            return self.cb_ids[id(cb)][0]
        s = getattr(cb, "__self__", None)
        if isinstance(s, self.AR):
            return ["ares", s.cid[0], s.cid[1]]
        return ["unknown", repr(cb)]

    def gated_apply(self, command, callback, commandType=None):
        w = self.by_ident.get(threading.get_ident())
        if w is None:
            return self.real_apply(command, callback, commandType)
        key = (w.t, w.k)
        self.submissions[key] = self.submissions.get(key, 0) + 1
        if self.submissions[key] > 1:
            self.log.append(["resubmit", w.t, w.k])        # no such event in the model
            if self.submissions[key] > MAX_SUBMISSIONS:
                raise _Refused("call %r keeps submitting" % (key,))
        w.gate("g1")
        n0 = len(self.dq)
        at = len(self.log)
        self.real_apply(command, callback, commandType)
        if len(self.dq) == n0 + 1:
            ent = self.dq[-1]
            self.entry_ids[id(ent)] = ([w.t, w.k], ent)
            self.log.insert(at, ["enq", w.t, w.k])
        else:
            self.log.insert(at, ["full", w.t, w.k])

    def start(self):
        so = self.so
        self.old_ar = so.AsyncResult
        so.AsyncResult = self.AR
        for w in self.workers.values():
            w.thread.start()
            self.by_ident[w.thread.ident] = w
        # by_ident must be known before the thread looks itself up: threads stop at g0 first
        for w in self.workers.values():
            if not w.arrived.wait(20):
                raise RuntimeError("worker did not start")

    def stop(self):
        so = self.so
        # let blocked threads go: answer everything, time everything out
        for w in self.workers.values():
            n = 0
            try:
                while w.state[0] != "done" and n < 200 and not getattr(w, "stuck", False):
                    n += 1
                    if w.state[0] == "g2":
                        w.release(False)
                    else:
                        w.release(None)
            except Stuck:
                pass                                          # abandoned (daemon thread); reported by run_schedule
            if w.state[0] != "done":
                w.stuck = True
        so.AsyncResult = self.old_ar
        self.o._applyCommand = lambda *a, **k: None
        qc.close_node(self.o)             # destroy + the notifier's pipe (appendEntriesUseBatch=False)

    # -- labels --------------------------------------------------------------------------------
    def do_call(self, t):
        w = self.workers.get(t)
        if w is None or w.state[0] == "done":
            return False
        if w.state[0] == "g2":
            if not w.state[1]["ev"].flag:
                return False
            w.release(True)
            return True
        w.release(None)
        return True

    def do_timeout(self, t):
        w = self.workers.get(t)
        if w is None or w.state[0] != "g2":
            return False
        info = w.state[1]
        if info["timeout"] is None or info["ev"].flag:
            return False
        w.release(False)
        return True

    def env_now(self):
        o = self.o
        return o._SyncObj__getCurrentLogIndex() + 1, o._SyncObj__raftCurrentTerm

    def inject(self, hasLeader, isLeader, waitLeader, denied):
        from pysyncobj.node import TCPNode
        o = self.o
        o._SyncObj__raftState = 2 if isLeader else 0
        if hasLeader:
            o._SyncObj__raftLeader = o._SyncObj__selfNode if isLeader else TCPNode("n1:1")
        else:
            o._SyncObj__raftLeader = None
        o._SyncObj__conf.commandsWaitLeader = bool(waitLeader)
        if denied:
            o._SyncObj__parseChangeClusterRequest = lambda command: ["add", "n0:1"]
            o._SyncObj__changeCluster = lambda request: False
        else:
            o.__dict__.pop("_SyncObj__parseChangeClusterRequest", None)
            o.__dict__.pop("_SyncObj__changeCluster", None)

    def do_tick(self, hasLeader, isLeader, waitLeader, denied, budget):
        """budget = number of loop iterations allowed (None: until the loop breaks by itself).
        Returns the number of commands dequeued."""
        so, o = self.so, self.o
        self.inject(hasLeader, isLeader, waitLeader, denied)
        period = o._SyncObj__conf.appendEntriesPeriod
        calls = [0]

        def clock():
            calls[0] += 1
            if budget is not None and calls[0] > budget + 1:
                return 1000.0 + 2 * period
            return 1000.0
        heads = [self.entry_ids.get(id(e), (["?"], None))[0] for e in list(self.dq)]
        heads_cb = [e[1] for e in list(self.dq)]
        n0 = len(self.dq)
        log0 = o._SyncObj__getCurrentLogIndex()
        wc = o._SyncObj__commandsWaitingCommit
        wr = o._SyncObj__commandsWaitingReply
        before_wc = {i: list(v) for i, v in wc.items()}
        before_wr = dict(wr)
        self.forwards = []
        at = len(self.log)
        old = so.monotonicTime
        so.monotonicTime = clock
        try:
            o._checkCommandsToApply()
        finally:
            so.monotonicTime = old
        ndeq = n0 - len(self.dq)
        # derived events; with ndeq > 1 (drain) the inline events (sent / fired) of the whole drain follow
        # the derived ones of each entry in order, so they are re-threaded per entry below
        inline = self.log[at:]
        del self.log[at:]
        appended = o._SyncObj__getCurrentLogIndex() - log0
        fw = list(self.forwards)
        ai = 0
        for i in range(ndeq):
            cmd = heads[i]
            self.log.append(["deq", cmd])
            cb = heads_cb[i]
            has_inline = False
            if isLeader and not denied:
                idx = log0 + ai + 1
                ai += 1
                ent = o._SyncObj__raftLog[-(appended - ai + 1)] if appended >= ai else None
                self.log.append(["appended", cmd, ent[1] if ent else None, ent[2] if ent else None])
                has_inline = isinstance(cb, tuple)
            elif (not isLeader) and hasLeader and not isinstance(cb, tuple):
                node, msg = fw.pop(0) if fw else (None, {})
                self.log.append(["forwarded", cmd, msg.get("request_id")])
            else:
                self.log.append(["dropped", cmd])
                has_inline = cb is not None
            if has_inline and inline:
                self.log.append(inline.pop(0))
        self.log.extend(inline)
        self.derived_ok = (appended == ai) and not fw
        # registrations
        for i, v in wc.items():
            old_l = before_wc.get(i, [])
            for (term, cb) in v[len(old_l):]:
                self.pend.append([["commit", i, term], cb])
        for req, cb in wr.items():
            if req not in before_wr or before_wr[req] is not cb:
                self.pend = [p for p in self.pend if p[0] != ["reply", req]]
                self.pend.append([["reply", req], cb])
        return ndeq

    def do_answer(self, j, code):
        o = self.o
        if j >= len(self.pend):
            return False
        key, cb = self.pend.pop(j)
        if key[0] == "commit":
            lst = o._SyncObj__commandsWaitingCommit[key[1]]
            lst.remove((key[2], cb))
            if not lst:
                del o._SyncObj__commandsWaitingCommit[key[1]]
        else:
            o._SyncObj__commandsWaitingReply.pop(key[1])
        cj = self.cb_json(cb)
        res = (1000 * cj[1] + cj[2]) if code == 0 else None
        cb(res, code)
        return True

    def do_rput(self, k, node_req):
        from pysyncobj.node import TCPNode
        cmd = self.so._bchr(0) + pickle.dumps(("foreign", k))
        cb = None if node_req is None else (TCPNode("n%d:1" % node_req[0]), node_req[1])
        n0 = len(self.dq)
        at = len(self.log)
        self.real_apply(cmd, cb)
        if len(self.dq) == n0 + 1:
            ent = self.dq[-1]
            self.entry_ids[id(ent)] = (["f", k], ent)
            self.log.insert(at, ["renq", k])
        else:
            self.log.insert(at, ["rfull", k])
        return True

    def snapshot(self):
        o = self.o
        q = [[self.entry_ids.get(id(e), (["?"], None))[0], self.cb_json(e[1])] for e in list(self.dq)]
        pend = []
        for i, v in o._SyncObj__commandsWaitingCommit.items():
            for (term, cb) in v:
                pend.append([["commit", i, term], self.cb_json(cb)])
        for req, cb in o._SyncObj__commandsWaitingReply.items():
            pend.append([["reply", req], self.cb_json(cb)])
        threads = []
        for t in sorted(self.workers):
            w = self.workers[t]
            ph = {"g0": "start", "g1": "built", "g2": "waiting", "done": "start"}.get(w.state[0], w.state[0])
            threads.append([w.k, ph])
        return {"queue": q, "pend": sorted(pend, key=qc.canon), "counter": o._SyncObj__commandsLocalCounter,
                "threads": threads}


def spec_json(fid, spec):
    meth, args, kw = spec
    dec, dt = METHODS[meth]
    kwj = [[k, 1 if v == "CB" else qc.to_v(v)] for k, v in kw.items()]
    return {"dec": dec, "dt": dt, "f": fid[meth], "args": [qc.to_v(a) for a in args], "kw": kwj}


def run_schedule(so, fid, sched):
    """sched = {"max", "batch", "progs": [[(meth,args,kw)…]…], "steps": [step…]} with steps
    ["call",t] | ["timeout",t] | ["tick",hl,il,wl,dn] | ["drain",hl,il,wl,dn] | ["answer",j,code] |
    ["rput",k] | ["rput",k,node,req].  Returns (labels for the model, real 'ok' list, real log, snapshot)."""
    rs = RealSys(so, sched["max"], sched["progs"], sched["batch"])
    # start value of commandsLocalCounter (48 random bits since the restart repair): read, not injected;
    # the model is started from the same value, request ids are compared absolutely
    sched["counter0"] = rs.o._SyncObj__commandsLocalCounter
    labels, oks = [], []
    err = None
    try:
        rs.start()
        for st in sched["steps"]:
            op = st[0]
            if op == "call":
                labels.append(st)
                oks.append(rs.do_call(st[1]))
            elif op == "timeout":
                labels.append(st)
                oks.append(rs.do_timeout(st[1]))
            elif op in ("tick", "drain"):
                hl, il, wl, dn = st[1:5]
                idx, term = rs.env_now()
                n_before = len(rs.dq)
                ndeq = rs.do_tick(hl, il, wl, dn, 1 if op == "tick" else None)
                if not rs.derived_ok:
                    err = "real dispatch produced appends/forwards the harness could not attribute"
                tries = 1 if op == "tick" else n_before + 1
                for i in range(tries):
                    step_idx = idx + (i if (il and not dn) else 0)
                    labels.append(["tick", int(hl), int(il), int(wl), int(dn), step_idx, term])
                    oks.append(i < ndeq)
            elif op == "answer":
                labels.append(st)
                oks.append(rs.do_answer(st[1], st[2]))
            elif op == "rput":
                labels.append(st)
                oks.append(rs.do_rput(st[1], None if len(st) == 2 else (st[2], st[3])))
        snap = rs.snapshot()
        log = list(rs.log)
    except Stuck as e:
        err = "STUCK: %s" % e
        snap = {"queue": [], "pend": [], "counter": 0, "threads": []}
        log = list(rs.log)
    finally:
        rs.stop()
    for w in rs.workers.values():
        if w.error and "_Refused" not in w.error:
            err = "worker %d: %s" % (w.t, w.error)
        if getattr(w, "stuck", False) and not err:
            err = "STUCK: worker %d (call %d) never finished" % (w.t, w.k)
    return labels, oks, log, snap, err


def canon_model(mj):
    hist = []
    for ev in mj["hist"]:
        if ev[0] == "dropped":
            hist.append(["dropped", ev[1]])
        else:
            hist.append(ev)
    return {"ok": mj["ok"], "hist": hist, "queue": mj["queue"], "pend": sorted(mj["pend"], key=qc.canon),
            "counter": mj["counter"], "threads": mj["threads"]}


def canon_real(oks, log, snap):
    pend = []
    for key, cb in snap["pend"]:
        cmd = [cb[1], cb[2]] if cb and cb[0] in ("user", "ares") else ["?"]
        pend.append([key, cmd, cb])
    q = snap["queue"]
    return {"ok": oks, "hist": log, "queue": q, "pend": sorted(pend, key=qc.canon), "counter": snap["counter"],
            "threads": snap["threads"]}


# -- generators -----------------------------------------------------------------------------------
ENVS = [(hl, il, wl, dn) for hl in (0, 1) for il in (0, 1) for wl in (0, 1) for dn in (0, 1)]


def call_specs():
    return [("m_r", (), {}), ("m_r", (1,), {"callback": "CB"}), ("m_r", (), {"sync": True}),
            ("m_r", (2,), {"sync": True, "timeout": 3}), ("m_s", (), {}), ("m_st", (5,), {"x": 1}),
            ("m_s", (), {"callback": "CB"}), ("m_r", (), {"_doApply": True}), ("m_s", (1,), {"timeout": 0}),
            ("m_s", (), {"sync": False})]


def systematic():
    """every dispatch branch x every callback kind, both sides of the capacity guard, each wait outcome"""
    out = []
    kinds = [("m_r", (), {}), ("m_r", (), {"callback": "CB"}), ("m_s", (), {"timeout": 1}), None, "remote"]
    for env in ENVS:
        for kind in kinds:
            steps = []
            progs = [[]]
            if kind is None:
                steps.append(["rput", 3])
            elif kind == "remote":
                steps.append(["rput", 4, 2, 17])
            else:
                progs = [[kind]]
                steps += [["call", 0], ["call", 0]]
            steps.append(["tick"] + list(env))
            steps += [["answer", 0, 0], ["call", 0], ["timeout", 0], ["answer", 0, 5], ["call", 0]]
            out.append({"max": 1, "batch": True, "progs": progs, "steps": steps})
    for m in (0, 1, 2):
        for kind in kinds[:3]:
            progs = [[kind] * (m + 3)]
            steps = [["call", 0]] * (2 * (m + 3) + 2) + [["timeout", 0]] * 2 + [["drain", 1, 1, 1, 0]]
            steps += [["answer", 0, 0], ["call", 0], ["answer", 1, 3], ["answer", 0, 0], ["call", 0], ["call", 0]]
            out.append({"max": m, "batch": m != 1, "progs": progs, "steps": steps})
        out.append({"max": m, "batch": True, "progs": [[]],
                    "steps": [["rput", i, 1, i] for i in range(m + 3)] + [["rput", 9]] + [["drain", 1, 0, 1, 0]]})
    return out


def random_schedule(rng):
    specs = call_specs()
    n = rng.choice([1, 2, 2, 3])
    progs = [[rng.choice(specs) for _ in range(rng.randrange(1, 5))] for _ in range(n)]
    steps = []
    env = list(rng.choice(ENVS))
    for _ in range(rng.randrange(5, 60)):
        r = rng.random()
        if r < 0.45:
            steps.append(["call", rng.randrange(n)])
        elif r < 0.52:
            steps.append(["timeout", rng.randrange(n)])
        elif r < 0.72:
            if rng.random() < 0.3:
                env = list(rng.choice(ENVS))
            if rng.random() < 0.6:   # bias towards envs in which something is dequeued
                env = [1, rng.choice([0, 1, 1]), env[2], rng.choice([0, 0, 0, 1])]
            steps.append([rng.choice(["tick", "tick", "drain"])] + env)
        elif r < 0.92:
            steps.append(["answer", rng.choice([0, 0, 1, 2]), rng.choice([0, 0, 0, 2, 3, 4, 5, 6])])
        else:
            k = rng.randrange(100)
            steps.append(["rput", k] if rng.random() < 0.4 else ["rput", k, rng.choice([1, 2]), rng.randrange(50)])
    return {"max": rng.choice([0, 0, 1, 1, 2, 3]), "batch": rng.random() < 0.7, "progs": progs, "steps": steps}


# -- monitors on the real log ----------------------------------------------------------------------
def monitors(sched, log, snap):
    v = []
    enq, full, deq, fired, ret = {}, {}, {}, {}, {}
    order_enq, order_deq = [], []
    for ev in log:
        if ev[0] in ("enq", "full"):
            d = enq if ev[0] == "enq" else full
            d[(ev[1], ev[2])] = d.get((ev[1], ev[2]), 0) + 1
            if ev[0] == "enq":
                order_enq.append([ev[1], ev[2]])
        elif ev[0] == "renq":
            order_enq.append(["f", ev[1]])
        elif ev[0] == "deq":
            order_deq.append(ev[1])
            if ev[1] and ev[1][0] != "f":
                deq[tuple(ev[1])] = deq.get(tuple(ev[1]), 0) + 1
        elif ev[0] == "fired":
            fired.setdefault((ev[1], ev[2]), []).append((ev[3], ev[4]))
        elif ev[0] == "ret":
            ret.setdefault((ev[1], ev[2]), []).append(ev[3])
    resub = set((e[1], e[2]) for e in log if e[0] == "resubmit")
    seen_open = set()
    for ev in log:
        # C02: after an outcome that leaves the command's fate open (LEADER_CHANGED) the same call must not be submitted
        # a second time — both copies may be applied.  (A re-submission after a definite refusal is harmless for the
        # property; it shows as a difference to the model only.)
        if ev[0] == "fired" and ev[4] == 5:
            seen_open.add((ev[1], ev[2]))
        elif ev[0] == "resubmit" and (ev[1], ev[2]) in seen_open:
            v.append(("replicated.sync:command-submitted-again-after-open-outcome",
                      "call %r was answered LEADER_CHANGED and the wrapper submitted its command again" % ((ev[1], ev[2]),)))
            break
    for c in (set(enq) | set(full)) - resub:
        if enq.get(c, 0) + full.get(c, 0) != 1:
            v.append(("queue.put:call-enqueued-or-refused-not-exactly-once", "%r enq=%d full=%d" % (c, enq.get(c, 0), full.get(c, 0))))
    for c, n in deq.items():
        if n > enq.get(c, 0):
            v.append(("queue.get:command-dequeued-more-often-than-enqueued", "%r deq=%d enq=%d" % (c, n, enq.get(c, 0))))
    if order_deq != order_enq[:len(order_deq)] or order_enq[len(order_deq):] != [q[0] for q in snap["queue"]]:
        v.append(("queue.get:not-fifo", "enq %r deq %r left %r" % (order_enq, order_deq, snap["queue"])))
    for c, l in fired.items():
        if len(l) > 1 and not any(e[0] == "resubmit" and (e[1], e[2]) == c for e in log):
            v.append(("queue.callback:fired-more-than-once", "%r: %r" % (c, l)))
    # a refused call that has a callback (its own `callback=` or the sync AsyncResult) is told QUEUE_FULL
    for c in full:
        meth, args, kw = sched["progs"][c[0]][c[1]]
        cb_given = kw.get("callback") == "CB"
        is_sync = bool(kw.get("sync", meth != "m_r")) and not cb_given
        if (cb_given or is_sync) and (None, 1) not in fired.get(c, []):
            v.append(("queue.put:refused-call-not-told-queue-full", "%r refused (Queue.Full), callback got %r" % (c, fired.get(c))))
    # a dequeued command whose dispatch failed locally is reported through its callback
    for ev in log:
        if ev[0] == "dropped" and ev[1] and ev[1][0] != "f":
            c = tuple(ev[1])
            meth, args, kw = sched["progs"][c[0]][c[1]]
            cb_given = kw.get("callback") == "CB"
            is_sync = bool(kw.get("sync", meth != "m_r")) and not cb_given
            if (cb_given or is_sync) and not fired.get(c):
                v.append(("queue.dispatch:refused-command-not-reported", "%r dropped by the dispatch, callback never fired" % (c,)))
    for c, outs in ret.items():
        if len(outs) != 1:
            v.append(("decorator.sync:returned-more-than-once", "%r" % (c,)))
            continue
        o = outs[0]
        f = fired.get(c, [])
        if o == ["timeout"]:
            continue
        if not f:
            v.append(("decorator.sync:result-without-answer", "%r returned %r, callback never fired" % (c, o)))
        elif f[0][1] == 0:
            if o != ["value", f[0][0]] or f[0][0] != 1000 * c[0] + c[1]:
                v.append(("decorator.sync:foreign-result", "%r answered %r returned %r" % (c, f[0], o)))
        elif o != ["raised", f[0][1]]:
            v.append(("decorator.sync:wrong-failure-reason", "%r answered %r gave %r" % (c, f[0], o)))
    return v


def run(ctx):
    so = qc.load(ctx)
    # not the clock / PRNG an earlier component left behind; a private seeded PRNG makes the start value
    # of commandsLocalCounter (random.getrandbits(48)) replay from VERIF_SEED
    fds = qc.fd_count()
    with qc.real_runtime(so, seed="%d/queue_model" % ctx.seed):
        return qc.fd_audit(_run(ctx, so), fds)


def _run(ctx, so):
    t0 = time.time()
    rng = ctx.rng("queue_model")
    res = {"cases": 0, "distinct": 0, "coverage": {}, "samples": [], "disagreements": [], "violations": []}
    cov = res["coverage"]
    distinct = set()

    # ---- Part A
    cases = fq_cases(ctx, rng)
    try:
        out = ctx.driver("queue", [json.dumps({"op": "fq", "max": m, "ops": ops}) for m, ops in cases])
    except Exception as e:   # noqa  binary missing / being relinked: infrastructure, not a finding
        res["inconclusive"] = "driver queue unavailable: " + repr(e)[:300]
        return res
    cov["fq_ok"] = cov["fq_full"] = cov["fq_empty"] = cov["fq_got"] = 0
    for (m, ops), line in zip(cases, out):
        mj = json.loads(line)
        real = fq_real(ctx, m, ops)
        res["cases"] += 1
        distinct.add(qc.canon(["fq", m, ops]))
        for r in real["res"]:
            cov["fq_" + (r if r in ("ok", "full", "empty") else "got")] += 1
        if mj != real and len(res["disagreements"]) < 3:
            res["disagreements"].append({"input": {"max": m, "ops": ops}, "model": mj, "impl": real,
                                         "note": "FastQueue vs PSO.Queue.FastQueue"})
        for x in fq_monitor(m, ops, real):
            if len(res["violations"]) < 3:
                res["violations"].append(x)

    # ---- Part B
    from pysyncobj import SyncObjConf   # noqa
    probe = RealSys(so, 1, [], True)
    fid = {m: probe.o._methodToID[m + "_v0"] for m in METHODS}
    probe.start()
    probe.stop()
    scheds = systematic()
    budget = ctx.scale(8.0, 240.0)
    n_rand = ctx.scale(400, 20000)
    for _ in range(n_rand):
        scheds.append(random_schedule(rng))
    keys = ["lab_call", "lab_timeout", "lab_tick", "lab_answer", "lab_rput", "disabled", "ev_enq", "ev_full", "ev_renq",
            "ev_rfull", "ev_deq", "ev_appended", "ev_forwarded", "ev_dropped", "ev_sent", "ev_fired", "ev_ret",
            "ev_localRun", "ret_value", "ret_raised", "ret_timeout", "schedules"]
    for k in keys:
        cov[k] = 0
    lines, reals = [], []
    for sc in scheds:
        if time.time() - t0 > budget and cov["schedules"] >= len(systematic()):
            break
        labels, oks, log, snap, err = run_schedule(so, fid, sc)
        cov["schedules"] += 1
        lines.append(json.dumps({"op": "sys", "max": sc["max"], "counter0": sc.get("counter0", 0), "skip": True,
                                 "labels": labels,
                                 "progs": [[spec_json(fid, s) for s in p] for p in sc["progs"]]}))
        reals.append((sc, labels, oks, log, snap, err))
    try:
        out = ctx.driver("queue", lines)
    except Exception as e:   # noqa
        res["inconclusive"] = "driver queue unavailable: " + repr(e)[:300]
        return res
    for (sc, labels, oks, log, snap, err), line in zip(reals, out):
        mj = json.loads(line)
        res["cases"] += 1
        distinct.add(qc.canon([sc["max"], labels, [[spec_json(fid, s) for s in p] for p in sc["progs"]]]))
        for l, okb in zip(labels, oks):
            cov["lab_" + l[0]] += 1
            if not okb:
                cov["disabled"] += 1
        for ev in log:
            cov["ev_" + ev[0]] = cov.get("ev_" + ev[0], 0) + 1
            if ev[0] == "ret":
                cov["ret_" + ev[3][0]] += 1
        real = canon_real(oks, json.loads(json.dumps(log)), snap)
        if "error" in mj:
            model = mj
        else:
            model = canon_model(mj)
        if (model != real or err) and len(res["disagreements"]) < 3:
            d = {k: (model.get(k), real.get(k)) for k in real if model.get(k) != real.get(k)}
            res["disagreements"].append({"input": {"max": sc["max"], "batch": sc["batch"], "progs": repr(sc["progs"]),
                                                   "steps": sc["steps"]},
                                         "model": {k: x[0] for k, x in d.items()}, "impl": {k: x[1] for k, x in d.items()},
                                         "note": err or "lock-step schedule: real SyncObj + real threads vs PSO.Queue.Sys.step"})
        extra = []
        if err and err.startswith("STUCK"):
            extra.append(("replicated.sync:call-did-not-return", "%s; events so far %r" % (err, log[-6:])))
        for sig, what in extra + monitors(sc, log, snap):
            if len(res["violations"]) < 3 and sig not in [x["signature"] for x in res["violations"]]:
                res["violations"].append({"signature": sig, "what": what,
                                          "replay": {"kind": "schedule", "max": sc["max"], "batch": sc["batch"],
                                                     "progs": sc["progs"], "steps": sc["steps"]}})
        if len(res["samples"]) < 2 and len(log) > 8 and any(e[0] == "ret" for e in log):
            res["samples"].append({"max": sc["max"], "steps": sc["steps"][:30], "real_events": log[:30]})
    res["distinct"] = len(distinct)
    res["wall_s"] = round(time.time() - t0, 2)
    res["notes"] = "handler level (FastQueue ops) + lock-step schedule level (real threads stopped at gates)"
    missed = [k for k in keys + ["fq_ok", "fq_full", "fq_empty", "fq_got"] if cov.get(k, 0) == 0]
    if missed:
        res["inconclusive"] = "coverage floor missed: " + ",".join(missed)
    return res


def replay(ctx, violation):
    so = qc.load(ctx)
    r = violation["replay"]
    if r.get("kind") == "fq":
        real = fq_real(ctx, r["max"], r["ops"])
        vs = fq_monitor(r["max"], r["ops"], real)
        return {"violated": bool(vs), "observed": real}
    probe = RealSys(so, 1, [], True)
    fid = {m: probe.o._methodToID[m + "_v0"] for m in METHODS}
    probe.start()
    probe.stop()
    sc = {"max": r["max"], "batch": r["batch"], "steps": r["steps"],
          "progs": [[(s[0], tuple(s[1]), s[2]) for s in p] for p in r["progs"]]}
    labels, oks, log, snap, err = run_schedule(so, fid, sc)
    vs = monitors(sc, log, snap)
    return {"violated": bool(vs), "violations": vs, "events": log, "labels": labels}
