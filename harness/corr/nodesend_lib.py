"""Shared machinery of the `nodesend` correspondence components (no PROPERTIES line: not a component).

* `Env`  : ONE live, real `SyncObj` (built by harness/sim.py's `Sim`: real class, simulated transport,
           virtual clock) whose private state is overwritten per case ("state injection"), whose transport
           and serializer are replaced by recorders / scripted stubs, and whose real entry points are fired.
* abstract vocabulary = the JSON of `lean/Driver/NodeSend.lean` (node ids are small ints, node i = 'n<i>').

Private attributes written/read (name-mangled `_SyncObj__…`): raftLog, raftNextIndex, raftMatchIndex,
raftState, raftCurrentTerm, raftLeader, raftCommitIndex, raftLastApplied, otherNodes, readonlyNodes,
connectedNodes, commandsQueue (+ `_FastQueue__queue`, `_FastQueue__maxSize`), commandsWaitingCommit,
commandsWaitingReply, commandsLocalCounter, noopIDx, changeClusterIDx, recvTransmission, lastResponseTime,
serializer, transport, conf, selfNode, newAppendEntriesTime; entry points: `_SyncObj__sendAppendEntries`,
`_checkCommandsToApply`, `_applyCommand`, `_SyncObj__onMessageReceived`, `_SyncObj__onLeaderChanged`,
`_SyncObj__loadDumpFile`-free `_SyncObj__updateClusterConfiguration`, `_SyncObj__doApplyCommand`,
`_removeNodeFromCluster`.
"""
import collections
import json

from harness.sim import Sim

KINDS = ("noop", "reg", "ver", "add", "rem", "memother")
TYPE_BYTE = {"reg": 0, "noop": 1, "add": 2, "rem": 2, "memother": 2, "ver": 3}
ERR_CLASS = {"IndexError": "IndexError", "KeyError": "KeyError", "TypeError": "TypeError",
             "AssertionError": "AssertionError"}


def nid(i):
    return "n%d" % i


def nnum(name):
    return int(name[1:])


class Commands(object):
    """abstract CMD [kind, node, id, size] <-> real command bytes; ids are assigned per distinct byte string"""

    def __init__(self, env):
        self.env = env
        self.by_bytes = {}
        self.by_key = {}
        self.next_id = 1

    def make(self, kind, node=0, size=None, salt=0, hi=False):
        """returns the abstract CMD (list of 4) for a command of this kind; `size` is honoured for
        noop/reg (>= 1); membership / version commands have the size of their real pickle."""
        pk = self.env.pickle
        tb = bytes([TYPE_BYTE[kind]])
        if kind in ("add", "rem"):
            b = tb + pk.dumps([kind, nid(node), self.env.Node(nid(node))])
        elif kind == "memother":
            b = tb + pk.dumps(["swap", nid(node), self.env.Node(nid(node))])
            node = 0
        elif kind == "ver":
            b = tb + pk.dumps(int(node))
            node = 0
        else:
            size = max(1, 1 if size is None else size)
            fill = (b"\xfe\xdc" if hi else b"xy")
            head = ("%d:" % salt).encode()
            body = (head + fill * ((size // 2) + 1))[:size - 1]
            b = tb + body
            node = 0
        if b in self.by_bytes:
            return list(self.by_bytes[b])
        cmd = (kind, node, self.next_id, len(b))
        self.next_id += 1
        self.by_bytes[b] = cmd
        self.by_key[cmd] = b
        return list(cmd)

    def to_bytes(self, cmd):
        return self.by_key[tuple(cmd[:4])]

    def of_bytes(self, b):
        c = self.by_bytes.get(bytes(b))
        if c is None:
            return ["unknown", 0, 0, len(b)]
        return list(c)


class Recorder(object):
    pass


class Env(object):
    def __init__(self, repo, seed=0):
        self.sim = Sim(repo, [nid(0)], seed=seed)
        self.so = self.sim.so
        self.Node = self.sim.Node
        import pysyncobj.pickle as pk
        import pysyncobj.fast_queue as fq
        import pysyncobj.journal as jr
        self.pickle, self.fq, self.jr = pk, fq, jr
        self.obj = self.sim.objs[nid(0)]
        self.tr = self.sim.transports[nid(0)]
        self.cmds = Commands(self)
        self.out = []
        self.drop_after = None
        self.sends = 0
        self.cur_log = []
        env = self

        def send(node, message):
            env.sends += 1
            env.out.append(("send", node.id, message))
            if env.drop_after is not None and env.sends >= env.drop_after:
                if node in env.obj._SyncObj__readonlyNodes:
                    # the transport reports the lost connection of a read-only node from inside `send`:
                    # the node's next / match index are removed
                    if node in env.obj._SyncObj__connectedNodes:
                        env.obj._SyncObj__onReadonlyNodeDisconnected(node)
                else:
                    env.obj._SyncObj__connectedNodes.discard(node)
            return True

        def add_node(node):
            env.out.append(("addNode", node.id))

        def drop_node(node):
            env.out.append(("dropNode", node.id))
        self.tr.send = send
        self.tr.addNode = add_node
        self.tr.dropNode = drop_node

        class Ser(object):
            def __init__(s):
                s.answers = collections.defaultdict(list)
                s.cancelled = []

            def getTransmissionData(s, node):
                a = s.answers[node.id]
                if not a:
                    return None
                x = a.pop(0)
                if x is None:
                    return None
                return (b"snapdata", False, bool(x))

            def cancelTransmisstion(s, node):
                s.cancelled.append(node.id)

            def checkSerializing(s):
                return (0, None)                 # SERIALIZER_STATE.NOT_SERIALIZING

            def setTransmissionData(s, data):
                return False

            def deserialize(s, incoming=False):
                raise IOError("no dump")

            def finishIncoming(s, accept):
                # repair D70: the received snapshot replaces the stored one only when the node installs it
                s.finished = getattr(s, "finished", []) + [bool(accept)]
                return True if not accept else not getattr(s, "store_fails", False)

            def serialize(s, data, entry_id):
                s.serialized = getattr(s, "serialized", []) + [(data, entry_id)]
        self.Ser = Ser
        self.real_mono = self.so.monotonicTime
        try:
            self.so.logger.setLevel(100)      # swallowed exceptions of __loadDumpFile are logged: keep stderr quiet
        except Exception:
            pass

    # ---------------------------------------------------------------------------------------
    def P(self, name):
        return getattr(self.obj, "_SyncObj__" + name)

    def S(self, name, v):
        setattr(self.obj, "_SyncObj__" + name, v)

    def ovh_of(self, cmd_bytes, idx, term):
        return len(self.pickle.dumps((cmd_bytes, idx, term))) - len(cmd_bytes)

    def entry_real(self, e):
        return (self.cmds.to_bytes(e[0]), e[1], e[2])

    def cb_real(self, cb):
        if cb is None:
            return None
        if cb[0] == "loc":
            cid = cb[1]
            env = self

            def f(res, err, cid=cid):
                env.out.append(("cb", cid, err))
            f._cid = cid
            return f
        return (self.Node(nid(cb[1])), cb[2])

    def cb_abs(self, cb):
        if cb is None:
            return None
        if isinstance(cb, tuple):
            return ["rem", nnum(cb[0].id), cb[1]]
        return ["loc", cb._cid]

    def set_conf(self, conf):
        c = self.P("conf")
        c.appendEntriesBatchSizeBytes = conf["batch"]
        c.appendEntriesUseBatch = conf["useBatch"]
        c.dynamicMembershipChange = conf["dyn"]
        c.commandsWaitLeader = conf["waitLeader"]
        c.commandsQueueSize = conf["queueMax"]

    def inject(self, st, conf):
        self.set_conf(conf)
        o = self.obj
        N = lambda i: self.Node(nid(i))
        self.S("selfNode", None if st["self"] is None else N(st["self"]))
        self.S("raftState", st["role"])
        self.S("raftCurrentTerm", st["term"])
        self.S("raftLeader", None if st["leader"] is None else N(st["leader"]))
        j = self.jr.MemoryJournal()
        for e in st["log"]:
            j.add(*self.entry_real(e))
        self.S("raftLog", j)
        self.S("raftCommitIndex", st["commit"])
        self.S("raftLastApplied", st["lastApplied"])
        self.S("otherNodes", set(N(i) for i in st["members"]))
        self.S("readonlyNodes", set(N(i) for i in st["readonly"]))
        self.S("connectedNodes", set(N(i) for i in st["connected"]))
        self.S("raftNextIndex", dict((N(k), v) for k, v in st["next"]))
        self.S("raftMatchIndex", dict((N(k), v) for k, v in st["match"]))
        self.S("lastResponseTime", {})
        q = self.fq.FastQueue(conf["queueMax"])
        dq = q._FastQueue__queue
        for (c, cb) in st["queue"]:
            dq.append((self.cmds.to_bytes(c), self.cb_real(cb)))
        self.S("commandsQueue", q)
        wc = collections.defaultdict(list)
        for (idx, term, cb) in st["waitCommit"]:
            wc[idx].append((term, self.cb_real(["loc", cb])))
        self.S("commandsWaitingCommit", wc)
        self.S("commandsWaitingReply", dict((k, self.cb_real(["loc", v])) for k, v in st["waitReply"]))
        self.S("commandsLocalCounter", st["counter"])
        self.S("noopIDx", st["noop"])
        self.S("changeClusterIDx", st["change"])
        buf = st.get("buf")
        if buf is None:
            self.S("recvTransmission", "")
        else:
            self.S("recvTransmission", self.spans_bytes(buf))
        ser = self.Ser()
        self.S("serializer", ser)
        self.ser = ser
        self.out = []
        self.sends = 0
        self.drop_after = None
        self.pickled = {}
        for e in st["log"]:
            self.pickled[e[1]] = self.pickle.dumps(self.entry_real(e))

    def spans_bytes(self, spans):
        b = b""
        for (e, pos, ln) in spans:
            p = self.pickle.dumps(self.entry_real(e))
            b += p[pos:pos + ln]
        return b

    def entry_abs(self, e):
        c = self.cmds.of_bytes(e[0])
        return [c, e[1], e[2]]

    def extract(self, known_entries=()):
        """abstract post-state; the receive buffer is returned as raw bytes under key 'bufraw'"""
        st = {}
        sn = self.P("selfNode")
        st["self"] = None if sn is None else nnum(sn.id)
        st["role"] = self.P("raftState")
        st["term"] = self.P("raftCurrentTerm")
        ld = self.P("raftLeader")
        st["leader"] = None if ld is None else nnum(ld.id)
        st["log"] = [self.entry_abs(e) for e in self.P("raftLog")[:]]
        st["commit"] = self.P("raftCommitIndex")
        st["lastApplied"] = self.P("raftLastApplied")
        st["members"] = sorted(nnum(n.id) for n in self.P("otherNodes"))
        st["readonly"] = sorted(nnum(n.id) for n in self.P("readonlyNodes"))
        st["connected"] = sorted(nnum(n.id) for n in self.P("connectedNodes"))
        st["next"] = sorted([nnum(k.id), v] for k, v in self.P("raftNextIndex").items())
        st["match"] = sorted([nnum(k.id), v] for k, v in self.P("raftMatchIndex").items())
        st["queue"] = [[self.cmds.of_bytes(c), self.cb_abs(cb)] for (c, cb) in list(self.P("commandsQueue")._FastQueue__queue)]
        wc = []
        for idx in sorted(self.P("commandsWaitingCommit")):
            for (term, cb) in self.P("commandsWaitingCommit")[idx]:
                wc.append([idx, term, cb._cid])
        st["waitCommit"] = wc
        st["waitReply"] = sorted([k, cb._cid] for k, cb in self.P("commandsWaitingReply").items())
        st["counter"] = self.P("commandsLocalCounter")
        st["noop"] = self.P("noopIDx")
        st["change"] = self.P("changeClusterIDx")
        rt = self.P("recvTransmission")
        st["bufraw"] = None if isinstance(rt, str) else bytes(rt)
        return st

    # ---------------------------------------------------------------------------------------
    def msg_abs(self, m, ctxlog=None):
        t = m["type"]
        if t == "append_entries":
            if "serialized" in m:
                d = m["serialized"]
                return {"t": "snap", "term": m["term"], "commit": m["commit_index"], "data": None if d is None else bool(d[2])}
            prev = None if m.get("prevLogIdx") is None else [m["prevLogIdx"], m["prevLogTerm"]]
            if m.get("transmission") is not None:
                return {"t": "chunk", "label": m["transmission"], "len": len(m["data"]), "term": m["term"],
                        "commit": m["commit_index"], "prev": prev, "_data": m["data"]}
            return {"t": "append", "term": m["term"], "commit": m["commit_index"], "prev": prev,
                    "entries": [self.entry_abs(e) for e in m["entries"]]}
        if t == "apply_command":
            return {"t": "apply_command", "cmd": self.cmds.of_bytes(m["command"]), "req": m.get("request_id")}
        if t == "apply_command_response":
            if m.get("error") is not None:
                return {"t": "response", "req": m["request_id"], "err": m["error"]}
            return {"t": "response", "req": m["request_id"], "err": None, "idx": m["log_idx"], "lterm": m["log_term"]}
        if t == "next_node_idx":
            return {"t": "next", "next": m["next_node_idx"], "reset": bool(m["reset"]), "success": bool(m["success"]),
                    "term": m.get("term")}
        return {"t": "other:" + t}

    def canon_out(self, raw):
        """real recorded outputs -> canonical dict {sends: {dst: [MSG]}, cbs: [[id, code]], reg: sorted [[kind, n]]};
        chunk payloads are checked against the pickled entry and replaced by (pos, idx)"""
        sends = collections.OrderedDict()
        cbs, reg, notes = [], [], []
        burst = {}
        for o in raw:
            if o[0] == "send":
                dst = nnum(o[1])
                m = self.msg_abs(o[2])
                if m["t"] == "chunk":
                    data = m.pop("_data")
                    idx = (m["prev"][0] + 1) if m["prev"] is not None else None
                    if m["label"] == "start" or dst not in burst:
                        burst[dst] = 0
                    pos = burst[dst]
                    burst[dst] = pos + len(data)
                    m["pos"], m["idx"] = pos, idx
                    p = self.pickled.get(idx)
                    if p is None or p[pos:pos + len(data)] != data:
                        notes.append("chunk payload is not entry[%s][%d:%d]" % (idx, pos, pos + len(data)))
                sends.setdefault(dst, []).append(m)
            elif o[0] == "cb":
                cbs.append([o[1], o[2]])
            else:
                reg.append([o[0], nnum(o[1])])
        return {"sends": dict((str(k), v) for k, v in sorted(sends.items())), "cbs": cbs, "reg": sorted(reg), "notes": notes}


def strip_cmd(x):
    """drop the pickle-overhead field of every CMD (5th element) for comparison"""
    if isinstance(x, list):
        if len(x) == 5 and isinstance(x[0], str) and x[0] in KINDS + ("unknown",):
            return x[:4]
        return [strip_cmd(y) for y in x]
    if isinstance(x, dict):
        return dict((k, strip_cmd(v)) for k, v in x.items())
    return x


def canon_model_out(outs):
    sends = collections.OrderedDict()
    cbs, reg = [], []
    for o in outs:
        if o[0] == "send":
            sends.setdefault(o[1], []).append(o[2])
        elif o[0] == "cb":
            cbs.append([o[1], o[2]])
        else:
            reg.append([o[0], o[1]])
    return {"sends": dict((str(k), v) for k, v in sorted(sends.items())), "cbs": cbs, "reg": sorted(reg), "notes": []}


def with_ovh(cmd, ovh):
    return list(cmd[:4]) + [ovh]


def state_json(st, ovh_entry, ovh_queue=None):
    """abstract state (CMDs of 4) -> driver STATE (CMDs of 5, overhead from the callbacks)"""
    s = dict(st)
    s["log"] = [[with_ovh(e[0], ovh_entry(e)), e[1], e[2]] for e in st["log"]]
    s["queue"] = [[with_ovh(c, (ovh_queue(c) if ovh_queue else 1)), cb] for (c, cb) in st["queue"]]
    if st.get("buf") is not None:
        s["buf"] = [[[with_ovh(e[0], ovh_entry(e)), e[1], e[2]], pos, ln] for (e, pos, ln) in st["buf"]]
    else:
        s["buf"] = None
    return s


def jdump(x):
    return json.dumps(x, separators=(",", ":"), sort_keys=True)
