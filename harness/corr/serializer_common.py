"""Shared helpers of the `serializer` component (C09 byte/transfer/dump-file layer).

Not a harness component itself (no PROPERTIES line): imported by serializer_chunks.py, storage_dump.py and
the D18 witness.  Everything here runs the REAL `pysyncobj.serializer.Serializer`.

Private attributes read (never written): `_Serializer__pid`, `__currentID`, `__transmissions`,
`__incomingTransmissionFile`, `__incomingSnapshot`, `__inMemorySerializedData`.
"""
import binascii
import hashlib
import json
import os
import sys

PEER = 0


def load(repo):
    """Import pysyncobj.serializer from `repo`, making sure no other copy is used."""
    repo = os.path.abspath(repo)
    if "pysyncobj" in sys.modules:
        f = os.path.abspath(sys.modules["pysyncobj"].__file__)
        if not f.startswith(repo + os.sep):
            raise RuntimeError("pysyncobj already imported from %s, wanted %s" % (f, repo))
    elif sys.path[0] != repo:
        sys.path.insert(0, repo)
    import pysyncobj.serializer as sermod
    import logging
    lg = logging.getLogger("pysyncobj.serializer")     # the code logs expected failures (missing dump file ...)
    if not lg.handlers:
        lg.addHandler(logging.NullHandler())
        lg.propagate = False
    return sermod


def hx(b):
    return None if b is None else binascii.hexlify(bytes(b)).decode()


def unhx(s):
    return None if s is None else binascii.unhexlify(s)


def read_file(path):
    try:
        with open(path, "rb") as f:
            return f.read()
    except (IOError, OSError):
        return None


PIDS = {0: "idle", -1: "doneOk", -2: "doneFail"}
STATUS = {0: "notSerializing", 1: "serializing", 2: "success", 3: "failed"}
STATUS_INV = {v: k for k, v in STATUS.items()}


def priv(ser, name):
    return getattr(ser, "_Serializer__" + name)


def extract(ser, fn, with_fs=True):
    """Abstract state of a real Serializer (same shape as the Lean driver's `jSer`)."""
    st = {"pid": PIDS.get(priv(ser, "pid"), "child"), "id": priv(ser, "currentID")}
    inc = priv(ser, "incomingTransmissionFile")
    st["inc"] = inc is not None
    snap = priv(ser, "incomingSnapshot")          # D70: a completely received, not yet installed snapshot
    st["snapset"] = snap is not None
    st["snap"] = None
    if fn is None:
        st["dump"] = hx(priv(ser, "inMemorySerializedData"))
        st["tmp"] = None
        st["tmp1"] = hx(inc) if inc is not None else None
        st["snap"] = hx(snap) if snap is not None else None
    elif with_fs:
        if inc is not None:
            inc.flush()          # observation only: the model's handle is unbuffered
        st["dump"] = hx(read_file(fn))
        st["tmp"] = hx(read_file(fn + ".tmp"))
        st["tmp1"] = hx(read_file(fn + ".1.tmp"))
    tr = []
    for node, t in priv(ser, "transmissions").items():
        if "data" in t:
            data = t["data"]
        else:
            f = t["file"]
            pos = f.tell()
            if pos != t["transmitted"]:
                raise AssertionError("file position %d != transmitted %d" % (pos, t["transmitted"]))
            f.seek(0)
            data = f.read()
            f.seek(pos)
        tr.append([node, t["transmitted"], hx(data)])
    st["trans"] = sorted(tr)
    return st


def chunk_repr(c):
    """Canonical form of what getTransmissionData returned."""
    if c is None:
        return None
    if c is False:
        return "False"
    return [hx(c[0]), bool(c[1]), bool(c[2])]


class ParentExit(Exception):
    """The code under test called os._exit in the harness process itself (only a fork child may)."""


class guard_exit(object):
    """While active, `os._exit` in THIS process raises instead of silently ending the check with status 0;
    fork children (other pid) exit normally."""

    def __enter__(self):
        self.pid = os.getpid()
        self.real = os._exit
        me = self

        def _exit(code):
            if os.getpid() == me.pid:
                raise ParentExit("os._exit(%r) called in the parent process" % (code,))
            me.real(code)
        os._exit = _exit
        return self

    def __exit__(self, *exc):
        os._exit = self.real
        return False


class Unpicklable(object):
    """Makes pickle.dump raise in the middle of a dump write."""

    def __reduce__(self):
        raise ValueError("cannot pickle this")


def mk_data(ident, n, bad):
    """The tuple SyncObj hands to serialize: (object state, last entry, previous entry, cluster)."""
    state = {"v": list(range(n)), "k": "s%d" % ident}
    if bad:
        state["bad"] = Unpicklable()
    return (state, (b"c", ident + 1, 1), (b"b", ident, 1), set(["n1", "n2"]))


class RealLink(object):
    """Two real Serializer objects and the messages in flight between them.

    Executes the event vocabulary of `PSO.Serializer.Ev`; every event returns the JSON event to send to the
    Lean driver (parameters the code treats as opaque — the encoded image — are taken from what the real
    code wrote) and the observed output."""

    def __init__(self, sermod, workdir, sm, rm, sf, rf, sb, rb, tag="l"):
        self.sermod = sermod
        self.sm, self.rm, self.sf, self.rf, self.sb, self.rb = sm, rm, sf, rf, sb, rb
        self.fnS = os.path.join(workdir, tag + "-S.dump") if sm == "file" else None
        self.fnR = os.path.join(workdir, tag + "-R.dump") if rm == "file" else None
        for fn in (self.fnS, self.fnR):
            if fn:
                for suf in ("", ".tmp", ".1.tmp"):
                    if os.path.exists(fn + suf):
                        os.unlink(fn + suf)
        self.S = sermod.Serializer(self.fnS, sb, sf, None, None, None)
        self.R = sermod.Serializer(self.fnR, rb, rf, None, None, None)
        self.chan = []
        self.held = []          # every byte string the sender's store has held (monitor)
        self.completed = []     # receiver's store after every completed transfer (monitor)
        self.nofs_snd = False   # a fork child of the sender is running: file images are racy
        self.nofs_rcv = False

    def header(self):
        return {"k": "link", "sm": self.sm, "rm": self.rm, "sf": self.sf, "rf": self.rf, "sb": self.sb, "rb": self.rb}

    # -- helpers ---------------------------------------------------------------------------------
    def store(self, which):
        ser, fn = (self.S, self.fnS) if which == "S" else (self.R, self.fnR)
        if fn is None:
            return priv(ser, "inMemorySerializedData")
        return read_file(fn)

    def incoming(self, which):
        """What deserialize(incoming=True) would read: the received snapshot if there is one, else the stored one."""
        ser, fn = (self.S, self.fnS) if which == "S" else (self.R, self.fnR)
        snap = priv(ser, "incomingSnapshot")
        if snap is None:
            return self.store(which)
        return snap if fn is None else read_file(snap)

    def note_held(self):
        d = self.store("S")
        if d is not None and (not self.held or self.held[-1] != d):
            self.held.append(d)

    def state(self):
        return {"snd": extract(self.S, self.fnS, not self.nofs_snd),
                "rcv": extract(self.R, self.fnR, not self.nofs_rcv), "chan": len(self.chan)}

    def _serialize(self, which, ident, data):
        """Run the real serialize; returns the parameters the model needs (the image as written, whether the
        encoding failed) and whether an exception escaped."""
        ser, fn, mode, fork = (self.S, self.fnS, self.sm, self.sf) if which == "S" else (self.R, self.fnR, self.rm, self.rf)
        busy = priv(ser, "pid") != 0
        raised = False
        with guard_exit():
            try:
                ser.serialize(data, ident)
            except ValueError:
                raised = True
        pid = priv(ser, "pid")
        fail = False
        pieces = []
        if busy:
            pass
        elif mode == "memory":
            fail = raised
            if not raised:
                pieces = [priv(ser, "inMemorySerializedData")]
        elif pid > 0:
            # fork child: wait for its exit without reaping it (the Serializer's own waitpid must still see it)
            os.waitid(os.P_PID, pid, os.WEXITED | os.WNOWAIT)
            tmp = read_file(fn + ".tmp")          # success renames tmp away; failure leaves the partial tmp
            fail = tmp is not None
            pieces = [tmp] if fail else [read_file(fn)]
            if which == "S":
                self.nofs_snd = True
            else:
                self.nofs_rcv = True
        else:
            fail = pid == -2
            pieces = [read_file(fn + ".tmp")] if fail else [read_file(fn)]
        return {"id": ident, "p": [hx(p) for p in pieces], "fail": fail}, raised

    # -- events ----------------------------------------------------------------------------------
    def do(self, ev):
        """ev: dict with key 'e' (+ generator-level parameters).  Returns (driver_event, out)."""
        e = ev["e"]
        out = None
        dev = dict(ev)
        if e == "send":
            c = self.S.getTransmissionData(PEER)
            self.chan.append(c)
            out = chunk_repr(c)
        elif e == "burst":
            out = []
            for _ in range(ev["b"]):          # syncobj.py:1221-1241 for one node
                c = self.S.getTransmissionData(PEER)
                self.chan.append(c)
                out.append(chunk_repr(c))
                if c is None or c is False or c[2]:
                    break
        elif e == "sendOther":
            out = chunk_repr(self.S.getTransmissionData(ev["n"] + 1))
        elif e == "deliver":
            if self.chan:
                c = self.chan.pop(0)
                done = bool(self.R.setTransmissionData(c))
                out = [done, None]
                if done:
                    self.completed.append(self.incoming("R"))
                    # what SyncObj.__loadDumpFile(clearJournal=True) does next: install, reject, or raise before
                    if ev.get("fin") is not None:
                        out[1] = bool(self.R.finishIncoming(bool(ev["fin"])))
        elif e == "reconnect":
            self.chan = []
            if ev["c"]:
                self.S.cancelTransmisstion(PEER)
        elif e == "cancel":
            self.S.cancelTransmisstion(PEER)
        elif e in ("serialize", "rcvSerialize"):
            which = "S" if e == "serialize" else "R"
            data = mk_data(ev["id"], ev.get("n", 3), ev.get("bad", False))
            dev = {"e": e}
            params, raised = self._serialize(which, ev["id"], data)
            dev.update(params)
            out = raised
        elif e == "childRun":
            self.nofs_snd = False               # the real child ran by itself and has exited
        elif e == "rcvChildRun":
            self.nofs_rcv = False
        elif e in ("check", "rcvCheck"):
            ser = self.S if e == "check" else self.R
            st, ident = ser.checkSerializing()
            out = [STATUS[st], ident]
        elif e == "sndInstall":
            d = unhx(ev["d"])
            out = [bool(self.S.setTransmissionData((d, True, False))),
                   bool(self.S.setTransmissionData((b"", False, True))),
                   bool(self.S.finishIncoming(True))]
        elif e == "rcvRestart":
            self.R = self.sermod.Serializer(self.fnR, self.rb, self.rf, None, None, None)
            self.chan = []
            if ev["c"]:
                self.S.cancelTransmisstion(PEER)
        else:
            raise ValueError("unknown event " + e)
        self.note_held()
        return dev, out

    def close(self):
        for ser in (self.S, self.R):
            inc = priv(ser, "incomingTransmissionFile")
            if inc is not None and not isinstance(inc, bytes):
                try:
                    inc.close()
                except Exception:
                    pass
            for t in priv(ser, "transmissions").values():
                if "file" in t:
                    t["file"].close()


def canon_hash(obj):
    return hashlib.sha1(json.dumps(obj, sort_keys=True, default=str).encode()).hexdigest()


def first_diff(a, b, path=""):
    """First differing path between two JSON-like values (None if equal)."""
    if type(a) != type(b):
        return "%s: %r != %r" % (path, a, b)
    if isinstance(a, dict):
        for k in sorted(set(a) | set(b)):
            if k not in a or k not in b:
                return "%s.%s: missing on one side" % (path, k)
            d = first_diff(a[k], b[k], path + "." + k)
            if d:
                return d
        return None
    if isinstance(a, list):
        if len(a) != len(b):
            return "%s: len %d != %d (%r vs %r)" % (path, len(a), len(b), a[:4], b[:4])
        for i, (x, y) in enumerate(zip(a, b)):
            d = first_diff(x, y, "%s[%d]" % (path, i))
            if d:
                return d
        return None
    if a != b:
        return "%s: %r != %r" % (path, a, b)
    return None
