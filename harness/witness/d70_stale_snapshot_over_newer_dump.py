"""D70: a snapshot received from the leader replaces the node's STORED snapshot before the node decides whether to
install it.

`Serializer.setTransmissionData` renames the received file over the dump file (in-memory mode: overwrites the held
bytes) at the last chunk; only then `__loadDumpFile(clearJournal=True)` looks at the snapshot's last index and keeps
state and log when the node has applied that position already.  If the node has meanwhile written its OWN dump at a
later position C and trimmed its journal to C-1, the stored snapshot is now the leader's older one (last index S < C-1)
while the journal starts at C-1: the entries S+1..C-2 are in neither file.  Kill + restart: the journal head matches
nothing in the dump, the journal is cleared and re-seeded with the dump's two entries — the node comes back at S, every
entry it had acknowledged (and knew committed) after S is gone from its disk   (C06, C09).

Reachable on FIFO channels without any fault beyond one dead connection: the leader's nextIndex ran ahead of a follower
whose connection had died unnoticed; after the reconnect two heartbeats are in flight, each is answered with `reset`,
and the leader sends its whole snapshot once per reply.  The follower installs the first copy, journals and applies what
follows, compacts its own log — and then the second copy arrives.
Replay: schedule `snapshot_stale_dup` of corr.restart_schedules on 3 real journaled voters (journal + dump, and
journal only = dump next to the journal); checked right after the second copy (stored snapshot vs. journal head, read
from the files) and after kill + restart + first tick of the follower (acknowledged entries).
Silent when a snapshot that is not installed does not replace the stored one."""
import gzip
import os
import shutil
import time

from harness.corr import restart_schedules as rs
from harness.witness._common import result, tag

PROPERTIES = ["C06", "C09"]
ORDER = 10


def stored_snapshot(sim, r, i):
    p = r._dump_path(i)
    if p is None:
        return None
    with open(p, "rb") as f:
        with gzip.GzipFile(fileobj=f) as g:
            data = sim.so.pickle.load(g)
    return data[2][1], data[1][1]


def scenario(repo, tmpdir, dump=True):
    spec = rs.spec_for("snapshot_stale_dup", 3, dump, 34)
    old_pid, rs.CURRENT_PID = rs.CURRENT_PID, None
    try:
        base, info = rs.record_base(repo, "snapshot_stale_dup", spec, tmpdir)
        if not info:
            return None, [], {"reached": False}
        r = rs.Runner(repo, spec, tmpdir)
        try:
            sim = r.sim
            lag = info["lag"]
            for e in base.events[:info["window_from"]]:
                r.ev(*e)
            viols = []
            snap = stored_snapshot(sim, r, lag)
            first = sim.log_of(lag)[0][0]
            acked = r.ack_hi[lag]
            out = {"reached": True, "own_dump_at": info["own_dump"], "leader_snapshot_at": info["k1"], "stored_snapshot": snap,
                   "journal": (first, sim.last_index(lag)), "acknowledged_up_to": acked}
            if snap is not None and first > snap[0]:
                viols.append({"signature": "restart:stored-snapshot-older-than-journal-head",
                              "what": "follower %s wrote its own dump at %d and trimmed its journal to %d..%d; the leader's second copy of "
                                      "snapshot %d arrived, was NOT installed (already applied) — but the dump file now holds (%d, %d): "
                                      "entries %d..%d are in neither file" % (lag, info["own_dump"], first, sim.last_index(lag),
                                                                               info["k1"], snap[0], snap[1], snap[1] + 1, first - 1)})
            r.ev("kill", lag)
            r.ev("restart", lag)
            r.ev("tick", lag, 0.0625)
            after = sim.log_of(lag)
            out["journal_after_restart"] = (after[0][0], after[-1][0])
            out["applied_after_restart"] = sim.objs[lag].raftLastApplied
            viols += [{"signature": v["signature"], "what": v["what"]} for v in r.viol
                      if v["signature"] in ("restart:acknowledged-entries-lost", "restart:state-not-replay-of-committed-prefix")][:1]
            if after[-1][0] < acked and not any(v["signature"] == "restart:acknowledged-entries-lost" for v in viols):
                viols.append({"signature": "restart:acknowledged-entries-lost",
                              "what": "follower %s had acknowledged up to %d; after kill + restart its journal holds %d..%d"
                                      % (lag, acked, after[0][0], after[-1][0])})
        finally:
            r.close()
        return r, viols, out
    finally:
        rs.CURRENT_PID = old_pid


def run(ctx):
    t0 = time.time()
    viols, infos = [], []
    for dump in (True, False):
        r, v, info = scenario(ctx.repo, ctx.tmpdir(), dump)
        viols += v[:2]
        infos.append(info)
    out = result("witness.d70_stale_snapshot_over_newer_dump", tag(viols, "d70_stale_snapshot_over_newer_dump", {}),
                 {"journal+dump": infos[0], "journal only": infos[1]}, t0)
    out["cases"] = out["distinct"] = 2
    if not all(i.get("reached") for i in infos):
        out["inconclusive"] = "the schedule no longer reaches 'second copy of an older snapshot after the own compaction': %r" % (infos,)
    return out


def replay(ctx, violation):
    d = ctx.tmpdir()
    try:
        r, viols, info = scenario(ctx.repo, d, True)
    finally:
        shutil.rmtree(d, ignore_errors=True)
    return {"violated": bool(viols), "violations": viols[:4], "info": info, "tree": ctx.repo}
