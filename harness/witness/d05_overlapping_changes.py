"""D5 (C10): `__changeClusterIDx` was read by `__changeCluster` but never assigned, so the gate "previous cluster
change not committed yet" never closed: a leader accepted a second membership change while the first was still
uncommitted (two changes in flight = majorities of the old and the newest configuration need not intersect).
Schedule: 3 voters, `dynamicMembershipChange`; the leader is cut off from both followers (nothing can commit), then
asked to add `d` and to add `e`.  Monitor (C10 statement): a change is refused while an earlier one is uncommitted."""
import pickle
import time
from harness.sim import Sim
from harness.witness._common import result, tag

PROPERTIES = ["C10"]
ORDER = 10

SIG = "membership:change-accepted-while-earlier-uncommitted"


def membership_entries(sim, i):
    out = []
    for (idx, term, cmd) in sim.log_of(i):
        if cmd[:1] == b"\x02":
            out.append((idx, pickle.loads(cmd[1:])[:2]))
    return out


def scenario(repo):
    sim = Sim(repo, ["a", "b", "c"], conf={"dynamicMembershipChange": True}, seed=5)
    sim.connect_all()
    L = sim.elect()
    assert L is not None
    sim.run(4)
    for j in sim.voters:
        if j != L:
            sim.disconnect(L, j)
    res = []
    o = sim.objs[L]
    sim._call(L, o.addNodeToCluster, sim.Node("d"), callback=lambda r, e: res.append(("add d", e)))
    sim._call(L, o.addNodeToCluster, sim.Node("e"), callback=lambda r, e: res.append(("add e", e)))
    sim.tick(L, 0.0625)
    sim.tick(L, 0.0625)
    commit = o.raftCommitIndex
    pending = [(i, r) for (i, r) in membership_entries(sim, L) if i > commit]
    viols = []
    if len(pending) > 1:
        viols.append({"signature": SIG,
                      "what": "isolated leader %s (commit %d) holds %d uncommitted membership entries %s; members now %s; callbacks %s"
                              % (L, commit, len(pending), pending, sorted(n.id for n in o.otherNodes), res)})
    return sim, viols, {"pending": [list(map(str, p)) for p in pending], "callbacks": [list(r) for r in res]}


def run(ctx):
    t0 = time.time()
    sim, viols, info = scenario(ctx.repo)
    return result("witness.d05_overlapping_changes", tag(viols, "d05_overlapping_changes", {}), info, t0)


def replay(ctx, violation):
    sim, viols, info = scenario(ctx.repo)
    return {"violated": bool(viols), "violations": viols, "info": info}
