"""D40 witness (C19): `@replicated_sync(timeout=T)` must wait at most T for the answer and then raise
SyncObjException('Timeout').

Pinned code (`syncobj.py`, `replicated_sync`): the keyword arguments of the decorator are only read for
`ver`; `replicated_sync_impl(func, timeout=None)` is returned and later called with `func` alone, so the
decorator's `timeout` is dropped and every call without an explicit `timeout=` does `event.wait(None)`:
with no answer from the core (no leader, `commandsWaitLeader=True` — the default) the call neither
returns nor raises.  Repair: fixes/D40-replicated-sync-timeout-argument.diff (the default of
`replicated_sync_impl`'s `timeout` parameter is the decorator's keyword).

Deterministic observation (no real waiting): `AsyncResult.event` is replaced by a recording event, the
timeout handed to `Event.wait` is compared with the decorator's.  The replay hook additionally shows the
blocking with a real `threading.Event` and a real thread.
"""
import threading
import time

from harness.corr import queue_common as qc

PROPERTIES = ["C19"]
ORDER = 10

SIG = "replicated_sync.decorator:timeout-argument-ignored"


def _observe(so, timeouts):
    from pysyncobj import SyncObjConf
    RecTransport = qc.make_transport_class(so)
    waited = []

    class Ev(object):
        def __init__(self):
            self.flag = False

        def set(self):
            self.flag = True

        def wait(self, timeout=None):
            waited.append(timeout)
            return self.flag

    class AR(so.AsyncResult):
        def __init__(self):
            super().__init__()
            self.event = Ev()

    out = []
    for T in timeouts:
        class Obj(so.SyncObj):
            def __init__(self):
                super().__init__("n0:1", ["n1:1"], SyncObjConf(autoTick=False), transportClass=RecTransport)

            @so.replicated_sync(timeout=T)
            def put(self, x):
                return x

        o = Obj()
        old = so.AsyncResult
        so.AsyncResult = AR
        del waited[:]
        try:
            try:
                o.put(1)
                how = "returned"
            except so.SyncObjException as e:
                how = "raised:%s" % (e.errorCode,)
        finally:
            so.AsyncResult = old
        out.append({"decorator_timeout": T, "waited_with": list(waited), "call": how})
        o.destroy()
    return out


def run(ctx):
    t0 = time.time()
    so = qc.load(ctx)
    obs = _observe(so, [5, 0.25])
    viols = []
    for o in obs:
        w = o["waited_with"]
        ok = len(w) >= 1 and all(isinstance(x, (int, float)) and not isinstance(x, bool)
                                 and o["decorator_timeout"] - 0.5 <= x <= o["decorator_timeout"] for x in w)
        if not ok:          # D40 = the decorator's timeout is DROPPED (None); a computed remaining time is fine
            viols.append({"signature": SIG,
                          "what": "@replicated_sync(timeout=%r): Event.wait was called with %r; with no answer the "
                                  "call blocks instead of raising 'Timeout'" % (o["decorator_timeout"], o["waited_with"]),
                          "replay": {"witness": "d40", "decorator_timeout": o["decorator_timeout"]}})
            break
    return {"cases": len(obs), "distinct": len(obs), "violations": viols, "samples": obs[:1],
            "coverage": {"tripped": bool(viols)}, "disagreements": [], "wall_s": round(time.time() - t0, 2)}


def replay(ctx, violation):
    """Real Event, real thread: the call with decorator timeout 0.05 s is still blocked after 1 s."""
    so = qc.load(ctx)
    from pysyncobj import SyncObjConf
    RecTransport = qc.make_transport_class(so)
    made = []

    class AR(so.AsyncResult):
        def __init__(self):
            super().__init__()
            made.append(self)

    class Obj(so.SyncObj):
        def __init__(self):
            super().__init__("n0:1", ["n1:1"], SyncObjConf(autoTick=False), transportClass=RecTransport)

        @so.replicated_sync(timeout=0.05)
        def put(self, x):
            return x

    o = Obj()
    res = {}

    def body():
        try:
            res["out"] = ("returned", o.put(1))
        except so.SyncObjException as e:
            res["out"] = ("raised", e.errorCode)

    old = so.AsyncResult
    so.AsyncResult = AR
    try:
        th = threading.Thread(target=body, daemon=True)
        th.start()
        th.join(1.0)
        blocked = th.is_alive()
    finally:
        so.AsyncResult = old
    if blocked and made:
        made[-1].onResult(None, so.FAIL_REASON.MISSING_LEADER)   # let the thread go
        th.join(1.0)
    o.destroy()
    return {"violated": blocked, "still_blocked_after_20x_timeout": blocked, "finally": res.get("out"),
            "observation": _observe(so, [violation.get("replay", {}).get("decorator_timeout", 5)])}
