"""D16: term and vote were volatile: a journaled voter that is killed after granting its vote came
back with term 0 / no vote and granted a second candidate in the same term (two leaders per term
become possible across restarts)."""
import time
from harness.sim import Sim
from harness.witness._common import result, tag

PROPERTIES = ["C07"]
ORDER = 10


def scenario(repo, tmpdir, seed=1):
    sim = Sim(repo, ["a", "b", "v"], seed=seed, journal_dir=tmpdir)
    sim.up |= {("v", "a"), ("v", "b")}
    sim.alive |= {frozenset(("v", "a")), frozenset(("v", "b"))}
    rv = lambda t: {"type": "request_vote", "term": t, "last_log_index": 1, "last_log_term": 0}
    sim.inject("a", "v", rv(1))
    term_before = sim.objs["v"].raftCurrentTerm
    sim.kill("v")
    sim.restart("v")
    sim.up |= {("v", "a"), ("v", "b")}
    sim.alive |= {frozenset(("v", "a")), frozenset(("v", "b"))}
    term_after = sim.objs["v"].raftCurrentTerm
    sim.inject("b", "v", rv(1))
    votes = [(d, m["term"]) for (s, d, m) in sim.sent if s == "v" and m["type"] == "response_vote"]
    viols = []
    by_term = {}
    for d, t in votes:
        by_term.setdefault(t, set()).add(d)
    for t, ds in by_term.items():
        if len(ds) > 1:
            viols.append({"signature": "restart:vote-granted-twice-in-term",
                          "what": "voter v granted its vote in term %d to %s (killed and restarted in between)" % (t, sorted(ds))})
    if term_after < term_before:
        viols.append({"signature": "restart:term-moved-backwards",
                      "what": "voter v had term %d before the kill and %d after the restart" % (term_before, term_after)})
    return sim, viols


def scenario_late_teardown(repo, tmpdir, seed=1):
    """In-process replacement (seeded change C07-18): the application builds a new SyncObj on the journal files while the
    tear-down of the old one is still pending (`destroy()` of an auto-tick object only sets a flag).  The old incarnation
    has an unsaved commit index; the successor adopts a later term and votes; then the old incarnation's journal is
    closed.  Nothing the old object does at that moment may bring back its term and vote: after the next kill + restart the
    node is still in the later term and refuses a second candidate of it."""
    sim = Sim(repo, ["a", "b", "v"], seed=seed, journal_dir=tmpdir)
    link = lambda: (sim.up.update({("v", "a"), ("v", "b")}), sim.alive.update({frozenset(("v", "a")), frozenset(("v", "b"))}))
    link()
    rv = lambda t: {"type": "request_vote", "term": t, "last_log_index": 1, "last_log_term": 0}
    sim.inject("a", "v", {"type": "append_entries", "term": 3, "commit_index": 1, "entries": [], "prevLogIdx": 1, "prevLogTerm": 0})
    old = sim.objs["v"]
    sim.kill("v")                      # abandoned, not torn down yet
    sim.restart("v")
    link()
    sim.inject("a", "v", rv(4))
    term_voted = sim.objs["v"].raftCurrentTerm
    try:
        getattr(old, "_SyncObj__raftLog")._destroy()        # the late tear-down of the old incarnation's journal
    except Exception:
        pass
    sim.kill("v")
    sim.restart("v")
    link()
    term_after = sim.objs["v"].raftCurrentTerm
    sim.inject("b", "v", rv(4))
    votes = [(d, m["term"]) for (s_, d, m) in sim.sent if s_ == "v" and m["type"] == "response_vote"]
    viols = []
    got = sorted(set(d for d, t in votes if t == 4))
    if len(got) > 1:
        viols.append({"signature": "restart:vote-granted-twice-in-term",
                      "what": "voter v granted its vote in term 4 to %s: the journal of its previous incarnation was closed after the "
                              "vote for a was stored, then v was killed and restarted" % got})
    if term_after < term_voted:
        viols.append({"signature": "restart:term-moved-backwards",
                      "what": "voter v voted in term %d; after the late tear-down of its previous incarnation and a restart it is in term %d"
                              % (term_voted, term_after)})
    return sim, viols, {"voted_in": term_voted, "votes": votes}


def run(ctx):
    t0 = time.time()
    sim, viols = scenario(ctx.repo, ctx.tmpdir())
    if not viols:
        sim2, viols, info = scenario_late_teardown(ctx.repo, ctx.tmpdir())
        r = result("witness.d16_double_vote_after_restart", tag(viols, "d16_double_vote_after_restart", {"late": True}),
                   {"schedule_events": len(sim.trace) + len(sim2.trace), "late_teardown": info}, t0)
        if info["voted_in"] != 4 or not info["votes"]:
            r["inconclusive"] = "the successor did not vote in term 4 (%s)" % info
        return r
    return result("witness.d16_double_vote_after_restart", tag(viols, "d16_double_vote_after_restart", {}),
                  {"schedule_events": len(sim.trace)}, t0)


def replay(ctx, violation):
    if violation.get("replay", {}).get("late"):
        sim, viols, info = scenario_late_teardown(ctx.repo, ctx.tmpdir())
        return {"violated": bool(viols), "violations": viols[:5], "info": info}
    sim, viols = scenario(ctx.repo, ctx.tmpdir())
    return {"violated": bool(viols), "violations": viols[:5]}
