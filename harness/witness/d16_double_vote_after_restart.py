"""D16: term and vote were volatile: a journaled voter that is killed after granting its vote came
back with term 0 / no vote and granted a second candidate in the same term (two leaders per term
become possible across restarts)."""
import time
from harness.sim import Sim
from harness.witness._common import result, tag

PROPERTIES = ["C07"]
ORDER = 10


def scenario(repo, tmpdir, seed=1):
    sim = Sim(repo, ["a", "b", "v"], seed=seed, journal_dir=tmpdir)
    sim.up |= {("v", "a"), ("v", "b")}
    sim.alive |= {frozenset(("v", "a")), frozenset(("v", "b"))}
    rv = lambda t: {"type": "request_vote", "term": t, "last_log_index": 1, "last_log_term": 0}
    sim.inject("a", "v", rv(1))
    term_before = sim.objs["v"].raftCurrentTerm
    sim.kill("v")
    sim.restart("v")
    sim.up |= {("v", "a"), ("v", "b")}
    sim.alive |= {frozenset(("v", "a")), frozenset(("v", "b"))}
    term_after = sim.objs["v"].raftCurrentTerm
    sim.inject("b", "v", rv(1))
    votes = [(d, m["term"]) for (s, d, m) in sim.sent if s == "v" and m["type"] == "response_vote"]
    viols = []
    by_term = {}
    for d, t in votes:
        by_term.setdefault(t, set()).add(d)
    for t, ds in by_term.items():
        if len(ds) > 1:
            viols.append({"signature": "restart:vote-granted-twice-in-term",
                          "what": "voter v granted its vote in term %d to %s (killed and restarted in between)" % (t, sorted(ds))})
    if term_after < term_before:
        viols.append({"signature": "restart:term-moved-backwards",
                      "what": "voter v had term %d before the kill and %d after the restart" % (term_before, term_after)})
    return sim, viols


def run(ctx):
    t0 = time.time()
    sim, viols = scenario(ctx.repo, ctx.tmpdir())
    return result("witness.d16_double_vote_after_restart", tag(viols, "d16_double_vote_after_restart", {}),
                  {"schedule_events": len(sim.trace)}, t0)


def replay(ctx, violation):
    sim, viols = scenario(ctx.repo, ctx.tmpdir())
    return {"violated": bool(viols), "violations": viols[:5]}
