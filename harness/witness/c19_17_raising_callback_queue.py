"""C19 / C02 witness for seeded change C19-17: "every callback fires exactly once" also when the callback of ANOTHER
caller raises while the queue of pending calls is drained.

A node that knows no leader (`commandsWaitLeader=False`) answers each queued call with MISSING_LEADER from
`_checkCommandsToApply`.  A raising callback leaves the tick at that call; the auto-tick thread logs the exception and
ticks again.  Whatever was taken out of the queue before the exception must have been answered: a drain that pops a
batch first and answers afterwards loses the rest of the batch (no callback ever, a sync caller without timeout hangs).
Also run with a known leader that denies (`REQUEST_DENIED` for a membership request without dynamic membership is not
used here; the MISSING_LEADER path is enough to pass through the drain loop).

Schedule: 3 voters, never connected; 40 calls with callbacks on one node, every tenth callback raises; ticks repeated.
Monitor: every callback was called exactly once, with MISSING_LEADER."""
import time

from harness.sim import Sim
from harness.witness._common import result, tag

PROPERTIES = ["C19", "C02"]
ORDER = 12

SIG = "queue-drain:callback-lost-after-another-callback-raised"


def scenario(repo, calls=40):
    sim = Sim(repo, ["a", "b", "c"], seed=17, conf={"commandsWaitLeader": False})
    fired = {}

    def mk(k):
        def cb(res, err, k=k):
            fired.setdefault(k, []).append(err)
            if k % 10 == 3:
                raise RuntimeError("callback of the application failed")
        return cb
    o = sim.objs["a"]
    for k in range(calls):
        sim._call("a", o.add, "x%d" % k, callback=mk(k))
    for _ in range(calls + 20):
        sim.tick("a", 0.001)
    missing = [k for k in range(calls) if k not in fired]
    twice = [k for k in range(calls) if len(fired.get(k, [])) > 1]
    wrong = [k for k in range(calls) if fired.get(k) and fired[k][0] != 2]        # FAIL_REASON.MISSING_LEADER
    viols = []
    if missing or twice:
        viols.append({"signature": SIG,
                      "what": "%d calls with callbacks queued on a node without leader, every tenth callback raises, the tick is "
                              "repeated %d times: %d callbacks never fired (e.g. %s), %d fired twice"
                              % (calls, calls + 20, len(missing), missing[:6], len(twice))})
    return sim, viols, {"calls": calls, "answered": len(fired), "raised": len([k for k in fired if k % 10 == 3]),
                        "other_reason": wrong[:3], "tick_errors": len(sim.errors)}


def run(ctx):
    t0 = time.time()
    sim, viols, info = scenario(ctx.repo)
    r = result("witness.c19_17_raising_callback_queue", tag(viols, "c19_17_raising_callback_queue", {}), info, t0)
    if info["raised"] == 0 or info["other_reason"]:
        r["inconclusive"] = "no raising callback was called with MISSING_LEADER (%s)" % info
    return r


def replay(ctx, violation):
    sim, viols, info = scenario(ctx.repo)
    return {"violated": bool(viols), "violations": viols, "info": info}
