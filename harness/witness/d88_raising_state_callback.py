"""D88 (C01, C03, C04): `__onBecomeLeader` reports the new role (`__setState(LEADER)` -> the user's `onStateChanged`)
BEFORE it resets the match indexes and appends its no-op.  A callback that raises left the node leader of the new
term with the match indexes of its previous term of office and no no-op: it commits on the strength of
acknowledgements of an earlier term (D3's schedule without any stale message), and its own log end is not of its term.

Schedule: 3 voters; X leads and gets entries acknowledged (match indexes > 0); another node takes over; X is elected
again, its onStateChanged callback raises at that moment.  Monitor at the moment X is leader again: every match index
is 0 or was raised by an acknowledgement of the CURRENT term (here: 0, the others are cut off), the last entry of its
log is its no-op of the current term, no exception escaped."""
import time

from harness.sim import Sim
from harness.witness._common import result, tag

PROPERTIES = ["C01", "C03", "C04"]
ORDER = 10

SIG = "become-leader:interrupted-by-raising-onStateChanged"


def scenario(repo):
    sim = Sim(repo, ["a", "b", "c"], seed=21)
    sim.connect_all()
    X = sim.elect()
    assert X is not None
    Y, Z = [v for v in sim.voters if v != X]
    for k in range(4):
        sim.submit(X, "x%d" % k)
    sim.run(10)
    m_before = dict((n.id, m) for (n, m) in sim.P(X, "raftMatchIndex").items())
    # Y takes over (X is cut off for a while), then X is elected again - with a callback that raises
    for j in (Y, Z):
        sim.disconnect(X, j)
    L2 = sim.elect(among=[Y, Z])
    sim.run(6, among=[Y, Z])
    conf = sim.P(X, "conf")
    orig = conf.onStateChanged
    armed = {"on": True}

    def raising(old, new):
        if orig is not None:
            orig(old, new)
        if armed["on"] and new == 2:
            raise RuntimeError("onStateChanged of the application failed")
    conf.onStateChanged = raising
    for j in (Y, Z):
        sim.connect(X, j)
    sim.run(10)
    sim.disconnect(L2, X)
    sim.disconnect(L2, [v for v in (Y, Z) if v != L2][0])
    W = [v for v in (Y, Z) if v != L2][0]
    for _ in range(300):                       # only X's clock runs: it stands for election and wins with W's vote
        sim.tick(X, 0.0625)
        sim.deliver_all(among={X, W})
        sim.tick(W, 0.0)
        sim.deliver_all(among={X, W})
        if sim.objs[X]._isLeader():
            break
    armed["on"] = False
    viols = []
    info = {"first_leader": X, "second": L2, "leader_again": sim.objs[X]._isLeader(), "match_before": m_before}
    if sim.objs[X]._isLeader():
        term = sim.objs[X].raftCurrentTerm
        match = dict((n.id, m) for (n, m) in sim.P(X, "raftMatchIndex").items())
        last = sim.log_of(X)[-1]
        stale = dict((k, v) for k, v in match.items() if k == L2 and v > 0)
        if stale or last[1] != term or sim.errors:
            viols.append({"signature": SIG,
                          "what": "node %s became leader of term %d with an onStateChanged callback that raises: match indexes %s (cut-off "
                                  "node %s still counted with %s from the earlier term of office), last log entry (%d, term %d), %d "
                                  "exceptions escaped" % (X, term, match, L2, stale.get(L2), last[0], last[1], len(sim.errors))})
        info.update({"term": term, "match": match, "last": list(last[:2])})
    return sim, viols, info


def run(ctx):
    t0 = time.time()
    sim, viols, info = scenario(ctx.repo)
    r = result("witness.d88_raising_state_callback", tag(viols[:1], "d88_raising_state_callback", {}), info, t0)
    if not info["leader_again"]:
        r["inconclusive"] = "the first leader was not elected again"
    return r


def replay(ctx, violation):
    sim, viols, info = scenario(ctx.repo)
    return {"violated": bool(viols), "violations": viols, "info": info}
