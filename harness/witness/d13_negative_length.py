"""D13 witness (C13): a frame whose length field is NEGATIVE must disconnect the connection.

Pinned code (`tcp_connection.py:277-300`): `len(buf) - 4 < l` is false for l < 0, `buf[4:4+l]` is a slice counted
from the END of the buffer, so `[len=-k] payload [k junk bytes]` hands exactly `payload` to zlib/pickle: a message
is delivered, the connection stays up and `buf[4+l:]` leaves the last k bytes in the read buffer
(design-phase script notes/design-replays/d8.py).  Repair: fixes/D13-negative-frame-length.diff.

Each witness case is run on the REAL `TcpConnection` (fake socket / poller) and judged by the property monitor of
harness/corr/tcp_framing.py (negative length => nothing delivered from that frame on, DISCONNECTED, one
onDisconnected).  For the record the same bytes also go through the Lean model of the *pinned* parse function
(`parseOnePinned`, driver flag "pinned") — when the tree under test shows the defect, that model must predict
exactly what the pinned code did (reported under coverage.pinned_model_agrees).
"""
import struct

from harness.corr import tcp_framing as F

PROPERTIES = ["C13"]
ORDER = 10


def witness_cases(env):
    t = env.table
    a = t.vid({"hello": 1})
    b = t.vid(b"second message")
    pa = t.payload[a]
    fb = t.frame(b)
    # l = -(j+4): buf[4:4+l] == buf[4:-j] is exactly the payload when j junk bytes follow it,
    # and buf[4+l:] == buf[-j:] leaves the junk (or a whole further frame) in the buffer
    shapes = [
        ("d8-shape-j1", struct.pack("<i", -5) + pa + b"Z", [a], 0),
        ("d8-shape-j3", struct.pack("<i", -7) + pa + b"ZZZ", [a], 0),
        ("neg-then-valid-frame", struct.pack("<i", -(len(fb) + 4)) + pa + fb, [a, b], 0),
        ("valid-then-neg", fb + struct.pack("<i", -6) + pa + b"ZZ", [b, a], 1),
        ("int-min", struct.pack("<i", -2 ** 31) + pa, [a], 0),
        ("minus-one-alone", struct.pack("<i", -1), [a], 0),
        ("minus-four", struct.pack("<i", -4) + pa, [a], 0),
    ]
    out = []
    for name, stream, ids, bad in shapes:
        for split in (None, 4, 5):
            chunks = [stream] if split is None or split >= len(stream) else [stream[:split], stream[split:]]
            c = F.reader_case(env, "witness-d13-" + name, ids, stream, [[ch] for ch in chunks],
                              {"mon": "corrupt", "sent": ids, "bad": bad, "class": "negative", "how": name,
                               "then": None})
            out.append(c)
    return out


def run(ctx):
    cov = {}
    res = {"cases": 0, "distinct": 0, "coverage": cov, "samples": [], "disagreements": [], "violations": []}
    with F.Env(ctx.repo, cov) as env:
        cases = witness_cases(env)
        tripped = 0
        reals = []
        for c in cases:
            r = env.run_real(c)
            reals.append(r)
            res["cases"] += 1
            viol = F.monitor(env, c, r, ctx.rng("d13"))
            if viol:
                tripped += 1
            for x in viol:
                if x["signature"] not in [y["signature"] for y in res["violations"]]:
                    x["replay"] = F.public_case(env, c)
                    res["violations"].append(x)
        if tripped:
            # the tree shows the defect: the Lean model of the PINNED parse function must predict all of it
            agree = 0
            try:
                pinned = [dict(c, pinned=True) for c in cases]
                for m, r in zip(F.run_model(ctx, env, pinned), reals):
                    if F.first_diff(m, r) is None:
                        agree += 1
            except Exception:   # noqa  (driver missing: the witness itself does not need it)
                agree = -1
            cov["pinned_model_agrees"] = "%d/%d" % (agree, len(cases))
        res["distinct"] = len(cases)
        cov["witness_cases_tripped"] = tripped
        pc = F.public_case(env, cases[0])
        pc.pop("vals", None)
        res["samples"].append(pc)
    return res


def replay(ctx, violation):
    return F.replay(ctx, violation)
