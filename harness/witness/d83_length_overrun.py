"""D83 witness (C13): a length field corrupted UPWARDS must disconnect the connection.

Unrepaired code: `__processParseMessage` hands `readBuffer[4:4+l]` to `zlib.decompress()`, which stops at the end of
the deflate stream and ignores whatever follows (`pickle.loads` likewise ignores bytes behind STOP).  A length
field that is too large by k bytes is therefore accepted as soon as k more bytes are in the buffer:
  case A  F1 F2 F3 with F1's length raised by exactly |F2|: delivered [m1, m3], CONNECTED — m2 vanishes;
  case B  F1's length raised by one byte: m1 delivered, the parser is one byte off, reads a ~2 GB length and waits
          for ever; every later frame is hoarded, the read time-out never fires.
Repair /tmp/d83.diff (fixes/D83-exact-payload.diff): `zlib.decompressobj()` must reach `eof` without `unused_data`
and `pickle.load` must exhaust the decompressed bytes; anything else is an invalid frame -> disconnect.

Cases are judged by the `corrupt` monitor of harness/corr/tcp_framing.py with the class computed by the harness'
own strict reading of "valid payload" (`Table.real_dec`): invalid frame => exactly the messages before it are
delivered, DISCONNECTED, one onDisconnected.
"""
import struct

from harness.corr import tcp_framing as F

PROPERTIES = ["C13"]
ORDER = 10


def witness_cases(env):
    t = env.table
    ids = [t.vid("m1"), t.vid("m2"), t.vid("m3")]
    fr = [t.frame(i) for i in ids]
    more = [t.vid({"n": j}) for j in range(28)]

    def raised(f, k):
        return struct.pack("<i", len(f) - 4 + k) + f[4:]
    shapes = [
        ("A-swallow-next", [raised(fr[0], len(fr[1])), fr[1], fr[2]], ids, 0),
        ("A-swallow-two", [raised(fr[0], len(fr[1]) + len(fr[2])), fr[1], fr[2]], ids, 0),
        ("A-second-frame", [fr[0], raised(fr[1], len(fr[2])), fr[2]], ids, 1),
        ("B-one-byte", [raised(fr[0], 1), fr[1], fr[2]] + [t.frame(i) for i in more], ids + more, 0),
        ("B-three-bytes", [raised(fr[0], 3), fr[1], fr[2]], ids, 0),
        ("last-frame-plus-junk", [fr[0], raised(fr[1], 2), b"ZZ"], ids[:2], 1),
    ]
    out = []
    for name, parts, sent, bad in shapes:
        stream = b"".join(parts)
        pos = sum(len(x) for x in parts[:bad])
        cls, info = F.classify_bad(t, stream, pos)
        for split in (None, pos + 4, len(stream) // 2):
            chunks = [stream] if split is None else [stream[:split], stream[split:]]
            c = F.reader_case(env, "witness-d83-" + name, sent, stream, [[ch] for ch in chunks if ch],
                              {"mon": "corrupt", "sent": sent, "bad": bad, "class": cls, "how": name,
                               "then": info[0] if info else None})
            if info:
                F.add_msg(env, c, info[0])
            out.append(c)
    return out


def run(ctx):
    cov = {}
    res = {"cases": 0, "distinct": 0, "coverage": cov, "samples": [], "disagreements": [], "violations": []}
    with F.Env(ctx.repo, cov) as env:
        cases = witness_cases(env)
        tripped = 0
        for c in cases:
            r = env.run_real(c)
            res["cases"] += 1
            cov["class:" + c["expect"]["class"]] = cov.get("class:" + c["expect"]["class"], 0) + 1
            viol = F.monitor(env, c, r, ctx.rng("d83"))
            if viol:
                tripped += 1
            for x in viol:
                x["signature"] = x["signature"].replace("undecodable-frame", "length-overrun")
                if x["signature"] not in [y["signature"] for y in res["violations"]]:
                    x["what"] = "length field raised: " + x["what"]
                    x["replay"] = F.public_case(env, c)
                    res["violations"].append(x)
        res["distinct"] = len(cases)
        cov["witness_cases_tripped"] = tripped
        pc = F.public_case(env, cases[0])
        pc.pop("vals", None)
        res["samples"].append(pc)
    return res


def replay(ctx, violation):
    return F.replay(ctx, violation)
