"""D84: a SIGKILL of the node does not kill its forked dump writer; the orphan goes on with `<dump>.tmp` in the
middle of the life of the NEXT incarnation, which uses the same temp file.

Real processes, real fork, real files (single journaled node, `useFork=True`, no network; virtual clock inside the node
processes so that the run takes no wall-clock waits):
  P1  5 x inc() answered SUCCESS; compaction starts: the fork child has opened `<dump>.tmp` and is held while pickling
      (a flag file; think of a state that takes long to pickle); P1 is killed with SIGKILL by this harness.  The child
      lives on, re-parented.
  P2  starts on the same files, 3 x inc() answered SUCCESS, compacts: opens `<dump>.tmp` — the very inode the orphan holds
      open —, writes, renames it to the dump, trims the journal to it, stops cleanly.
  then the orphan is released: it writes its OLDER state into the file it holds open — by now the dump file — and tries
      its own rename.
  P3  starts on the same files.  Property (C06/C09): it rebuilds value 8 = everything acknowledged; the dump on disk is one
      complete snapshot that covers the journal head.

Run as a script (`python d84_orphan_dump_writer.py <mode> <dir> <repo>`) this file is the node process.
"""
import json
import os
import signal
import subprocess
import sys
import time

PROPERTIES = ["C06", "C09"]
ORDER = 10

SIG = "serializer.dump:orphan-writer-clobbers-later-dump"


# ------------------------------------------------------------------------------------------------
# node process
# ------------------------------------------------------------------------------------------------
def node_process(mode, d, repo):
    sys.path.insert(0, repo)
    import logging
    logging.disable(logging.CRITICAL)
    import pysyncobj.serializer as serializer_mod
    import pysyncobj.syncobj as so
    from pysyncobj import SyncObj, SyncObjConf, replicated, FAIL_REASON
    from pysyncobj.node import Node
    from pysyncobj.transport import Transport
    clock = [1000.0]
    for m in list(sys.modules.values()):
        if getattr(m, "__name__", "").startswith("pysyncobj") and hasattr(m, "monotonicTime"):
            m.monotonicTime = lambda: clock[0]

    class FakeTransport(Transport):
        def __init__(self):
            Transport.__init__(self, None, None, [])

        @property
        def ready(self):
            return True

        def send(self, node, message):
            return True

    class Counter(SyncObj):
        def __init__(self):
            conf = SyncObjConf(autoTick=False, journalFile=os.path.join(d, "j.bin"), fullDumpFile=os.path.join(d, "d.bin"),
                               useFork=True, logCompactionMinEntries=10 ** 6, logCompactionMinTime=10 ** 6)
            super(Counter, self).__init__("n1", [], conf, nodeClass=Node, transport=FakeTransport())
            self.value = 0

        @replicated
        def inc(self):
            self.value += 1
            return self.value

    def run_until(o, cond, ticks=4000):
        for _ in range(ticks):
            if cond():
                return True
            clock[0] += 0.05
            o.doTick(0.0)
            if getattr(o, "_SyncObj__serializer")._Serializer__pid > 0:
                time.sleep(0.002)            # a real dump child is running: give it real time
        return cond()

    def incs(o, n):
        acked = []
        for _ in range(n):
            o.inc(callback=lambda res, err: acked.append(err))
        assert run_until(o, lambda: len(acked) == n) and acked == [FAIL_REASON.SUCCESS] * n, acked

    out = {}
    if mode == "p1":
        parent = os.getpid()
        real_dump = serializer_mod.pickle.dump

        def slow_dump(obj, f, *a):
            if os.getpid() != parent:       # the forked dump writer: pickling takes a while
                with open(os.path.join(d, "orphan.pid"), "w") as pf:
                    pf.write(str(os.getpid()))
                os.rename(os.path.join(d, "orphan.pid"), os.path.join(d, "orphan.pid.ready"))
                deadline = time.time() + 60
                while not os.path.exists(os.path.join(d, "release")) and time.time() < deadline:
                    time.sleep(0.01)
            return real_dump(obj, f, *a)
        serializer_mod.pickle.dump = slow_dump
        o = Counter()
        assert run_until(o, o._isLeader)
        incs(o, 5)
        run_until(o, lambda: False, ticks=40)        # commit index reaches the .meta file
        o.forceLogCompaction()
        while True:                                   # ticks on until it is killed
            clock[0] += 0.05
            o.doTick(0.0)
            time.sleep(0.005)
    elif mode == "p2":
        o = Counter()
        assert run_until(o, lambda: o._isLeader() and o.raftLastApplied >= 8)
        out["value_at_start"] = o.value
        incs(o, 3)
        o.forceLogCompaction()
        assert run_until(o, lambda: o._getRaftLogSize() == 2), o._getRaftLogSize()
        run_until(o, lambda: False, ticks=40)
        out.update(value=o.value, applied=o.raftLastApplied, log_head=o._SyncObj__raftLog[0][1])
        o.destroy()
    elif mode == "p3":
        o = Counter()
        run_until(o, lambda: o._isLeader() and o.value >= 8, ticks=400)
        log = o._SyncObj__raftLog
        out.update(value=o.value, applied=o.raftLastApplied, log=[log[0][1], log[-1][1]])
        o.destroy()
    print("RESULT " + json.dumps(out))


# ------------------------------------------------------------------------------------------------
# harness side
# ------------------------------------------------------------------------------------------------
def _spawn(mode, d, repo, wait=True):
    env = dict(os.environ)
    env.pop("PYTHONPATH", None)
    p = subprocess.Popen([sys.executable, os.path.abspath(__file__), mode, d, repo], env=env,
                         stdout=subprocess.PIPE, stderr=subprocess.STDOUT, universal_newlines=True)
    if not wait:
        return p
    out, _ = p.communicate(timeout=120)
    res = None
    for line in out.splitlines():
        if line.startswith("RESULT "):
            res = json.loads(line[7:])
    return p.returncode, res, out[-800:]


def _alive(pid):
    try:
        os.kill(pid, 0)
        return True
    except OSError:
        return False


def _dump_pos(repo, fn):
    sys.path.insert(0, repo) if repo not in sys.path else None
    from pysyncobj.serializer import Serializer
    if not os.path.exists(fn):
        return None
    try:
        return Serializer(fn, 16, False, None, None, None).deserialize()[1][1]
    except Exception as e:
        return "unreadable: " + type(e).__name__


def scenario(repo, d):
    notes, viols = {}, []
    if not hasattr(os, "fork"):
        return [], {"note": "no fork on this platform"}
    orphan = None
    try:
        p1 = _spawn("p1", d, repo, wait=False)
        deadline = time.time() + 60
        while not os.path.exists(os.path.join(d, "orphan.pid.ready")):
            if time.time() > deadline or p1.poll() is not None:
                return [], {"note": "P1 did not start a dump writer", "p1": p1.stdout.read()[-600:] if p1.poll() is not None else ""}
            time.sleep(0.02)
        orphan = int(open(os.path.join(d, "orphan.pid.ready")).read())
        os.kill(p1.pid, signal.SIGKILL)              # the kill of C06; the dump writer survives it
        p1.wait()
        notes["orphan_alive_after_kill"] = _alive(orphan)
        rc, r2, tail = _spawn("p2", d, repo)
        if rc != 0 or not r2:
            return [], {"note": "P2 failed", "tail": tail}
        notes["p2"] = r2
        notes["dump_position_after_p2"] = _dump_pos(repo, os.path.join(d, "d.bin"))
        with open(os.path.join(d, "release"), "w"):
            pass                                      # the orphan gets on with its work
        deadline = time.time() + 30
        while _alive(orphan) and time.time() < deadline:
            time.sleep(0.02)
        notes["orphan_exited"] = not _alive(orphan)
        notes["dump_position_after_orphan"] = _dump_pos(repo, os.path.join(d, "d.bin"))
        rc, r3, tail = _spawn("p3", d, repo)
        notes["p3"] = r3 if r3 else {"tail": tail}
        dp = notes["dump_position_after_orphan"]
        ok = bool(r3) and r3.get("value") == 8 and dp == notes["dump_position_after_p2"]
        if not ok:
            viols.append({"signature": SIG,
                          "what": "P1 (5 acknowledged increments) was SIGKILLed while its fork dump writer was pickling; the writer "
                                  "survived. P2 acknowledged 3 more, compacted (dump at position %s, journal head %s) and stopped. The "
                                  "orphan then finished: the dump file is now %s. P3 rebuilt %s instead of value 8"
                                  % (notes["dump_position_after_p2"], r2.get("log_head"),
                                     "at position %s" % dp if isinstance(dp, int) else dp, r3)})
    finally:
        if orphan is not None and _alive(orphan):
            try:
                os.kill(orphan, signal.SIGKILL)
            except OSError:
                pass
    return viols, notes


def run(ctx):
    from harness.witness._common import result, tag
    t0 = time.time()
    viols, notes = scenario(ctx.repo, ctx.tmpdir())
    r = result("witness.d84_orphan_dump_writer", tag(viols, "d84_orphan_dump_writer", {}), notes, t0)
    if not viols and hasattr(os, "fork") and (notes.get("note") or not notes.get("orphan_alive_after_kill")):
        r["inconclusive"] = "D84 witness did not reach the orphan stage: %s" % notes
    return r


def replay(ctx, violation):
    viols, notes = scenario(ctx.repo, ctx.tmpdir())
    return {"violated": bool(viols), "violations": viols, "notes": notes}


if __name__ == "__main__":
    node_process(sys.argv[1], sys.argv[2], sys.argv[3])
