"""D7 (C11): the chunk loop of `__sendAppendEntries` labelled a chunk `finish` by comparing with the length of the
COMMAND while it iterates over the PICKLED entry (longer by the pickle overhead): for argument sizes in a band below
each multiple of `appendEntriesBatchSizeBytes` the follower unpickled a truncated string -> EOFError / IndexError /
TypeError escape message handling, the command never reaches the follower.
Schedule: 2 nodes, batch 1000 B, one replicated call per size in and around the band (1900..1990 step 7 + control
sizes); monitors = the C11 statement: every replica executes the call exactly once with equal arguments, no
exception escapes doTick / message handling."""
import time
from harness.sim import Sim
from harness.witness._common import result, tag

PROPERTIES = ["C11"]
ORDER = 10

SIG = "syncobj.sendAppendEntries:premature-finish-chunk"
SIZES = [1800] + list(range(1900, 1991, 7)) + [2930, 2950, 3100]


def scenario(repo, sizes=SIZES, batch=1000):
    sim = Sim(repo, ["a", "b"], conf={"appendEntriesBatchSizeBytes": batch}, seed=7)
    sim.connect_all()
    L = sim.elect()
    assert L is not None
    sim.run(3)
    viols, bad = [], []
    for n in sizes:
        before = len(sim.errors)
        arg = ("%d:" % n) + "x" * n
        sim.submit(L, arg)
        sim.run(10)
        got = [[x for (_, x) in sim.execs[i] if x == arg] for i in sim.voters]
        if len(sim.errors) > before or any(len(g) != 1 for g in got):
            bad.append((n, sorted(set(e[1] for e in sim.errors[before:])), [len(g) for g in got]))
    if bad:
        viols.append({"signature": SIG,
                      "what": "batch %d: argument sizes %s: exceptions %s escaped message handling / executions per replica %s"
                              % (batch, [b[0] for b in bad][:12], bad[0][1], bad[0][2])})
    return sim, viols, bad


def run(ctx):
    t0 = time.time()
    sim, viols, bad = scenario(ctx.repo)
    return result("witness.d07_chunk_finish_band", tag(viols, "d07_chunk_finish_band", {}),
                  {"sizes": SIZES, "bad_sizes": [b[0] for b in bad]}, t0, {"sizes": len(SIZES)})


def replay(ctx, violation):
    sim, viols, bad = scenario(ctx.repo)
    return {"violated": bool(viols), "violations": viols, "bad": bad[:10]}
