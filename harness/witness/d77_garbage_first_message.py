"""Witness D77 (C14, C13): the first frame of an unknown incoming connection comes from whoever connected.  On the
unrepaired tree a dict, a list that is no registered utility command, `[]`, a set ... make an exception escape from the
poll callback (`message in self._nodeAddrToNode` hashes the message: TypeError; `message[0]` on `[]`: IndexError): the
rest of the poll pass and of the tick is skipped and the connection is neither closed nor forgotten.  Expected: every
first frame that is not a member's address, 'readonly' or a well-formed known utility command closes the connection,
nothing is delivered, nothing raises.  Real TCPTransport / TcpConnection / TcpServer on the fake socket fabric."""
PROPERTIES = ["C14", "C13"]
ORDER = 10

from harness.corr import transport_fabric as tf
from harness.corr import transport_registry as tr

SIG = "transport.handshake:garbage-first-frame-raises-out-of-poll"


def _one(repo, idx):
    r = tr.Runner(repo, None, {"n": 2, "retry": 2048, "timeout": 4096}, diff=False)
    try:
        tr.run_actions(r, [["tick", 0, []], ["sconn", 0], ["accept", 0], ["ssend", 0, ["arb", idx]],
                           ["dlv", 0, 0, 99, False, False]])
        sim = r.sim
        t = sim.transports[0]
        raised = [v["what"] for v in r.violations if v["signature"] == "transport.poll:exception-escapes-event-loop"]
        conn = sim.conn_objs[0][0]
        return {"value": repr(tf.ARB[idx]), "raised": bool(raised), "what": raised[:1],
                "still_unknown": conn in t._unknownConnections, "state": conn.state,
                "delivered": [d for d in sim.deliveries]}
    finally:
        r.close()


def _run(repo):
    res = [_one(repo, idx) for idx in range(len(tf.ARB))]
    # ['status', ...] is a well-formed known utility command: it legitimately leaves the connection open (None is an
    # ordinary value since D75: it names nobody, the connection is closed)
    legit_open = (repr(["status", "x"]),)
    bad = [x for x in res if x["raised"] or x["delivered"] or
           (x["value"] not in legit_open and (x["still_unknown"] or x["state"] != 0))]
    return res, bad


def run(ctx):
    res, bad = _run(ctx.repo)
    out = {"cases": len(res), "distinct": len(res), "disagreements": [], "violations": [],
           "coverage": {"first_frames": [x["value"] for x in res], "raising": [x["value"] for x in bad if x["raised"]]},
           "samples": res[:2]}
    if bad:
        out["violations"].append({
            "signature": SIG,
            "what": "first frame %s from a non-member: %s; connection afterwards: state %d, still in "
                    "_unknownConnections: %s (%d of %d garbage values misbehave)"
                    % (bad[0]["value"], (bad[0]["what"] or ["no exception"])[0], bad[0]["state"], bad[0]["still_unknown"],
                       len(bad), len(res)),
            "replay": {"witness": "d77"}})
    return out


def replay(ctx, violation):
    res, bad = _run(ctx.repo)
    return {"violated": bool(bad), "misbehaving": bad[:5]}
