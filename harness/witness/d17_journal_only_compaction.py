"""D17: journalFile WITHOUT fullDumpFile + log compaction.  Compaction (automatic after logCompactionMinTime /
logCompactionMinEntries, or forced) serialises the state to memory only and drops the head of the journal;
a snapshot received from the leader replaces the journal by the snapshot's two entries.  After a restart
there is no dump to load: `raftLastApplied = 1` while the journal starts at k > 2, `__getEntries(2, ...)`
returns [] for ever — the node never applies anything again (its state stays empty, callbacks never fire)
although it keeps acknowledging entries and may even be elected.
Two replays on real journaled nodes (journal only, `useFork` False):
  (1) a follower compacts its own log, is killed and restarted;
  (2) a follower that missed entries receives the leader's snapshot, is killed and restarted.
No violation on a tree where a journal always has a dump file next to it (fixes/D17-*.diff)."""
import time
from harness.sim import Sim
from harness.witness._common import result, tag

PROPERTIES = ["C06", "C09"]
ORDER = 10

SIGNATURE = "restart:journal-only-compaction-wedges"


def _wedged(sim, F, how):
    o = sim.objs[F]
    first = sim.log_of(F)[0][0]
    peers = [sim.objs[i].raftLastApplied for i in sim.voters if i != F]
    if o.raftLastApplied + 1 < first:
        return [{"signature": SIGNATURE,
                 "what": "node %s (journalFile without fullDumpFile) %s, was killed and restarted: after 40 more rounds applied=%d, "
                         "commit=%d, journal %d..%d, state %r — entries %d..%d are nowhere, nothing is ever applied again "
                         "(the other nodes applied up to %s)"
                         % (F, how, o.raftLastApplied, o.raftCommitIndex, first, sim.last_index(F), list(o.log),
                            o.raftLastApplied + 1, first - 1, peers)}]
    if o.raftLastApplied < min(peers):
        return [{"signature": "restart:state-not-replay-of-committed-prefix",
                 "what": "node %s %s and restarted: applied=%d, the others %s" % (F, how, o.raftLastApplied, peers)}]
    return []


def own_compaction(repo, tmpdir, seed=1):
    sim = Sim(repo, ["a", "b", "c"], seed=seed, journal_dir=tmpdir, dump=False, conf={"useFork": False})
    sim.connect_all()
    L = sim.elect()
    F = [i for i in sim.voters if i != L][0]
    for k in range(6):
        sim.submit(L, "k%d" % k)
    sim.run(10)
    sim.compact(F)
    sim.tick(F, 0.0625)            # serialised (to memory)
    sim.tick(F, 0.0625)            # journal head dropped
    sim.run(20)
    sim.kill(F)
    sim.restart(F)
    for j in sim.voters:
        if j != F:
            sim.connect(F, j)
    for k in range(6, 9):
        sim.submit(L, "k%d" % k)
    sim.run(40)
    return sim, _wedged(sim, F, "compacted its log")


def snapshot_install(repo, tmpdir, seed=1):
    sim = Sim(repo, ["a", "b", "c"], seed=seed, journal_dir=tmpdir, dump=False,
              conf={"useFork": False, "logCompactionBatchSize": 64})
    sim.connect_all()
    L = sim.elect()
    F = [i for i in sim.voters if i != L][0]
    rest = [i for i in sim.voters if i != F]
    sim.submit(L, "s0")
    sim.run(6)
    for j in rest:
        sim.disconnect(F, j)
    for k in range(1, 6):
        sim.submit(L, "s%d" % k)
    sim.run(8, among=rest)
    sim.compact(L)
    sim.run(3, among=rest)
    if sim.leader(rest) != L:
        return sim, []
    for j in rest:
        sim.connect(F, j)
    sim.run(12)
    how = "received the leader's snapshot (journal now %d..%d)" % (sim.log_of(F)[0][0], sim.last_index(F))
    sim.run(20)
    sim.kill(F)
    sim.restart(F)
    for j in rest:
        sim.connect(F, j)
    sim.submit(L, "s6")
    sim.run(40)
    return sim, _wedged(sim, F, how)


def scenario(repo, tmpdir_a, tmpdir_b):
    s1, v1 = own_compaction(repo, tmpdir_a)
    s2, v2 = snapshot_install(repo, tmpdir_b)
    return (s1, s2), v1 + v2


def run(ctx):
    t0 = time.time()
    sims, viols = scenario(ctx.repo, ctx.tmpdir(), ctx.tmpdir())
    r = result("witness.d17_journal_only_compaction", tag(viols, "d17_journal_only_compaction", {}),
               {"schedule_events": [len(s.trace) for s in sims]}, t0)
    r["cases"] = r["distinct"] = 2
    return r


def replay(ctx, violation):
    import shutil
    a, b = ctx.tmpdir(), ctx.tmpdir()
    try:
        sims, viols = scenario(ctx.repo, a, b)
    finally:
        shutil.rmtree(a, ignore_errors=True)
        shutil.rmtree(b, ignore_errors=True)
    return {"violated": bool(viols), "violations": viols[:5], "tree": ctx.repo}
