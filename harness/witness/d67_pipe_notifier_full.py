"""D67 (C19): with `appendEntriesUseBatch=False` every replicated call wakes the tick thread by writing one byte to a
non-blocking pipe (`PipeNotifier.notify`).  The tick thread empties the pipe when it gets round to it; while it is busy
(a slow command, a snapshot written in-process) callers keep writing.  The command queue admits 100000 commands by
default, the pipe 65536 bytes (the kernel's default; smaller where the limit was lowered): once the pipe is full,
`os.write` fails with EAGAIN and `BlockingIOError` leaves the replicated call in the caller's thread — although the
command is ALREADY in the queue.  It is applied, its callback fires with SUCCESS, and the call itself raised something
that is neither a failure reason nor 'Timeout' (C19: "every call is applied exactly once or reported as failed ... each
synchronous call returns the result of its own command or raises with the failure reason or 'Timeout'").

Schedule (deterministic, no threads needed): one voter that is leader of itself; its notification pipe shrunk to one
page (F_SETPIPE_SZ, so that the run takes milliseconds; with the default size the same happens at call 65537);
N = pipe size + 50 calls with callbacks and no tick in between — the tick thread is "busy"; then ticks.  Monitor: no
call raises; every call's callback fires exactly once; the commands are applied exactly once, in order."""
import fcntl
import time

from harness.sim import Sim
from harness.witness._common import result, tag

PROPERTIES = ["C19"]
ORDER = 10

SIG = "pipe-notifier:call-raises-when-wakeup-pipe-is-full"
F_SETPIPE_SZ, F_GETPIPE_SZ = 1031, 1032


def scenario(repo, shrink=True, extra=50):
    sim = Sim(repo, ["a"], conf={"appendEntriesUseBatch": False, "commandsQueueSize": 100000}, seed=3)
    L = sim.elect(among=["a"])
    assert L == "a"
    o = sim.objs["a"]
    pn = getattr(o, "_SyncObj__pipeNotifier", None)
    info = {"pipe_notifier": pn is not None}
    if pn is None:
        return sim, [], info
    w = getattr(pn, "_PipeNotifier__pipeW")
    if shrink:
        try:
            fcntl.fcntl(w, F_SETPIPE_SZ, 4096)
        except OSError:
            pass
    size = fcntl.fcntl(w, F_GETPIPE_SZ)
    sim.run(3)                                   # the pipe is drained: the backlog starts at zero
    n = size + extra
    before = len(sim.errors)
    cids = []
    for k in range(n):
        cids.append(sim.submit("a", k))
    errs = sim.errors[before:]
    sim.run(40)
    viols = []
    if errs:
        (node, typ, txt, tb) = errs[0]
        fired = sum(1 for c in sim.callbacks if c[1] in set(cids))
        viols.append({"signature": SIG,
                      "what": "wake-up pipe of %d bytes, %d calls while the tick thread is busy: %d of them raised %s(%s) in the "
                              "caller although the command was queued (%d callbacks fired afterwards, %d commands applied)"
                              % (size, n, len(errs), typ, txt, fired, len(sim.execs["a"]))})
    else:
        per = {}
        for c in sim.callbacks:
            per[c[1]] = per.get(c[1], 0) + 1
        bad = [c for c in cids if per.get(c, 0) != 1]
        applied = [x for (_, x) in sim.execs["a"] if isinstance(x, int)]
        if bad:
            viols.append({"signature": "pipe-notifier:callback-count", "what": "%d of %d calls did not get exactly one callback"
                          % (len(bad), n)})
        if applied != list(range(n)):
            viols.append({"signature": "pipe-notifier:apply-order", "what": "applied %d commands, expected %d in submission order"
                          % (len(applied), n)})
    info.update({"pipe_size": size, "calls": n, "raised": len(errs), "applied": len(sim.execs["a"])})
    return sim, viols, info


def run(ctx):
    t0 = time.time()
    sim, viols, info = scenario(ctx.repo)
    r = result("witness.d67_pipe_notifier_full", tag(viols[:2], "d67_pipe_notifier_full", {}), info, t0)
    if not info.get("pipe_notifier"):
        r["inconclusive"] = "no pipe notifier on this node"
    return r


def replay(ctx, violation):
    sim, viols, info = scenario(ctx.repo)
    return {"violated": bool(viols), "violations": viols, "info": info}
