"""D1: follower deletes acknowledged entries on a stale (re-sent) append_entries; leader has already
counted them -> committed + SUCCESS-acknowledged commands are lost after a leader change.
Schedule: 3 nodes, batch 250 B, 9 commands of ~100 B -> several batches; only the first reply reaches
the leader before it re-sends; then the remaining replies commit everything; the follower processes only
the first re-sent batch (truncating behind it) and the connection drops; follower + third node elect."""
import time
from harness.sim import Sim
from harness import monitors
from harness.witness._common import result, tag

PROPERTIES = ["C01", "C02", "C03", "C04"]
ORDER = 10


def scenario(repo, seed=1):
    sim = Sim(repo, ["a", "b", "c"], conf={"appendEntriesBatchSizeBytes": 250}, seed=seed)
    watch = monitors.CommitWatch(sim)
    sim.connect_all()
    L = sim.elect()
    assert L is not None
    F, P = [i for i in sim.voters if i != L]
    sim.run(4)
    sim.disconnect(L, P)
    sim.disconnect(F, P)
    cids = [sim.submit(L, "c%d" % k + "x" * 90) for k in range(9)]
    sim.tick(L, 0.0625)
    sim.tick(L, 0.125)
    while sim.deliver(L, F):
        pass
    watch.step()
    sim.deliver(F, L)                # only the first reply
    sim.tick(L, 0.25)                # leader re-sends from the regressed nextIndex
    while sim.deliver(F, L):         # remaining replies: matchIndex reaches the end
        pass
    sim.tick(L, 0.0625)              # leader commits, applies, fires SUCCESS
    watch.step()
    acked = [c for (n, c, r, e) in sim.callbacks if e == 0]
    sim.deliver(L, F)                # follower gets only the first re-sent batch
    watch.step()
    sim.disconnect(L, F)
    sim.connect(F, P)
    N = sim.elect(among=[F, P])
    if N is not None:
        sim.submit(N, "NEW")
        sim.run(10, among=[F, P])
    watch.step()
    viols = watch.out + monitors.sm_safety(sim) + monitors.callbacks_contract(sim)
    # C02/C03 statement: a command acknowledged with SUCCESS is never undone / the new leader holds it
    if N is not None:
        held = set(cmd for (_, _, cmd) in sim.log_of(N))
        execd = set(x for (_, x) in sim.execs[N])
        lost = []
        for ev in sim.trace:
            if ev[0] == "submit" and ev[4] in acked and ev[2] not in execd:
                lost.append(ev[2][:3])
        if lost:
            viols.append({"signature": "leader-completeness:acked-command-missing-on-new-leader",
                          "what": "commands %s were acknowledged with SUCCESS by %s but new leader %s (term %d) never applies them"
                                  % (lost, L, N, sim.objs[N].raftCurrentTerm)})
    return sim, viols


def run(ctx):
    t0 = time.time()
    sim, viols = scenario(ctx.repo)
    return result("witness.d01_truncated_ack", tag(viols, "d01_truncated_ack", {}),
                  {"schedule_events": len(sim.trace), "acked": len([1 for c in sim.callbacks if c[3] == 0])}, t0)


def replay(ctx, violation):
    sim, viols = scenario(ctx.repo)
    return {"violated": bool(viols), "violations": viols[:5], "trace_len": len(sim.trace)}
