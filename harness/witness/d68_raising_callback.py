"""D68 (C01, C02; C10 for the second site): the submitter's callback is called from inside the apply loop, between the execution of the command
and `__raftLastApplied += 1`.  A callback that raises leaves `__applyLogEntries` (and the tick) at that point: the
command HAS been executed, the position is not counted as applied, and the next tick executes the same position again
- on that node only ("no node ... repeats ... a position", C01; "the command occupies exactly one position ... applied
at most once", C02).  The replicas differ from then on.

Schedule: 3 voters; a command is submitted at the leader (and, second case, at a follower, which gets the callback
when it applies the forwarded command) with a callback that raises.  Monitor: every node executes the command exactly
once; all states are equal; a later command is applied everywhere.

Second site (judged under C10): the callbacks that a snapshot install answers with LEADER_CHANGED are called BEFORE
the member set and the code version of the snapshot are taken over; a raising one left the install half done."""
import time

from harness.sim import Sim
from harness.witness._common import result, tag

PROPERTIES = ["C01", "C02", "C10"]
ORDER = 10

SIG = "apply-loop:position-executed-twice-after-raising-callback"


def scenario(repo, at="leader"):
    sim = Sim(repo, ["a", "b", "c"], seed=5)
    sim.connect_all()
    L = sim.elect()
    assert L is not None
    who = L if at == "leader" else [v for v in sim.voters if v != L][0]
    sim.submit(L, "w0")
    sim.run(8)
    fired = []

    def cb(res, err):
        fired.append((res, err))
        raise RuntimeError("callback of the application failed")
    sim._call(who, sim.objs[who].add, "X", callback=cb)
    sim.run(12)
    sim.submit(L, "w1")
    sim.run(12)
    viols = []
    counts = dict((n, [x for (_, x) in sim.execs[n]].count("X")) for n in sim.voters)
    states = dict((n, list(sim.state(n))) if hasattr(sim, "state") else (n, None) for n in sim.voters)
    if any(c != 1 for c in counts.values()):
        viols.append({"signature": SIG,
                      "what": "command X submitted at the %s %s with a callback that raises (called %d time(s)): executed %s times "
                              "on the nodes (expected once everywhere)" % (at, who, len(fired), counts)})
    later = dict((n, [x for (_, x) in sim.execs[n]].count("w1")) for n in sim.voters)
    if any(c != 1 for c in later.values()) and not viols:
        viols.append({"signature": "apply-loop:later-command-not-applied-once-after-raising-callback",
                      "what": "after a raising callback for X at %s the later command w1 ran %s times" % (who, later)})
    return sim, viols, {"at": at, "who": who, "leader": L, "callback_calls": len(fired), "X_executions": counts,
                        "w1_executions": later}


def scenario_discarded(repo):
    """The same for the DISCARDED answer: a deposed leader holds uncommitted commands whose callbacks raise when told of
    a failure (the `assert err == SUCCESS` style); the new leader commits other commands at those positions; when the
    old leader applies them it tells its subscribers DISCARDED - from inside the apply loop."""
    sim = Sim(repo, ["a", "b", "c"], seed=6)
    sim.connect_all()
    L = sim.elect()
    assert L is not None
    others = [v for v in sim.voters if v != L]
    sim.submit(L, "w0")
    sim.run(8)
    for j in others:
        sim.cut(L, j)
    fired = []

    def strict(res, err):
        fired.append(err)
        if err != 0:
            raise RuntimeError("command failed: %r" % (err,))
    for k in range(2):
        sim._call(L, sim.objs[L].add, "lost%d" % k, callback=strict)
    sim.tick(L, 0.0625)
    N = None
    for _ in range(300):
        sim.run(1, among=others)
        N = sim.leader(others)
        if N is not None:
            break
    assert N is not None
    sim.submit(N, "n0")
    sim.submit(N, "n1")
    sim.run(10, among=others)
    for j in others:
        sim.connect(L, j)
    sim.run(30)
    counts = dict((n, [x for (_, x) in sim.execs[n]].count("n0") + [x for (_, x) in sim.execs[n]].count("n1")) for n in sim.voters)
    viols = []
    if any(c != 2 for c in counts.values()) or len(set(tuple(sim.objs[n].log) for n in sim.voters)) != 1:
        viols.append({"signature": SIG,
                      "what": "deposed leader %s told the subscribers of its overwritten commands DISCARDED (callbacks raise on failure, "
                              "called %s): the new leader's commands n0, n1 were executed %s times on the nodes (expected 2 everywhere), "
                              "states %s" % (L, fired, counts, dict((n, list(sim.objs[n].log)[-4:]) for n in sim.voters))})
    return sim, viols, {"at": "discarded", "who": L, "callback_calls": len(fired), "counts": counts}


def scenario_snapshot(ctx):
    """The same callback, called from the snapshot install (the command's position is covered by the snapshot): a
    raising callback must not leave the install half done - the member set and the code version are set AFTER the
    callbacks.  5 voters; the victim waits for a forwarded command, is cut off, another member is removed and the
    others compact; the victim learns the removal only from the snapshot."""
    from harness.corr import c10_membership
    c, viols, note = c10_membership.directed_snapshot_removal(ctx, ctx.rng("d68"), raising_waiter=True)
    calls = len(getattr(c, "waiter_calls", []))
    return c.sim, viols, {"at": "snapshot", "note": note, "callback_calls": calls}


def run(ctx):
    t0 = time.time()
    viols, info = [], {"callback_calls": None}
    if ctx.pid != "C10":                 # C01/C02: the apply loop
        for at in ("leader", "follower"):
            sim, v, info = scenario(ctx.repo, at)
            viols += tag(v, "d68_raising_callback", {"at": at})
            if v:
                break
        if not viols:
            sim, v, info = scenario_discarded(ctx.repo)
            viols += tag(v, "d68_raising_callback", {"at": "discarded"})
    else:                                # C10: the member set after a snapshot install
        sim, v, info = scenario_snapshot(ctx)
        viols += tag(v, "d68_raising_callback", {"at": "snapshot"})
    r = result("witness.d68_raising_callback", viols[:2], info, t0)
    if info["callback_calls"] == 0 or info.get("note"):
        r["inconclusive"] = "the raising callback was never called (%s)" % info.get("note")
    return r


def replay(ctx, violation):
    at = violation.get("replay", {}).get("at", "leader")
    if at == "discarded":
        sim, viols, info = scenario_discarded(ctx.repo)
        return {"violated": bool(viols), "violations": viols, "info": info}
    if at == "snapshot":
        sim, viols, info = scenario_snapshot(ctx)
        return {"violated": bool(viols), "violations": viols, "info": info}
    sim, viols, info = scenario(ctx.repo, at)
    return {"violated": bool(viols), "violations": viols, "info": info}
