"""D87 (C02, C06): the repair of D60 drew the offset of the request ids of forwarded commands from the GLOBAL random
generator.  An application that seeds that generator at start-up (`random.seed(constant)`, common in anything that
wants reproducible behaviour elsewhere) gets the same ids in every run - exactly what the offset is there to rule out:
a late reply to a request of the previous run is then taken for the reply to a new request (D60's schedule).

Check: two runs of the same node that call `random.seed(4242)` before the node is created must start their request
ids at different values."""
import time

from harness.sim import Sim
from harness.witness._common import result, tag

PROPERTIES = ["C02", "C06"]
ORDER = 10

SIG = "restart:request-ids-repeat-under-a-seeded-generator"


def offsets(repo, seed):
    import random
    state = random.getstate()
    try:
        random.seed(seed)                    # what the application does at start-up
        sim = Sim(repo, ["a", "b"], seed=seed)
        return dict((n, sim.P(n, "commandsLocalCounter")) for n in sim.voters)
    finally:
        random.setstate(state)


def scenario(repo):
    first = offsets(repo, 4242)
    second = offsets(repo, 4242)            # "the process is started again and seeds the generator as before"
    viols = []
    same = [n for n in first if first[n] == second[n]]
    if same:
        viols.append({"signature": SIG,
                      "what": "two runs with the generator seeded alike: request ids of node(s) %s start at the same value in both runs "
                              "(%s): a reply to a request of the earlier run matches a request of the later one" % (same, first[same[0]])})
    return viols, {"first": first, "second": second}


def run(ctx):
    t0 = time.time()
    viols, info = scenario(ctx.repo)
    return result("witness.d87_seeded_request_ids", tag(viols, "d87_seeded_request_ids", {}), info, t0)


def replay(ctx, violation):
    viols, info = scenario(ctx.repo)
    return {"violated": bool(viols), "violations": viols, "info": info}
