"""D12: default arguments of the batteries.
  * `ReplList.pop()` without an argument: the parameter default was `None`, and `list.pop(None)` raises
    TypeError, while the docstring (and `list.pop()`) say "default last".
  * `ReplQueue(maxsize=0).full()` / `ReplPriorityQueue(maxsize=0).full()`: `len(data) == maxsize` is True
    for an EMPTY UNBOUNDED queue (and False for an over-full one); `queue.Queue(0).full()` is False.
  * D41: `ReplDict.setdefault(key)` without `default` raised TypeError (the parameter had no default), while
    `dict.setdefault(key)` returns None and stores it -- also when the key holds None / a falsy value already.
Repairs: fixes/D12-batteries-pop-default-and-full.diff, fixes/D41-repldict-setdefault-optional-default.diff.  The witness evaluates the property statement
(battery result == builtin result) on the real classes; nothing trips on a repaired tree."""
import queue
import time

from harness.corr.batteries_ops import load_batteries
from harness.witness._common import result, tag

PROPERTIES = ["C15"]
ORDER = 10


def _try(f):
    try:
        return f()
    except Exception as e:          # noqa: the class of the exception is the observation
        return "raises " + type(e).__name__


def scenario(repo):
    B = load_batteries(repo)
    viols, obs = [], {}
    # --- ReplList.pop() -------------------------------------------------------------------------
    for init in ([1, 2, 3], [7], []):
        l, ref = B.ReplList(), list(init)
        l.reset(list(init), _doApply=True)
        got, want = _try(lambda: l.pop(_doApply=True)), _try(lambda: ref.pop())
        obs["ReplList(%r).pop()" % (init,)] = [got, want]
        if got != want or l.rawData() != ref:
            viols.append({"signature": "batteries.ReplList.pop:no-argument-TypeError" if got == "raises TypeError"
                          else "batteries.ReplList.pop:no-argument-differs-from-list",
                          "what": "ReplList%r.pop() -> %s (contents %r); list%r.pop() -> %s (contents %r)"
                                  % (init, got, l.rawData(), init, want, ref)})
            break
    # --- ReplDict.setdefault(key) -----------------------------------------------------------------
    for init in ({}, {'a': None}, {'a': 0}, {'a': 5}):
        d, ref = B.ReplDict(), dict(init)
        d.reset(dict(init), _doApply=True)
        got, want = _try(lambda: d.setdefault('a', _doApply=True)), _try(lambda: ref.setdefault('a'))
        obs["ReplDict(%r).setdefault('a')" % (init,)] = [repr(got), repr(want)]
        if repr(got) != repr(want) or repr(d.rawData()) != repr(ref):
            viols.append({"signature": "batteries.ReplDict.setdefault:differs-from-builtin:TypeError" if got == "raises TypeError"
                          else "batteries.ReplDict.setdefault:differs-from-builtin:value",
                          "what": "ReplDict(%r).setdefault('a') -> %r (contents %r); dict(%r).setdefault('a') -> %r (contents %r)"
                                  % (init, got, d.rawData(), init, want, ref)})
            break
        got, want = _try(lambda: d.setdefault('a', 1, _doApply=True)), _try(lambda: ref.setdefault('a', 1))
        if repr(got) != repr(want) or repr(d.rawData()) != repr(ref):
            viols.append({"signature": "batteries.ReplDict.setdefault:differs-from-builtin:value",
                          "what": "ReplDict.setdefault('a', 1) on %r -> %r (contents %r); dict -> %r (contents %r)"
                                  % (init, got, d.rawData(), want, ref)})
            break
    # --- full() ----------------------------------------------------------------------------------
    for cname, ref_cls in (("ReplQueue", queue.Queue), ("ReplPriorityQueue", queue.PriorityQueue)):
        done = False
        for args in ((), (0,), (1,), (2,)):
            q, ref = getattr(B, cname)(*args), ref_cls(*args)
            for step in range(4):
                got, want = q.full(), ref.full()
                obs["%s%r.full() after %d puts" % (cname, args, step)] = [got, want]
                if got != want and not done:
                    done = True
                    unb = not args or args[0] == 0
                    viols.append({"signature": "batteries.%s.full:%s" % (cname, "unbounded-reports-full" if unb and got
                                                                         else "differs-from-queue"),
                                  "what": "%s%r.full() with %d items -> %r; queue.%s%r.full() -> %r"
                                          % (cname, args, step, got, ref_cls.__name__, args, want)})
                a = q.put(step, _doApply=True)
                try:
                    ref.put_nowait(step)
                    b = True
                except queue.Full:
                    b = False
                if a != b and not done:
                    done = True
                    viols.append({"signature": "batteries.%s.put:differs-from-queue" % cname,
                                  "what": "%s%r.put #%d -> %r; queue -> %r" % (cname, args, step, a, b)})
    return viols, obs


def run(ctx):
    t0 = time.time()
    viols, obs = scenario(ctx.repo)
    tag(viols, "d12_batteries_defaults", {})
    r = result("witness.d12_batteries_defaults", viols, {"observed_vs_builtin": dict(list(obs.items())[:6])}, t0)
    r["cases"] = r["distinct"] = len(obs)
    return r


def replay(ctx, violation):
    viols, obs = scenario(ctx.repo)
    same = [v for v in viols if v["signature"] == violation["signature"]]
    return {"violated": bool(same), "violations": viols, "observed_vs_builtin": obs}
