"""D75 witness (C13): Python's `None` (and every other falsy value) is a message like any other.

Pinned code: `__processParseMessage` returns `None` for "no complete frame" and the loop of `__processConnection`
tests `if message is None: break`, so a frame whose payload IS `None` is consumed, never delivered, and the frames
behind it stay in the read buffer until some later READ event: `send('a'); send(None); send('b'); send('c')`
delivers ['a'].  Repair: a private sentinel object for "no frame" (fixes/D75, /tmp/d75.diff).

Each case: one valid frame stream containing None / falsy messages, one or several READ events; judged by the
`valid` monitor of harness/corr/tcp_framing.py (delivered == sent, in order, connection up, nothing left).
"""
from harness.corr import tcp_framing as F

PROPERTIES = ["C13"]
ORDER = 10


def witness_cases(env):
    t = env.table
    a, b, c, n = t.vid("a"), t.vid("b"), t.vid("c"), t.vid(None)
    falsy = [t.vid(x) for x in (0, "", [], {}, None, False, b"", ())]
    out = []
    for name, ids in (("a-None-b-c", [a, n, b, c]), ("None-first", [n, a]), ("None-last", [a, n]),
                      ("None-None", [n, n, b]), ("falsy", falsy)):
        stream = b"".join(t.frame(i) for i in ids)
        for split in (None, 5, len(stream) // 2):
            chunks = [stream] if split is None else [stream[:split], stream[split:]]
            out.append(F.reader_case(env, "witness-d75-" + name, ids, stream, [[ch] for ch in chunks if ch],
                                     {"mon": "valid", "sent": ids}))
    return out


def run(ctx):
    cov = {}
    res = {"cases": 0, "distinct": 0, "coverage": cov, "samples": [], "disagreements": [], "violations": []}
    with F.Env(ctx.repo, cov) as env:
        cases = witness_cases(env)
        tripped = 0
        for c in cases:
            r = env.run_real(c)
            res["cases"] += 1
            viol = F.monitor(env, c, r, ctx.rng("d75"))
            if viol:
                tripped += 1
            for x in viol:
                x["signature"] = "tcp_connection.parse:none-message-swallowed" if \
                    x["signature"].startswith("tcp_connection.read:") else x["signature"]
                if x["signature"] not in [y["signature"] for y in res["violations"]]:
                    x["what"] = "None as a message: " + x["what"]
                    x["replay"] = F.public_case(env, c)
                    res["violations"].append(x)
        res["distinct"] = len(cases)
        cov["witness_cases_tripped"] = tripped
        pc = F.public_case(env, cases[0])
        pc.pop("vals", None)
        res["samples"].append(pc)
    return res


def replay(ctx, violation):
    return F.replay(ctx, violation)
