"""D21: a node on OLD code that restores a dump taken after the cluster switched to a version it does not have
(`_SyncObj__enabledCodeVersion` comes back through `__dict__`, no check) reported getCodeVersion()==1 with code
that only has version 0 and kept applying the entries after the snapshot (until an unknown method id raised
KeyError out of the tick) instead of stopping like a node that meets the VERSION entry in its log.

Replay: new code {f_v0, g_v0, g_v1} applies f, VERSION 1, g; dump; old code {f_v0, g_v0} loads the dump and is
handed two more committed entries (f -> id 0, g -> id 2)."""
import time

from harness.corr import versions_lib as L
from harness.corr import versions_apply as A
from harness.witness._common import result, tag

PROPERTIES = ["C17"]
ORDER = 10

NEW = {"objs": [[("f", 0, "r"), ("g", 0, "r"), ("g", 1, "r")]]}
OLD = {"objs": [[("f", 0, "r"), ("g", 0, "r")]]}
LOG = [[["noop"], 1, 0], [["reg", 1, 9101], 2, 1], [["ver", 1], 3, 1], [["reg", 2, 9102], 4, 1]]
MORE = [[["reg", 0, 9103], 5, 1], [["reg", 2, 9104], 6, 1]]
SCRIPT = [["node", "N", {"enabled": 0, "tableVer": 0, "lastApplied": 1, "commit": 4, "log": LOG, "waiting": []}],
          ["apply"], ["dump"], ["compact"], ["fresh", "O"], ["load", False], ["append", MORE], ["commit", 6],
          ["apply"], ["apply"]]


def scenario(ctx):
    ns = L.load(ctx.repo)
    clock = L.Clock(ns)
    try:
        R = A._run_script(ctx, ns, {"N": NEW, "O": OLD}, SCRIPT, "mem", 1)
    finally:
        clock.restore()
    viols = [v for v in R.viol if v["signature"] == A.SIG_BLOCKED]
    st = R.expect[-1][1][1]
    return viols, {"old_node_enabled": st["enabled"], "old_node_selfVer": st["selfVer"], "lastApplied": st["lastApplied"]}


def run(ctx):
    t0 = time.time()
    viols, sample = scenario(ctx)
    return result("D21-unsupported-version-after-dump", tag(viols, "d21", {}), sample, t0)


def replay(ctx, violation):
    viols, sample = scenario(ctx)
    ctx.cleanup()
    return {"violated": bool(viols), "violations": viols, "observed": sample}
