"""D81 (second half): an exception raised by `conf.onCodeVersionChanged` left `__doApplyCommand` AFTER the switch had been
made: it escaped the apply loop and the tick, `lastApplied` was not advanced, so the VERSION entry was applied again on
every tick (hook called with (1, 1)), the `setCodeVersion` callback - already taken off the waiting list - was lost,
and a hook that always raises wedged the node: nothing after the VERSION entry was ever applied.
C17: the switch is one event of the log (hook once per switch, calls after it use the new version); C12: a raising
piece of user code does not stall the node.

End to end on the real code (single-node cluster, real ticks): f(1); setCodeVersion(1, callback); ticks; f(2); ticks;
f(3), g(3) - once with a hook that raises the first time it is called, once with a hook that always raises."""
import random
import time

from harness.corr import versions_lib as L
from harness.witness._common import result, tag

PROPERTIES = ["C17", "C12"]
ORDER = 10

SIG_ESC = "syncobj.doApplyCommand:version-hook-exception-escapes-tick"
SIG_TWICE = "syncobj.doApplyCommand:version-entry-applied-more-than-once"
SIG_CB = "syncobj.doApplyCommand:setcodeversion-callback-not-fired-once"
SIG_STALL = "syncobj.doApplyCommand:raising-version-hook-stalls-node"
SPEC = {"objs": [[("f", 0, "r"), ("f", 1, "r")], [("g", 0, "r"), ("g", 1, "r")]]}


class HookError(Exception):
    pass


def one(ns, clock, src, always):
    seen = {"hook": [], "escaped": [], "answers": []}

    def hook(old, new):
        seen["hook"].append((old, new))
        if always or len(seen["hook"]) == 1:
            raise HookError("migration failed")

    b = L.build(ns, SPEC, src, {"raftMinTimeout": 0.5, "raftMaxTimeout": 1.0}, hook=hook)

    def ticks(n):
        for _ in range(n):
            clock.t += 0.5
            try:
                b.obj.doTick(0.0)
            except Exception as e:      # what the application's tick loop gets
                seen["escaped"].append(type(e).__name__)
    ticks(8)
    assert b.obj._isLeader()
    b.obj.f(1, callback=lambda *a: None)
    ticks(2)
    b.obj.setCodeVersion(1, callback=lambda res, err: seen["answers"].append((repr(res), err)))
    ticks(4)
    b.obj.f(2, callback=lambda *a: None)      # issued after the switch was (or should have been) applied
    ticks(4)
    b.obj.f(3, callback=lambda *a: None)
    b.consumers[0].g(3, callback=lambda *a: None)
    ticks(4)
    seen["ran"] = [list(r) for r in b.rec if r[0] == "ran"]
    seen["version"] = b.obj.getCodeVersion()
    seen["lastApplied"] = b.obj._SyncObj__raftLastApplied
    seen["log_end"] = b.obj._SyncObj__raftLog[-1][1]
    L.destroy(b)
    return seen


def scenario(ctx):
    ns = L.load(ctx.repo)
    clock = L.Clock(ns)
    src = L.source_of(SPEC, random.Random(1))
    out, viols = {}, []
    try:
        for label, always in (("raises_once", False), ("raises_always", True)):
            s = out[label] = one(ns, clock, src, always)
            if s["escaped"]:
                viols.append({"signature": SIG_ESC, "what": "%s: %d ticks raised %s out of doTick (hook calls %r)"
                                                            % (label, len(s["escaped"]), s["escaped"][0], s["hook"])})
            if len(s["hook"]) != 1 or s["hook"][0] != (0, 1):
                viols.append({"signature": SIG_TWICE, "what": "%s: one switch 0 -> 1 in the log, onCodeVersionChanged was called %d times: %r"
                                                              % (label, len(s["hook"]), s["hook"][:4])})
            if len(s["answers"]) != 1 or s["answers"][0][1] != 0:
                viols.append({"signature": SIG_CB, "what": "%s: the setCodeVersion callback fired %d times: %r" % (label, len(s["answers"]), s["answers"][:3])})
            want = [["ran", 0, "f", 0, 1], ["ran", 0, "f", 1, 2], ["ran", 0, "f", 1, 3], ["ran", 1, "g", 1, 3]]
            if s["ran"] != want or s["version"] != 1 or s["lastApplied"] != s["log_end"]:
                viols.append({"signature": SIG_STALL,
                              "what": "%s: commands after the switch: ran %r (expected %r), getCodeVersion()=%r, lastApplied %r of %r"
                                      % (label, s["ran"], want, s["version"], s["lastApplied"], s["log_end"])})
    finally:
        clock.restore()
    seen = {k: {kk: ([list(x) if isinstance(x, tuple) else x for x in vv] if isinstance(vv, list) else vv) for kk, vv in v.items()}
            for k, v in out.items()}
    return viols[:3], seen


def run(ctx):
    t0 = time.time()
    viols, sample = scenario(ctx)
    return result("D81-raising-version-hook", tag(viols, "d81", {}), sample, t0)


def replay(ctx, violation):
    viols, sample = scenario(ctx)
    ctx.cleanup()
    return {"violated": bool(viols), "violations": viols, "observed": sample}
