"""D71: the enabled code version can go DOWN. `setCodeVersion` compares the request only with the version APPLIED so
far on the requesting node, and the VERSION branch of `__doApplyCommand` had no check: `o.setCodeVersion(2);
o.setCodeVersion(1)` before the next tick (or requests from two nodes at the same time) are both accepted and logged
in that order; the hook fires (0, 2) then (2, 1), getCodeVersion() ends at 1 and calls go back to older
implementations. C17: "requests to enable an unsupported or lower version are rejected".

Two replays on the real code:
  (a) end to end - single-node cluster, real ticks: f(1); setCodeVersion(2); setCodeVersion(1) back to back; f(3);
  (b) what every replica does with such a log - injected log `2:f 3:VERSION 2 4:VERSION 1 5:f`, subscribers on 3 and 4.
Monitor (property text): along the applied log the enabled version of a node never decreases; the request for a version
lower than one ahead of it in the log is not applied and its callback does not report plain success; calls after it
run the implementation of the higher version."""
import random
import time

from harness.corr import versions_lib as L
from harness.witness._common import result, tag

PROPERTIES = ["C17"]
ORDER = 10

SIG_DOWN = "syncobj.doApplyCommand:enabled-version-decreased"
SIG_OK = "syncobj.doApplyCommand:lower-version-request-answered-success"
SPEC = {"objs": [[("f", 0, "r"), ("f", 1, "r"), ("f", 2, "r")], [("g", 0, "r"), ("g", 2, "rs")]]}


def _ticks(b, clock, n, versions, dt=0.5):
    for _ in range(n):
        clock.t += dt
        b.obj.doTick(0.0)
        versions.append(b.obj.getCodeVersion())


def _refused(res, err):
    """does the answer tell the requester that the version was NOT enabled?"""
    return err != 0 or isinstance(res, BaseException)


def scenario(ctx):
    ns = L.load(ctx.repo)
    clock = L.Clock(ns)
    src = L.source_of(SPEC, random.Random(1))
    seen = {"hook": [], "versions": [], "answers": {}}
    viols = []
    try:
        # (a) end to end
        def hook(old, new):
            seen["hook"].append((old, new))
        b = L.build(ns, SPEC, src, {"raftMinTimeout": 0.5, "raftMaxTimeout": 1.0}, hook=hook)
        vs = seen["versions"]
        _ticks(b, clock, 8, vs)
        assert b.obj._isLeader()
        b.obj.f(1, callback=lambda *a: None)
        _ticks(b, clock, 2, vs)
        b.obj.setCodeVersion(2, callback=lambda res, err: seen["answers"].__setitem__("up", (repr(res), err, _refused(res, err))))
        try:
            b.obj.setCodeVersion(1, callback=lambda res, err: seen["answers"].__setitem__("down", (repr(res), err, _refused(res, err))))
            seen["second_request"] = "accepted by setCodeVersion (enabled version still 0 on the requester)"
        except Exception as e:
            seen["second_request"] = "rejected by setCodeVersion: %s" % e
        _ticks(b, clock, 4, vs)
        b.obj.f(3, callback=lambda *a: None)
        b.consumers[0].g(3, callback=lambda *a: None)
        _ticks(b, clock, 3, vs)
        seen["ran"] = [list(r) for r in b.rec if r[0] == "ran"]
        seen["final_version"] = b.obj.getCodeVersion()
        L.destroy(b)
        # (b) injected log on a replica
        b2 = L.build(ns, SPEC, src, hook=lambda old, new: seen.setdefault("hook_b", []).append((old, new)))
        log = [[["noop"], 1, 0], [["reg", 0, 9501], 2, 1], [["ver", 2], 3, 1], [["ver", 1], 4, 1], [["reg", 0, 9502], 5, 1]]
        L.inject(b2, {"enabled": 0, "tableVer": 0, "lastApplied": 1, "commit": 5, "log": log,
                      "waiting": [[3, [[1, 71]]], [4, [[1, 72]]]]})
        per_entry = []
        for c in range(2, 6):
            b2.obj._SyncObj__raftCommitIndex = c
            b2.obj._SyncObj__applyLogEntries()
            per_entry.append(b2.obj.getCodeVersion())
        seen["versions_b"] = per_entry
        seen["answers_b"] = {r[1]: (repr(r[2]), r[3], _refused(r[2], r[3])) for r in b2.rec if r[0] == "cb"}
        seen["f_after_b"] = L.call_id(b2, 0, "f")
        seen["f_after_b_version"] = b2.obj._idToMethod[seen["f_after_b"]].ver
        L.destroy(b2)
    finally:
        clock.restore()
    hd = [h for h in seen["hook"] if h[1] < h[0]]
    if hd:
        viols.append({"signature": SIG_DOWN,
                      "what": "end to end: setCodeVersion(2); setCodeVersion(1) before the next tick (%s): onCodeVersionChanged calls %r, "
                              "getCodeVersion() ends at %r, f(3)/g(3) ran %r"
                              % (seen["second_request"], seen["hook"], seen["final_version"], seen["ran"][-2:])})
    for name, vs in (("end to end", seen["versions"]), ("replica with injected log", seen["versions_b"])):
        if viols:
            break
        down = [(i, vs[i], vs[i + 1]) for i in range(len(vs) - 1) if vs[i + 1] < vs[i]]
        if down:
            viols.append({"signature": SIG_DOWN,
                          "what": "%s: getCodeVersion() went %d -> %d (hook calls %r); after VERSION 2 and VERSION 1 in the log the node is on "
                                  "version %d" % (name, down[0][1], down[0][2], seen["hook"] if name == "end to end" else seen.get("hook_b"), vs[-1])})
            break
    ans = seen["answers"].get("down")
    ans_b = seen["answers_b"].get(72)
    if not viols and seen["second_request"].startswith("accepted") and ((ans and not ans[2]) or (ans_b and not ans_b[2])):
        viols.append({"signature": SIG_OK, "what": "the request for version 1 behind version 2 was answered %r / %r" % (ans, ans_b)})
    if not viols and (seen["final_version"] != 2 or seen["ran"][-2:] != [["ran", 0, "f", 2, 3], ["ran", 1, "g", 2, 3]]
                      or seen["f_after_b_version"] != 2):
        viols.append({"signature": SIG_DOWN, "what": "after VERSION 2, VERSION 1: final version %r, calls ran %r, replica resolves f to version %r"
                                                     % (seen["final_version"], seen["ran"][-2:], seen["f_after_b_version"])})
    return viols, seen


def run(ctx):
    t0 = time.time()
    viols, sample = scenario(ctx)
    return result("D71-version-goes-down", tag(viols, "d71", {}), sample, t0)


def replay(ctx, violation):
    viols, sample = scenario(ctx)
    ctx.cleanup()
    return {"violated": bool(viols), "violations": viols, "observed": sample}
