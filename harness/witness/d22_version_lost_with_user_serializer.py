"""D22: with a user serializer (`conf.serializer` / `conf.deserializer`) the object state - and with it
`_SyncObj__enabledCodeVersion` - is not part of the dump (`data = None`), so a node restarted from a dump
taken after the switch comes back with enabled version 0 and its calls run the `_v0` implementations while the
cluster is on version 1.

Same end-to-end replay as D11 (single-node cluster, real ticks, dump file, restart) with a user serializer that
stores the opaque internal data it is handed."""
import time

from harness.witness import d11_name_table_after_dump as D11
from harness.witness._common import result, tag

PROPERTIES = ["C17"]
ORDER = 10


def run(ctx):
    t0 = time.time()
    viols, sample = D11.scenario(ctx, user=True)
    return result("D22-version-lost-with-user-serializer", tag(viols, "d22", {}), sample, t0)


def replay(ctx, violation):
    viols, sample = D11.scenario(ctx, user=True)
    ctx.cleanup()
    return {"violated": bool(viols), "violations": viols, "observed": sample}
