"""Seeded change C17-6 (regression guard, no defect of the tree): `conf.onCodeVersionChanged(old, new)` must run AFTER
`__onSetCodeVersion(new)`. Inside the hook `getCodeVersion()` already reports `new`; a replicated call issued from
the hook (a migration step) has to go out with the implementation resolved for `new` - on the object and on a
consumer - and a method that exists only from `new` on must be callable.

End to end on the real code: single-node cluster, real ticks, dump FILE; the hook issues REAL replicated calls
(they are queued, committed and applied by the following ticks); afterwards forced compaction and a restart on the
same dump file (the hook is not invoked by a dump load; the restarted node must still be on version 1)."""
import os
import random
import time

from harness.corr import versions_lib as L
from harness.witness._common import result, tag

PROPERTIES = ["C17"]
ORDER = 10

SIG = "syncobj.doApplyCommand:call-from-version-hook-not-newest-version-le-enabled"
SIG_VER = "syncobj.doApplyCommand:version-hook-sees-other-enabled-version"
# object: put v0/v1, migrate only v1; consumer 1: note v0/v1, only1 only v1
SPEC = {"objs": [[("put", 0, "r"), ("put", 1, "r"), ("migrate", 1, "r")],
                 [("note", 0, "r"), ("note", 1, "rs"), ("only1", 1, "r")]]}


def _ticks(b, clock, n, dt=0.5):
    for _ in range(n):
        clock.t += dt
        b.obj.doTick(0.0)


def scenario(ctx):
    ns = L.load(ctx.repo)
    clock = L.Clock(ns)
    tmp = ctx.tmpdir()
    path = os.path.join(tmp, "dump.bin")
    src = L.source_of(SPEC, random.Random(1))
    seen = {"hook": [], "errors": []}
    holder = {}

    def hook(old, new):
        b = holder["b"]
        seen["hook"].append((old, new, b.obj.getCodeVersion()))
        cb = lambda *a: None
        for what, f in (("put", lambda: b.obj.put(100 + new, callback=cb)),
                        ("note", lambda: b.consumers[0].note(200 + new, callback=cb)),
                        ("migrate", lambda: b.obj.migrate(300 + new, callback=cb)),
                        ("only1", lambda: b.consumers[0].only1(400 + new, callback=cb))):
            try:
                f()
            except Exception as e:
                seen["errors"].append("%s: %s" % (what, type(e).__name__))

    kw = {"fullDumpFile": path, "raftMinTimeout": 0.5, "raftMaxTimeout": 1.0}
    try:
        b = L.build(ns, SPEC, src, kw, hook=hook)
        holder["b"] = b
        _ticks(b, clock, 8)
        assert b.obj._isLeader()
        b.obj.put(1, callback=lambda *a: None)
        b.consumers[0].note(1, callback=lambda *a: None)
        _ticks(b, clock, 2)
        b.obj.setCodeVersion(1)
        _ticks(b, clock, 4)
        seen["ran"] = [r for r in b.rec if r[0] == "ran"]
        b.obj.forceLogCompaction()
        _ticks(b, clock, 3)
        L.destroy(b)
        b2 = L.build(ns, SPEC, src, kw, hook=hook)
        holder["b"] = b2
        _ticks(b2, clock, 8)
        seen["hook_calls_after_restart"] = len(seen["hook"]) - 1
        seen["version_after_restart"] = b2.obj.getCodeVersion()
        b2.obj.put(9, callback=lambda *a: None)
        b2.consumers[0].only1(9, callback=lambda *a: None)
        _ticks(b2, clock, 4)
        seen["ran_after_restart"] = [r for r in b2.rec if r[0] == "ran"]
        L.destroy(b2)
    finally:
        clock.restore()
    viols = []
    want = [("ran", 0, "put", 0, 1), ("ran", 1, "note", 0, 1),
            ("ran", 0, "put", 1, 101), ("ran", 1, "note", 1, 201), ("ran", 0, "migrate", 1, 301), ("ran", 1, "only1", 1, 401)]
    if seen["hook"][:1] != [(0, 1, 1)]:
        viols.append({"signature": SIG_VER, "what": "hook saw (old, new, getCodeVersion()) = %r, expected [(0, 1, 1)]" % (seen["hook"],)})
    if seen["errors"] or seen["ran"] != want:
        viols.append({"signature": SIG,
                      "what": "calls issued from onCodeVersionChanged(0, 1) with getCodeVersion()==1: errors %r; implementations run %r, "
                              "expected the version-1 implementations %r" % (seen["errors"], seen["ran"][2:], want[2:])})
    if not viols and (seen["version_after_restart"] != 1 or
                      seen["ran_after_restart"] != [("ran", 0, "put", 1, 9), ("ran", 1, "only1", 1, 9)]):
        viols.append({"signature": "syncobj.loadDumpFile:call-not-newest-version-le-enabled",
                      "what": "after restart from the dump: getCodeVersion()=%r, calls ran %r"
                              % (seen["version_after_restart"], seen["ran_after_restart"])})
    return viols, {k: [list(x) if isinstance(x, tuple) else x for x in v] if isinstance(v, list) else v for k, v in seen.items()}


def run(ctx):
    t0 = time.time()
    viols, sample = scenario(ctx)
    return result("C17-6-version-hook-calls", tag(viols, "c17_6", {}), sample, t0, {"hook_calls_issued": 4})


def replay(ctx, violation):
    viols, sample = scenario(ctx)
    ctx.cleanup()
    return {"violated": bool(viols), "violations": viols, "observed": sample}
