"""D66: a follower's OWN fork dump child finishes after a snapshot from the leader was installed and renames its
older dump over the newer snapshot file.

Schedule (real SyncObj instances on the simulator, journal + dump file, the follower with `useFork=True`, a REAL
fork): the follower F, cut off, starts its own compaction at position j — the fork child is held back at its first
`open(.., 'wb')` by a pipe; F is reconnected, the leader (which compacted at k > j) sends its snapshot, F installs it
(`setTransmissionData` renames `<dump>.1.tmp` over `<dump>`, `__loadDumpFile(clearJournal=True)` resets the journal to
the entries k-1, k), then journals and acknowledges further entries.  Now the child is released: it writes the state of
position j to `<dump>.tmp` and renames it over `<dump>`; `checkSerializing` reports SUCCESS.  Nothing cancelled or waited
for the child.  The dump on disk (position j) no longer covers the journal head (k-1): after kill + restart
`__loadDumpFile(clearJournal=False)` clears the journal — every entry F acknowledged beyond j is gone.

The child is started at three moments (`WHEN`): before the first chunk of the leader's snapshot, between two chunks of
the multi-chunk transfer, and right before the last chunk is processed; it is always released after the install.

Monitors = property text: (C09) the dump file is the newest complete snapshot the node wrote or installed; (C06) after
kill/restart the node still holds everything it acknowledged.
"""
import logging
import os
import signal
import time

from harness.sim import Sim
from harness.witness._common import result, tag

PROPERTIES = ["C09", "C06"]
ORDER = 10

SIG = "serializer:own-dump-child-overwrites-installed-snapshot"
SIG_KILLED = "serializer.dump:journal-trimmed-after-killed-writer"


def _dump_pos(sim, fn):
    """Log position of the snapshot in the dump file, read the way a restarting node reads it."""
    from pysyncobj.serializer import Serializer
    try:
        return Serializer(fn, 16, False, None, None, None).deserialize()[1][1]
    except Exception as e:
        return "unreadable: " + type(e).__name__


WHEN = ("before-first-chunk", "between-chunks", "before-last-chunk")


def scenario(repo, tmpdir, seed=1, when="before-first-chunk"):
    """`when`: the moment the follower forks its own dump child relative to the chunks of the leader's snapshot."""
    if not hasattr(os, "fork"):
        return None, [], {"note": "no fork on this platform"}
    for name in ("pysyncobj.syncobj", "pysyncobj.serializer"):
        lg = logging.getLogger(name)
        if not lg.handlers:
            lg.addHandler(logging.NullHandler())
            lg.propagate = False
    sim = Sim(repo, ["a", "b", "c"], seed=seed, journal_dir=tmpdir, dump=True,
              conf={"useFork": False, "logCompactionMinEntries": 100000, "logCompactionMinTime": 100000,
                    "logCompactionBatchSize": 64})
    import pysyncobj.serializer as sermod
    notes, viols = {"when": when}, []
    sim.connect_all()
    L = sim.elect()
    F = [i for i in sim.voters if i != L][0]
    G = [i for i in sim.voters if i not in (L, F)][0]
    for k in range(4):
        sim.submit(L, "old%d" % k)
    sim.run(8)
    f_ser = sim.P(F, "serializer")
    fn = getattr(f_ser, "_Serializer__fileName")
    setattr(f_ser, "_Serializer__useFork", True)          # = SyncObjConf(useFork=True) for this node
    sim.disconnect(L, F)
    sim.disconnect(G, F)
    for k in range(10):
        sim.submit(L, "x%d" % k)
    sim.run(8, among=[L, G])
    sim.compact(L)
    sim.run(4, among=[L, G])
    k_pos = sim.P(L, "raftLog")[1][1]
    j_pos = sim.P(F, "raftLastApplied")
    notes["own_dump_position"] = j_pos

    # verdicts of checkSerializing on the follower (SUCCESS for a stopped child would trim for a dump that is not there)
    verdicts = []
    real_check = f_ser.checkSerializing

    def watched_check():
        r = real_check()
        if r[0] in (2, 3):
            verdicts.append(r)
        return r
    f_ser.checkSerializing = watched_check

    # the real fork child is held at its first open(.., 'wb') until the pipe is written
    parent = os.getpid()
    rfd, wfd = os.pipe()
    saved_open = sermod.__dict__.get("open")

    def gated_open(path, mode="r", *a, **kw):
        if os.getpid() != parent and "w" in mode:
            os.read(rfd, 1)
        return open(path, mode, *a, **kw)
    sermod.open = gated_open
    child = [0]

    def start_child():
        sim.compact(F)
        sim.tick(F, 0.0)                                   # __tryLogCompaction forks the dump writer
        child[0] = getattr(f_ser, "_Serializer__pid")
        notes["child_forked"] = child[0] > 0

    def is_chunk(m):
        return m.get("type") == "append_entries" and m.get("serialized") is not None

    try:
        # reconnect and drive until the leader's whole snapshot burst is in flight, nothing of it delivered yet
        sim.connect(L, F)
        for _ in range(20):
            sim.tick(L, 0.0625)
            while sim.chan[(L, F)] and not is_chunk(sim.chan[(L, F)][0]):
                sim.deliver(L, F)
            while sim.deliver(F, L):
                pass
            if sim.chan[(L, F)] and is_chunk(sim.chan[(L, F)][0]):
                break
        chunks = [m for m in sim.chan[(L, F)] if is_chunk(m)]
        notes["chunks"] = len(chunks)
        if len(chunks) < 3 or not chunks[0]["serialized"][1] or not chunks[-1]["serialized"][2]:
            return sim, [], dict(notes, note="no multi-chunk snapshot burst in flight", child_forked=False)
        start_at = {"before-first-chunk": 0, "between-chunks": len(chunks) // 2, "before-last-chunk": len(chunks) - 1}[when]
        delivered = 0
        while sim.chan[(L, F)]:
            m = sim.chan[(L, F)][0]
            if is_chunk(m):
                if delivered == start_at:
                    start_child()
                delivered += 1
            sim.deliver(L, F)
        notes["child_started_after_chunks"] = start_at
        if child[0] <= 0:
            return sim, [], dict(notes, note="the follower did not fork a dump child")
        while sim.deliver(F, L):
            pass
        notes["installed_position"] = _dump_pos(sim, fn)
        notes["applied_after_install"] = sim.P(F, "raftLastApplied")
        if sim.P(F, "raftLastApplied") < k_pos:
            return sim, [], dict(notes, note="the snapshot was not installed", child_forked=False)
        # more entries are replicated to F and acknowledged (no tick on F: its compaction check does not run yet)
        for x in range(3):
            sim.submit(L, "y%d" % x)
        for _ in range(4):
            sim.tick(L, 0.0625)
            while sim.deliver(L, F):
                pass
            while sim.deliver(F, L):
                pass
        acked = 0
        for (s_, d, m) in sim.sent:
            if s_ == F and m["type"] == "next_node_idx" and m["success"]:
                acked = max(acked, m["next_node_idx"] - 1)
        notes["acknowledged_up_to"] = acked
    finally:
        os.write(wfd, b"x" * 16)                           # release the child (if it still exists)
        if child[0] > 0:
            try:
                os.waitid(os.P_PID, child[0], os.WEXITED | os.WNOWAIT)
            except OSError:
                pass                                       # already reaped (repaired code kills and waits)
        os.close(rfd)
        os.close(wfd)
        if saved_open is None:
            del sermod.open
        else:
            sermod.open = saved_open
    del verdicts[:]
    sim.tick(F, 0.0625)                                    # checkSerializing
    sim.tick(F, 0.0625)
    notes["verdicts_after_install"] = [list(v) for v in verdicts]
    notes["dump_position_after_child"] = _dump_pos(sim, fn)
    before = [e[0] for e in sim.log_of(F)]
    notes["journal_before_kill"] = (before[0], before[-1])
    sim.kill(F)
    sim.restart(F)
    sim.tick(F, 0.0625)
    after = [e[0] for e in sim.log_of(F)]
    notes["journal_after_restart"] = (after[0], after[-1]) if after else None
    dp = notes["dump_position_after_child"]
    success_for_stopped = any(v[0] == 2 and v[1] is not None and v[1] < k_pos - 1 for v in verdicts)
    if not isinstance(dp, int) or dp < notes["installed_position"] or not after or after[-1] < notes["acknowledged_up_to"] \
            or success_for_stopped:
        viols.append({"signature": SIG,
                      "what": "follower %s (useFork) forked its own dump child for position %s %s (after %d of %d chunks of the "
                              "leader's snapshot) and installed that snapshot at position %s while the child was running; the child "
                              "then renamed its older dump over it: dump file now at position %s, checkSerializing verdicts %s, "
                              "journal %s..%s; after kill/restart the journal holds %s although %s had acknowledged up to %s"
                              % (F, j_pos, when, notes["child_started_after_chunks"], notes["chunks"], notes["installed_position"], dp,
                                 notes["verdicts_after_install"], before[0], before[-1], notes["journal_after_restart"], F,
                                 notes["acknowledged_up_to"])})
    return sim, viols, notes


def scenario_killed_writer(repo, tmpdir, seed=1):
    """Not a defect of the unchanged tree — a monitor at SyncObj level: the fork dump writer is killed by SIGKILL
    before it wrote anything; `checkSerializing` must report FAILED and `__tryLogCompaction` must not trim the journal:
    the journal head stays covered by the dump on disk (here: no dump, so the journal must still start at its
    first entry), and after kill/restart the node holds everything it acknowledged."""
    if not hasattr(os, "fork"):
        return [], {"note": "no fork on this platform"}
    sim = Sim(repo, ["a", "b"], seed=seed, journal_dir=tmpdir, dump=True,
              conf={"useFork": False, "logCompactionMinEntries": 100000, "logCompactionMinTime": 100000})
    import pysyncobj.serializer as sermod
    notes, viols = {}, []
    sim.connect_all()
    L = sim.elect()
    F = [i for i in sim.voters if i != L][0]
    for k in range(8):
        sim.submit(L, "k%d" % k)
    sim.run(10)
    f_ser = sim.P(F, "serializer")
    fn = getattr(f_ser, "_Serializer__fileName")
    setattr(f_ser, "_Serializer__useFork", True)
    first0 = sim.log_of(F)[0][0]
    acked = sim.log_of(F)[-1][0]
    parent = os.getpid()
    rfd, wfd = os.pipe()
    saved_open = sermod.__dict__.get("open")

    def gated_open(path, mode="r", *a, **kw):
        if os.getpid() != parent and "w" in mode:
            os.read(rfd, 1)
        return open(path, mode, *a, **kw)
    sermod.open = gated_open
    try:
        sim.compact(F)
        sim.tick(F, 0.0625)
        child = getattr(f_ser, "_Serializer__pid")
        notes["child_forked"] = child > 0
        if child > 0:
            os.kill(child, signal.SIGKILL)                 # OOM killer / operator
            os.waitid(os.P_PID, child, os.WEXITED | os.WNOWAIT)
    finally:
        os.close(rfd)
        os.close(wfd)
        if saved_open is None:
            del sermod.open
        else:
            sermod.open = saved_open
    sim.tick(F, 0.0625)                                    # checkSerializing -> must be FAILED
    sim.tick(F, 0.0625)
    dp = _dump_pos(sim, fn) if os.path.exists(fn) else None
    head = sim.log_of(F)[0][0]
    notes.update({"dump_position": dp, "journal_head": head, "journal_head_before": first0})
    sim.kill(F)
    sim.restart(F)
    sim.tick(F, 0.0625)
    after = [e[0] for e in sim.log_of(F)]
    notes["journal_after_restart"] = (after[0], after[-1]) if after else None
    covered = (head <= first0) if dp is None else (isinstance(dp, int) and head <= dp)
    if notes["child_forked"] and (not covered or not after or after[0] > first0 and dp is None or after[-1] < acked):
        viols.append({"signature": SIG_KILLED,
                      "what": "the fork dump writer of %s was killed by SIGKILL before writing anything (dump on disk: %s), yet the "
                              "journal was trimmed: head %s -> %s; entries %s..%s exist neither in a dump nor in the journal; after "
                              "kill/restart the journal holds %s" % (F, "position %s" % dp if dp is not None else "none", first0, head,
                                                                     first0, head - 1, notes["journal_after_restart"])})
    return viols, notes


def run(ctx):
    t0 = time.time()
    viols, notes = [], {}
    for when in WHEN:
        sim, v, n = scenario(ctx.repo, ctx.tmpdir(), when=when)
        notes[when] = n
        viols.extend(tag(v, "d66_own_dump_overwrites_installed_snapshot", {"when": when}))
    v2, n2 = scenario_killed_writer(ctx.repo, ctx.tmpdir())
    viols.extend(tag(v2, "d66_own_dump_overwrites_installed_snapshot", {"when": "killed-writer"}))
    notes["killed_writer"] = n2
    r = result("witness.d66_own_dump_overwrites_installed_snapshot", viols[:3], notes, t0)
    r["cases"] = r["distinct"] = len(WHEN) + 1
    if not viols and hasattr(os, "fork"):
        idle = [w for w in WHEN if not notes[w].get("child_forked")]
        if idle:
            r["inconclusive"] = "D66 witness: no dump child forked / no install in variants %s: %s" % (idle, {w: notes[w] for w in idle})
    return r


def replay(ctx, violation):
    when = violation.get("replay", {}).get("when", "before-first-chunk")
    if when == "killed-writer":
        viols, notes = scenario_killed_writer(ctx.repo, ctx.tmpdir())
    else:
        sim, viols, notes = scenario(ctx.repo, ctx.tmpdir(), when=when)
    return {"violated": bool(viols), "violations": viols[:3], "notes": notes}
