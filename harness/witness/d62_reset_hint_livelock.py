"""D62: a rejoining follower never catches up — livelock of the nextIndex reset protocol (C05).

A deposed leader F holds one uncommitted entry at index k (old term).  It was cut off silently, so the new leader
kept "sending" and advanced nextIndex[F] optimistically to its log end + 1; the majority committed more than one
append batch behind k.  After the heal:
  round 0: prev = leader's end, unknown on F         -> reset hint  F.end + 1 = k + 1
  round n: batch 1  prev = k, F holds another term   -> reset hint  prevLogIdx = k
           batch 2+ prev > k, unknown on F           -> reset hint  F.end + 1 = k + 1
All batches up to the log end are sent in ONE call of __sendAppendEntries and the leader applies the hints in
arrival order (syncobj.py: `if reset: self.__raftNextIndex[node] = nextNodeIdx`), so the second hint overwrites the
first on every round, for ever: F stays behind although every message is delivered and ticks are timely.
Repair (fixes/D62-probe-one-batch-until-confirmed.diff): only one batch is sent to a node that has not confirmed
the entry before it (matchIndex < prevLogIdx); pipelining resumes after the first acknowledgement.

Monitor = the C05 statement: after heal + 40 raftMaxTimeout of quiet time every connected voter has the leader's
raftLastApplied and object state."""
import logging
import time

from harness.sim import Sim
from harness.witness._common import result, tag

PROPERTIES = ["C05"]
ORDER = 10


def scenario(repo, seed=3):
    logging.getLogger().setLevel(logging.CRITICAL + 1)
    s = Sim(repo, ["a", "b", "c"], conf={"appendEntriesBatchSizeBytes": 200}, seed=seed)
    s.connect_all()
    L = s.elect()
    assert L is not None
    s.run(6)
    others = [x for x in s.voters if x != L]
    for o in others:
        s.cut(L, o)                                   # nobody notices: L keeps leading, the others time out
    s.submit(L, "stale" + "x" * 50, with_cb=False)    # one uncommitted entry at index k on the deposed leader
    s.tick(L, 0.0625)
    L2 = s.elect(among=others)
    if L2 is None:
        return s, [], {"note": "no second leader"}
    for k in range(6):
        s.submit(L2, "n%d" % k + "y" * 90, with_cb=False)   # ~100 B each, batch 200 B: several batches behind k
    s.run(8, among=others)
    for o in others:
        s.connect(L, o)                               # heal
    n0 = len(s.sent)
    quiet = int(40 * 1.5 / 0.0625)
    for _ in range(quiet):
        s.run(1)
        if s.leader() is not None and len(set(s.objs[i].raftLastApplied for i in s.voters)) == 1:
            break
    hints = [m["next_node_idx"] for (a, b, m) in s.sent[n0:] if m.get("type") == "next_node_idx" and a == L and m.get("reset")]
    viols = []
    ld = s.leader()
    if ld is None:
        viols.append({"signature": "convergence:no-single-leader", "what": "no single leader 60 s after the heal"})
    else:
        want = s.objs[ld].raftLastApplied
        for i in s.voters:
            if s.objs[i].raftLastApplied != want:
                alt = len(set(hints[-6:])) > 1
                viols.append({"signature": "convergence:replica-stays-behind:%s" % ("alternating-reset-hints" if alt else "repeated-reset-hint"),
                              "what": "voter %s (deposed leader, one uncommitted entry) is at raftLastApplied %d, leader %s at %d, "
                                      "40 raftMaxTimeout after the heal with every message delivered; its last reset hints: %r "
                                      "(%d rejections)" % (i, s.objs[i].raftLastApplied, ld, want, hints[-6:], len(hints))})
            elif list(s.objs[i].log) != list(s.objs[ld].log):
                viols.append({"signature": "convergence:states-differ", "what": "voter %s and leader %s differ" % (i, ld)})
    if s.errors:
        viols.append({"signature": "tick:exception-escapes", "what": "%s: %s" % (s.errors[0][1], s.errors[0][2])})
    return s, viols, {"old_leader": L, "new_leader": L2, "reset_hints": len(hints), "last_hints": hints[-6:]}


def run(ctx):
    t0 = time.time()
    sim, viols, info = scenario(ctx.repo)
    return result("witness.d62_reset_hint_livelock", tag(viols, "d62_reset_hint_livelock", {}),
                  dict(info, schedule_events=len(sim.trace)), t0)


def replay(ctx, violation):
    sim, viols, info = scenario(ctx.repo)
    return {"violated": bool(viols), "violations": viols[:5], "info": info}
