"""D60: the counter behind `request_id` of forwarded commands (`apply_command` sent by a non-leader to the node
it believes to be the leader) restarted at 0 in every process.  A node X that holds a forwarded command while
it knows no leader (commandsWaitLeader, the default) answers it later; if the requester was killed and
restarted in between and has forwarded a NEW command under the same id, X's reply to the OLD request is taken
as the reply to the new one: the new command's callback reports the old command's outcome (here NOT_LEADER,
although the new command is applied; with an `accepted at index i` reply it would report SUCCESS and the
result of somebody else's entry).
Replay: the shrunk schedule found by corr.restart_crashpoints (thorough, seed 1, random/99), kept in
corpus/restart/sched-d60-forward-reply-of-earlier-run.json, on 4 real journaled voters; the monitor is the
one of corr.restart_schedules (a reply whose request was sent by an earlier run of the receiver is delivered
while a request with that id is pending in the current run).
Silent when request ids of different runs do not collide (fix: random start value of the counter)."""
import json
import os
import shutil
import time

from harness.corr import restart_schedules as rs
from harness.witness._common import result, tag

PROPERTIES = ["C02", "C06"]
ORDER = 10

SIGNATURE = "restart:forward-reply-of-earlier-run-matched-to-new-request"
SCHEDULE = os.path.join(rs.CORPUS, "sched-d60-forward-reply-of-earlier-run.json")


def scenario(repo, tmpdir):
    ent = json.load(open(SCHEDULE))
    r = rs.run_events(repo, ent["spec"], ent["events"], tmpdir, finale=True, stop_on_violation=False)
    viols = [{"signature": v["signature"], "what": v["what"]} for v in r.viol if v["signature"] == SIGNATURE][:1]
    # the contract itself, as seen by the user of the library: a definite failure was reported for a command that is applied
    contract = [v for v in r.viol if v["signature"].startswith("callback:")]
    return r, viols, contract


def run(ctx):
    t0 = time.time()
    r, viols, contract = scenario(ctx.repo, ctx.tmpdir())
    out = result("witness.d60_stale_forward_reply", tag(viols, "d60_stale_forward_reply", {}),
                 {"schedule_events": len(r.events), "stale_replies_delivered": r.cov.get("reply-to-request-of-earlier-run-delivered", 0)}, t0)
    out["coverage"]["stale_replies_delivered"] = r.cov.get("reply-to-request-of-earlier-run-delivered", 0)
    if not out["coverage"]["stale_replies_delivered"]:
        out["inconclusive"] = "the schedule no longer delivers a reply to a request of an earlier run (witness does not exercise the fix)"
    return out


def replay(ctx, violation):
    tmp = ctx.tmpdir()
    try:
        r, viols, contract = scenario(ctx.repo, tmp)
    finally:
        shutil.rmtree(tmp, ignore_errors=True)
    return {"violated": bool(viols), "violations": viols[:3], "tree": ctx.repo}
