"""D18: a snapshot transfer that is cut by a reconnect is continued at the leader's stored offset.

Schedule (real SyncObj instances on the simulator, real Serializer objects, memory mode and file mode):
a follower lags behind the compacted prefix of the leader; the leader starts the chunked snapshot burst; the
wall-clock cut-off of `__sendAppendEntries` ends the burst after a few chunks (variant `cut`: the clock is
advanced from inside `getTransmissionData`, i.e. reading/sending chunks takes time) or the transport reports the
connection dead in the middle of the burst (variant `sendfail`); the connection is replaced, chunks in flight
are lost, the leader only hears `_onNodeConnected` (what `TCPTransport._onIncomingMessageReceived` does on
the accepting side: no disconnect callback for the replaced connection); on its next send the pinned code
continues with chunk k+1 — `cancelTransmisstion` is reached only from the send loop for a node that is not
connected at that moment.  The follower, which holds the first chunks in its open incoming file, appends the
rest, gets `isLast`, atomically replaces its (complete, old) dump with the torn bytes, fails to load it and
answers `next_node_idx success=True`.

Monitor = the property text: whenever the follower's `setTransmissionData` returns True its store must be
byte-equal to a snapshot the leader held, and `deserialize()` must succeed.
"""
import logging
import os
import time

from harness.sim import Sim
from harness.witness._common import result, tag

PROPERTIES = ["C09"]
ORDER = 10

SIG = "serializer.transfer:torn-after-reconnect"
SIG_B = "serializer.transfer:torn-after-leader-change"


def _store(ser):
    fn = getattr(ser, "_Serializer__fileName")
    if fn is None:
        return getattr(ser, "_Serializer__inMemorySerializedData")
    try:
        with open(fn, "rb") as f:
            return f.read()
    except (IOError, OSError):
        return None


def _received(ser):
    """The snapshot a completed transfer delivered: since D70 it is kept apart (`__incomingSnapshot`: the bytes, or the
    name of `<dump>.1.tmp`) until `finishIncoming`; before, it replaced the store at once."""
    snap = getattr(ser, "_Serializer__incomingSnapshot", None)
    if snap is None:
        return _store(ser)
    if isinstance(snap, bytes):
        return snap
    with open(snap, "rb") as f:
        return f.read()


def _load_received(ser):
    try:
        if hasattr(ser, "finishIncoming"):
            ser.deserialize(incoming=True)
        else:
            ser.deserialize()
        return "loads"
    except Exception as e:
        return "load fails with " + type(e).__name__


def scenario(repo, mode, variant, workdir):
    for name in ("pysyncobj.syncobj", "pysyncobj.serializer"):      # the code logs the failed load; keep stderr clean
        lg = logging.getLogger(name)
        if not lg.handlers:
            lg.addHandler(logging.NullHandler())
            lg.propagate = False
    per = {}
    if mode == "file":
        per = {i: {"fullDumpFile": os.path.join(workdir, "%s-%s-%s.dump" % (mode, variant, i))} for i in "abc"}
    sim = Sim(repo, ["a", "b", "c"], seed=3, conf={"logCompactionBatchSize": 16, "useFork": False,
                                                  "logCompactionMinEntries": 100000, "logCompactionMinTime": 100000},
              per_node_conf=per)
    viols, notes = [], {}
    sim.connect_all()
    L = sim.elect()
    assert L is not None
    F = [i for i in sim.voters if i != L][0]
    G = [i for i in sim.voters if i not in (L, F)][0]
    # the follower gets a complete old snapshot of its own first (file mode: an old dump file on disk)
    for k in range(3):
        sim.submit(L, "old%d" % k)
    sim.run(6)
    sim.compact(F)
    sim.run(3)
    f_ser = sim.P(F, "serializer")
    old_store = _store(f_ser)
    notes["follower_old_dump_bytes"] = None if old_store is None else len(old_store)
    # now it lags behind a compaction of the leader
    sim.disconnect(L, F)
    sim.disconnect(G, F)
    for k in range(12):
        sim.submit(L, "x%d" % k)
    sim.run(8, among=[L, G])
    sim.compact(L)
    sim.run(4, among=[L, G])
    l_ser = sim.P(L, "serializer")
    held = [_store(l_ser)]
    assert held[0] is not None and len(held[0]) > 5 * 16, "leader snapshot too small for the schedule"

    # monitors on the follower's real serializer
    completions = []
    real_set = f_ser.setTransmissionData

    def watched_set(data):
        r = real_set(data)
        if r:
            completions.append((_received(f_ser), _load_received(f_ser), len(sim.sent)))
        return r
    f_ser.setTransmissionData = watched_set

    # burst control on the leader's real serializer
    real_get = l_ser.getTransmissionData
    state = {"n": 0, "armed": True}

    def watched_get(node):
        r = real_get(node)
        s = _store(l_ser)
        if s is not None and s not in held:
            held.append(s)
        if node.id == F and r is not None and state["armed"]:
            state["n"] += 1
            if state["n"] == 4:
                state["armed"] = False
                if variant == "cut":
                    sim.now[L] += 0.25                 # > appendEntriesPeriod: the loop breaks after this chunk
                else:
                    sim.deliver(L, F)                  # the first chunks did arrive ...
                    sim.deliver(L, F)
                    sim.notice(L, F)                   # ... then the transport finds the connection dead while sending
        return r
    l_ser.getTransmissionData = watched_get

    sim.connect(L, F)
    # leader probes, follower answers with reset, leader starts the snapshot burst
    for _ in range(6):
        sim.tick(L, 0.0625)
        if not state["armed"]:
            break
        sim.deliver_all(among={L, F})
    notes["chunks_in_first_burst"] = state["n"]
    notes["in_flight"] = len(sim.chan[(L, F)])
    # two chunks arrive, the rest is lost with the connection
    if variant == "cut":
        for _ in range(2):
            sim.deliver(L, F)
    sim.cut(L, F)
    sim.notice(F, L)
    sim.connect(L, F)
    if variant == "cut":
        # accepting side of a replaced TCP connection: only the connected callback fires
        sim._notify_up(L, F)
    tr = getattr(l_ser, "_Serializer__transmissions")
    notes["leader_offset_after_reconnect"] = {k.id: v["transmitted"] for k, v in tr.items()}
    for _ in range(8):
        sim.tick(L, 0.0625)
        sim.deliver_all(among={L, F})
    # evaluate
    for st, load, at in completions:
        if st not in held:
            replies = [m for (a, b, m) in sim.sent[at:] if a == F and b == L and m.get("type") == "next_node_idx"]
            ack = ("it answered next_node_idx=%s success=%s (snapshot position %s)"
                   % (replies[0]["next_node_idx"], replies[0]["success"], sim.P(L, "raftLog")[1][1])) if replies else "no reply"
            viols.append({"signature": SIG,
                          "what": "%s mode, %s: follower completed a snapshot transfer with %d bytes that equal no snapshot the "
                                  "leader held (%s bytes); its previous complete dump had %s bytes, "
                                  "%s, %s" % (mode, variant, len(st), [len(h) for h in held], notes["follower_old_dump_bytes"], load, ack)})
            break
    notes["completions"] = len(completions)
    notes["follower_applied"] = sim.P(F, "raftLastApplied")
    notes["leader_applied"] = sim.P(L, "raftLastApplied")
    if not viols and not completions:
        notes["note"] = "no transfer completed"
    return viols, notes


def scenario_releader(repo, mode, workdir):
    """D18b: no connection is ever replaced.  The leader's burst is cut after 4 chunks; before they arrive the
    follower hears a candidate of a higher term, so it ignores them (`message['term'] >= raftCurrentTerm`,
    syncobj.py:884); the leader of that higher term begins its own snapshot transfer to the follower (first chunk);
    the old leader steps down, wins a later term with the follower's vote and — on the pinned code — continues its
    old transmission at offset 64: the follower appends that to the other leader's first chunk and completes a
    torn snapshot.  The third node's messages are injected by hand (exactly what a real node sends)."""
    for name in ("pysyncobj.syncobj", "pysyncobj.serializer"):
        lg = logging.getLogger(name)
        if not lg.handlers:
            lg.addHandler(logging.NullHandler())
            lg.propagate = False
    per = {}
    if mode == "file":
        per = {i: {"fullDumpFile": os.path.join(workdir, "rl-%s-%s.dump" % (mode, i))} for i in "abc"}
    sim = Sim(repo, ["a", "b", "c"], seed=3, conf={"logCompactionBatchSize": 16, "useFork": False,
                                                  "logCompactionMinEntries": 100000, "logCompactionMinTime": 100000},
              per_node_conf=per)
    viols, notes = [], {}
    sim.connect_all()
    L = sim.elect()
    F = [i for i in sim.voters if i != L][0]
    G = [i for i in sim.voters if i not in (L, F)][0]
    for k in range(3):
        sim.submit(L, "old%d" % k)
    sim.run(6)
    sim.disconnect(L, F)
    sim.disconnect(G, F)
    for k in range(12):
        sim.submit(L, "x%d" % k)
    sim.run(8, among=[L, G])
    sim.compact(L)
    sim.run(4, among=[L, G])
    l_ser, f_ser = sim.P(L, "serializer"), sim.P(F, "serializer")
    held = [_store(l_ser)]
    sim.disconnect(L, G)
    completions = []
    real_set = f_ser.setTransmissionData

    def watched_set(data):
        r = real_set(data)
        if r:
            completions.append((_received(f_ser), _load_received(f_ser)))
        return r
    f_ser.setTransmissionData = watched_set
    real_get = l_ser.getTransmissionData
    state = {"n": 0, "armed": True}

    def watched_get(node):
        r = real_get(node)
        s = _store(l_ser)
        if s is not None and s not in held:
            held.append(s)
        if node.id == F and r is not None and state["armed"]:
            state["n"] += 1
            if state["n"] == 4:
                state["armed"] = False
                sim.now[L] += 0.25
        return r
    l_ser.getTransmissionData = watched_get
    sim.connect(L, F)
    for _ in range(6):
        sim.tick(L, 0.0625)
        if not state["armed"]:
            break
        sim.deliver_all(among={L, F})
    T = sim.objs[L].raftCurrentTerm
    notes["in_flight"] = len(sim.chan[(L, F)])
    sim.inject(G, F, {"type": "request_vote", "term": T + 1, "last_log_index": 1000, "last_log_term": T})
    while sim.chan[(L, F)]:
        sim.deliver(L, F)                   # older term: ignored by the follower
    sim.inject(G, F, {"type": "append_entries", "term": T + 1, "commit_index": 0, "serialized": (b"G" * 16, True, False)})
    sim.inject(G, L, {"type": "request_vote", "term": T + 1, "last_log_index": 0, "last_log_term": 0})
    sim.chan[(F, L)].clear()
    for _ in range(60):
        sim.tick(L, 0.0625)
        sim.deliver_all(among={L, F})
        if completions:
            break
    notes["leader_term_after"] = sim.objs[L].raftCurrentTerm
    notes["completions"] = len(completions)
    for st, load in completions:
        if st not in held:
            viols.append({"signature": SIG_B,
                          "what": "%s mode: after the leader was deposed and re-elected (no connection was replaced) it "
                                  "continued a snapshot transfer of its earlier term at the stored offset; the follower, which had "
                                  "ignored the first chunks (older term) and held the first chunk of another leader's transfer, "
                                  "completed with %d bytes that equal no snapshot the leader held (%s bytes); %s"
                                  % (mode, len(st), [len(h) for h in held], load)})
            break
    return viols, notes


def run(ctx):
    t0 = time.time()
    viols, sample = [], {}
    workdir = ctx.tmpdir()
    for mode in ("memory", "file"):
        for variant in ("cut", "sendfail"):
            v, notes = scenario(ctx.repo, mode, variant, workdir)
            sample["%s/%s" % (mode, variant)] = notes
            viols.extend(tag(v, "d18_torn_snapshot", {"mode": mode, "variant": variant}))
    for mode in ("memory", "file"):
        v, notes = scenario_releader(ctx.repo, mode, workdir)
        sample["%s/releader" % mode] = notes
        viols.extend(tag(v, "d18_torn_snapshot", {"mode": mode, "variant": "releader"}))
    sigs, picked = set(), []
    for v in viols:                      # one violation per signature
        if v["signature"] not in sigs:
            sigs.add(v["signature"])
            picked.append(v)
    viols = picked
    r = result("witness.d18_torn_snapshot", viols[:2], sample, t0,
               {"variants": 6, "completed_transfers": sum(n.get("completions", 0) for n in sample.values())})
    r["cases"] = r["distinct"] = 6
    # on a repaired tree every variant must end with a completed, intact transfer
    if not viols and any(n.get("completions", 0) == 0 for n in sample.values()):
        r["inconclusive"] = "D18 witness: a variant ended without any completed transfer: %s" % sample
    return r


def replay(ctx, violation):
    rp = violation.get("replay", {})
    if rp.get("variant") == "releader":
        v, notes = scenario_releader(ctx.repo, rp.get("mode", "memory"), ctx.tmpdir())
    else:
        v, notes = scenario(ctx.repo, rp.get("mode", "memory"), rp.get("variant", "cut"), ctx.tmpdir())
    return {"violated": bool(v), "violations": v, "notes": notes}
