"""D69: `_onTick` applies log entries BEFORE the dump file has been loaded when the transport is not ready yet.

While `transport.ready` is False (TCP port still busy after a quick restart; the default `maxBindRetries = 0` keeps
retrying silently; `autoTick` mode does not wait for the bind in the constructor) a tick only calls
`__applyLogEntries()` and returns — the `__needLoadDumpFile` block has not run.  A journaled node that was killed after
its dump file was replaced (state as of position D) and before its journal was trimmed comes back with the journal
1..n, the .meta commit index c > D and an empty object: the first ticks execute 2..c from the journal on the
constructor's state (applied = c); once the transport is ready `__loadDumpFile(clearJournal=False)` installs the dump,
sets applied = D, and D+1..c are executed a SECOND time in the same process:
  * the applied index moves backwards while the node runs                      commit:applied-moved-backwards   (C04)
  * positions are executed twice within one incarnation    restart:position-executed-twice-in-generation   (C06, C01)
(the final state is the right one again: the dump replaces the state — checked too: sm-safety:state-not-fold-of-prefix).

Natural trigger (no exotic port clash needed): with `useFork` a `kill -9` of the node does not kill the forked dump
writer; the orphan keeps the inherited LISTENING socket open, so the restarted incarnation cannot bind (transport not
ready, silent retries) until the orphan has finished — and finishing means renaming its dump into place, which is
exactly "dump newer than the untrimmed journal head" + "transport not ready on the first ticks".

Replay on real journaled nodes under harness/sim.py (`useFork` False): follower F compacts (dump written, trim would
happen on its next tick), journals and acknowledges three more entries and learns their commit without ticking, a vote
request of a higher term makes it store .meta (term + commit index) synchronously, it is killed, and restarted with a
transport whose `ready` is False for the first K ticks (the Sim's transport object gets a subclass whose `ready`
property counts `tryGetReady` calls — nothing else is touched).
Silent when the dump is loaded before anything is applied."""
import time
from harness import monitors
from harness.sim import Sim
from harness.witness._common import result, tag

PROPERTIES = ["C06", "C04", "C01"]
ORDER = 10

K_NOT_READY = 2


def not_ready_for(sim, i, k):
    """the transport of node i reports `ready` False until `tryGetReady` has been called k times"""
    t = sim.transports[i]
    base = t.__class__

    def try_get_ready(self):
        if self._nr > 0:
            self._nr -= 1

    t.__class__ = type("NotReadyYet", (base,), {"ready": property(lambda self: self._nr == 0), "tryGetReady": try_get_ready})
    t._nr = k


def scenario(repo, tmpdir, seed=1, k=K_NOT_READY):
    sim = Sim(repo, ["a", "b", "c"], seed=seed, journal_dir=tmpdir, dump=True, conf={"useFork": False})
    sim.connect_all()
    L = sim.elect()
    F, G = [i for i in sim.voters if i != L]
    for n in range(6):
        sim.submit(L, "k%d" % n)
    sim.run(10)
    sim.compact(F)
    sim.tick(F, 0.0625)                    # dump written (tmp + rename); the journal is trimmed on the NEXT tick
    dump_at = sim.objs[F].raftLastApplied
    for n in range(6, 9):
        sim.submit(L, "k%d" % n)
    for _ in range(6):                     # the leader replicates, commits with G and tells F — F never ticks
        sim.tick(L, 0.0625)
        sim.tick(G, 0.0625)
        sim.deliver_all()
    known = sim.objs[F].raftCommitIndex
    # a candidate of a higher term asks F: term (and with it the whole .meta incl. the commit index) is stored at once
    sim.inject(G, F, {"type": "request_vote", "term": sim.objs[F].raftCurrentTerm + 1, "last_log_index": 0, "last_log_term": 0})
    first = sim.log_of(F)[0][0]
    sim.kill(F)
    sim.restart(F)
    not_ready_for(sim, F, k)
    gen_from = len(sim.execs[F])
    o = sim.objs[F]
    viols = []
    trace = []
    prev = o.raftLastApplied
    for n in range(k + 3):
        sim.tick(F, 0.0625)
        la = o.raftLastApplied
        trace.append(la)
        if la < prev:
            viols.append({"signature": "commit:applied-moved-backwards",
                          "what": "node %s (journal %d..%d untrimmed, dump at %d, stored commit index %d), restarted with a transport "
                                  "that is not ready for %d ticks: applied index per tick %s — it moved from %d back to %d while the "
                                  "node runs" % (F, first, sim.last_index(F), dump_at, known, k, trace, prev, la)})
        prev = la
    ex = sim.execs[F][gen_from:]
    seen = {}
    for (pos, cmd) in ex:
        seen[pos] = seen.get(pos, 0) + 1
    # an execution at position p happens with lastApplied = p - 1: a position at or below an earlier one = moved back
    for (q, _), (p_, _) in zip(ex, ex[1:]):
        if p_ <= q and not any(v["signature"] == "commit:applied-moved-backwards" for v in viols):
            viols.append({"signature": "commit:applied-moved-backwards",
                          "what": "node %s (journal %d..%d untrimmed, dump at %d, stored commit index %d), restarted with a transport that "
                                  "is not ready for %d ticks: it had applied position %d, then executes position %d: lastApplied went from "
                                  "%d back to %d while the node runs (inside the tick that loads the dump; per tick it reads %s)"
                                  % (F, first, sim.last_index(F), dump_at, known, k, q, p_, q, p_ - 1, trace)})
    twice = sorted(p for p, c in seen.items() if c > 1)
    if twice:
        viols.append({"signature": "restart:position-executed-twice-in-generation",
                      "what": "node %s executed the positions %s twice in one incarnation (first from the journal while the transport "
                              "was not ready, then again after the dump of position %d was loaded): %s"
                              % (F, twice, dump_at, [p for p, _ in ex])})
    for j in sim.voters:
        if j != F:
            sim.connect(F, j)
    sim.run(12)
    viols += monitors.sm_state(sim)
    info = {"dump_at": dump_at, "stored_commit": known, "journal_first": first, "applied_per_tick": trace,
            "executed_in_new_incarnation": [p for p, _ in ex]}
    return sim, viols, info


def run(ctx):
    t0 = time.time()
    sim, viols, info = scenario(ctx.repo, ctx.tmpdir())
    r = result("witness.d69_apply_before_dump_load", tag(viols, "d69_apply_before_dump_load", {}), info, t0)
    if not (info["stored_commit"] > info["dump_at"] and info["journal_first"] < info["dump_at"] - 1):
        r["inconclusive"] = "the schedule no longer reaches an untrimmed journal with a stored commit index beyond the dump: %r" % (info,)
    return r


def replay(ctx, violation):
    import shutil
    d = ctx.tmpdir()
    try:
        sim, viols, info = scenario(ctx.repo, d)
    finally:
        shutil.rmtree(d, ignore_errors=True)
    return {"violated": bool(viols), "violations": viols[:5], "info": info, "tree": ctx.repo}
