"""D61: the callback of a forwarded command is lost when its submitter catches up over it by snapshot (C05).

A lagging follower F forwards a command; the leader appends it at index i and answers `apply_command_response`
with i, so F files the callback under __commandsWaitingCommit[i].  Before F receives entry i the leader commits,
applies and compacts past i; F catches up by snapshot: __loadDumpFile sets raftLastApplied beyond i and nothing
ever resolves __commandsWaitingCommit[i].  The command is in the common state of all replicas, every message is
delivered, the leader never changes — and the submitter is never told (C05: "commands submitted afterwards are
acknowledged").  SUCCESS is unattainable for F (it never executed the command, the result is unknown);
repair (fixes/D61-callbacks-covered-by-installed-snapshot.diff): callbacks covered by an installed snapshot are
answered LEADER_CHANGED = "outcome open" in the callback contract (C02) instead of never."""
import logging
import time

from harness.sim import Sim
from harness.witness._common import result, tag

PROPERTIES = ["C05"]
ORDER = 10


def scenario(repo, seed=5):
    logging.getLogger().setLevel(logging.CRITICAL + 1)
    s = Sim(repo, ["a", "b", "c"], conf={"logCompactionMinEntries": 10 ** 6, "logCompactionMinTime": 10 ** 6}, seed=seed)
    s.connect_all()
    L = s.elect()
    assert L is not None
    s.run(6)
    F, P = [x for x in s.voters if x != L]
    s.disconnect(F, L)
    s.disconnect(F, P)                    # F is away (and does not tick: it keeps naming L as leader)
    for k in range(5):
        s.submit(L, "m%d" % k, with_cb=False)
    s.run(6, among=[L, P])
    s.connect(F, L)                       # F is back and forwards a command before it has received anything
    cid = s.submit(F, "fwd")
    s.tick(F, 0.0)
    while s.deliver(F, L):
        pass
    s.tick(L, 0.0)                        # L appends it at index i and answers with i
    m = s.deliver(L, F)
    info = {"first_message_to_submitter": (m or {}).get("type"), "log_idx": (m or {}).get("log_idx")}
    s.cut(F, L)                           # the append_entries behind it are lost with the connection
    s.run(4, among=[L, P])
    s.compact(L)                          # the leader compacts past i
    s.run(4, among=[L, P])
    s.connect(F, L)
    s.connect(F, P)                       # heal; quiet period
    for _ in range(int(40 * 1.5 / 0.0625)):
        s.run(1)
        if [c for c in s.callbacks if c[1] == cid] and len(set(s.objs[i].raftLastApplied for i in s.voters)) == 1:
            break
    cbs = [(r, e) for (n, c, r, e) in s.callbacks if c == cid]
    snap = len([1 for (a, b, mm) in s.sent if b == F and mm.get("serialized") is not None])
    info.update({"callbacks": cbs, "snapshot_chunks_to_submitter": snap,
                 "applied": dict((i, s.objs[i].raftLastApplied) for i in s.voters)})
    viols = []
    everywhere = all("fwd" in s.objs[i].log for i in s.voters)
    if everywhere and not cbs:
        viols.append({"signature": "convergence:post-heal-command-not-acknowledged:skipped-by-snapshot-on-submitter",
                      "what": "command forwarded by %s (log index %r) is in the state of all replicas, the leader never changed, "
                              "40 raftMaxTimeout of quiet time passed, and its callback never fired: %s caught up over it by "
                              "snapshot (%d snapshot messages)" % (F, info["log_idx"], F, snap)})
    if len(cbs) > 1:
        viols.append({"signature": "callback:fired-twice", "what": "callback fired %d times" % len(cbs)})
    if s.errors:
        viols.append({"signature": "tick:exception-escapes", "what": "%s: %s" % (s.errors[0][1], s.errors[0][2])})
    return s, viols, info


def run(ctx):
    t0 = time.time()
    sim, viols, info = scenario(ctx.repo)
    r = result("witness.d61_callback_skipped_by_snapshot", tag(viols, "d61_callback_skipped_by_snapshot", {}),
               dict(info, schedule_events=len(sim.trace)), t0)
    if not info.get("snapshot_chunks_to_submitter") or info.get("first_message_to_submitter") != "apply_command_response":
        r["inconclusive"] = "schedule no longer reaches the snapshot catch-up over a forwarded command: %r" % (info,)
    return r


def replay(ctx, violation):
    sim, viols, info = scenario(ctx.repo)
    return {"violated": bool(viols), "violations": viols[:5], "info": info}
