"""D63 (C10, C09): the member set stored in a snapshot is the node's CURRENT `otherNodes` (= the membership commands
of its whole log, uncommitted ones included), while the snapshot is labelled with position `lastApplied`.  A follower
that installs the snapshot takes over a change it does not hold as a log entry; when that change is later dropped
(leader change) the follower never rolls it back: its member set differs for good from the membership commands of its
log and from every other node's.

Schedule: {a,b,c}, leader L; C is cut off and lags; L (silently cut from F) accepts `add d` (uncommitted, never
replicated), compacts (snapshot at k < index of `add d`, member list already containing d), C reconnects and installs
the snapshot, L is isolated before it can send the entry; F is elected by F+C and overwrites the position.
Monitor (C10 statement): each node's member set equals the set defined by the membership commands in its
log/snapshot; every node agrees on the member set once everything is committed."""
import pickle
import time
from harness.sim import Sim
from harness.witness._common import result, tag

PROPERTIES = ["C10", "C09"]
ORDER = 10

SIG = "membership:snapshot-member-set-not-at-its-position"


def members(sim, i):
    return sorted(n.id for n in sim.objs[i].otherNodes)


def mem_cmds(sim, i):
    out = []
    for (idx, term, cmd) in sim.log_of(i):
        if cmd[:1] == b"\x02":
            out.append((idx, term) + tuple(pickle.loads(cmd[1:])[:2]))
    return out


def scenario(repo):
    sim = Sim(repo, ["a", "b", "c"], conf={"dynamicMembershipChange": True}, seed=3)
    sim.connect_all()
    L = sim.elect()
    assert L is not None
    sim.run(4)
    F, C = [i for i in sim.voters if i != L]
    sim.disconnect(C, L)
    sim.disconnect(C, F)
    for k in range(6):
        sim.submit(L, "p%d" % k)
    sim.run(8, among=[L, F])
    sim.cut(L, F)                       # silent: L still believes it leads
    res = []
    o = sim.objs[L]
    sim._call(L, o.addNodeToCluster, sim.Node("d"), callback=lambda r, e: res.append(("add d", e)))
    sim.tick(L, 0.0625)                 # `add d` appended on L only; L's member set now contains d
    idx_add = [e for e in mem_cmds(sim, L)]
    sim.compact(L)
    sim.tick(L, 0.0625)
    sim.tick(L, 0.0625)                 # snapshot at k = lastApplied < index of `add d`
    k = o.raftLastApplied
    sim.connect(L, C)
    info = {"L": L, "F": F, "C": C, "snapshot_position": k, "membership_entries_of_L": [list(map(str, e)) for e in idx_add]}
    installed = False
    for _ in range(12):
        sim.tick(L, 0.125)
        while not installed and sim.deliver(L, C):
            if sim.objs[C].raftLastApplied >= k and sim.log_of(C)[0][0] >= k - 1:
                installed = True           # the entries that follow the snapshot stay undelivered
        if installed:
            break
        sim.tick(C, 0.0625)
        while sim.deliver(C, L):
            pass
    info["installed"] = installed
    viols = []
    have_c = members(sim, C)
    held = [e for e in mem_cmds(sim, C)]
    info["after_install"] = {"members_of_C": have_c, "membership_entries_in_log_of_C": [list(map(str, e)) for e in held],
                             "last_index_of_C": sim.last_index(C)}
    # L is isolated before the entry reaches anybody; F and C go on
    sim.disconnect(L, C)
    sim.notice(L, F)
    sim.notice(F, L)
    sim.connect(F, C)
    newL = sim.elect(among=[F, C], max_steps=600)
    info["new_leader"] = newL
    for j in range(3):
        sim.submit(F, "q%d" % j)
    sim.run(16, among=[F, C])
    final = {i: members(sim, i) for i in (F, C)}
    info["final"] = {"members": final, "membership_entries_in_logs": {i: [list(map(str, e)) for e in mem_cmds(sim, i)] for i in (F, C)},
                     "applied": {i: sim.objs[i].raftLastApplied for i in (F, C)}}
    want_c = sorted(set(["a", "b", "c"]) - {C})
    if installed and not mem_cmds(sim, C) and final[C] != want_c:
        viols.append({"signature": SIG,
                      "what": "node %s installed the snapshot of position %d taken by %s while `add d` (index %s) was only "
                              "appended there; the entry was dropped by the next leader %s, yet %s's member set is %s although "
                              "neither its log nor its snapshot position contains a membership command (expected %s; %s has %s)"
                              % (C, k, L, [e[0] for e in idx_add], newL, C, final[C], want_c, F, final[F])})
    return sim, viols, info


def run(ctx):
    t0 = time.time()
    sim, viols, info = scenario(ctx.repo)
    r = result("witness.d63_snapshot_members_ahead", tag(viols, "d63_snapshot_members_ahead", {}), info, t0)
    if not info.get("installed"):
        r["inconclusive"] = "the lagging node did not install the snapshot"
    return r


def replay(ctx, violation):
    sim, viols, info = scenario(ctx.repo)
    return {"violated": bool(viols), "violations": viols, "info": info}
