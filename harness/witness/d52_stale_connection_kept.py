"""Witness D52 (C14): a half-open incoming connection of node X that is replaced by a new handshake of X is only
overwritten in the registry, not closed: two CONNECTED connection objects deliver as X, onNodeConnected(X) is reported
twice, and data still in flight on the old connection is delivered as coming from X even after dropNode(X)."""
PROPERTIES = ["C14"]
ORDER = 10

from harness.corr import transport_registry as tr

SIG = "transport.handshake:stale-connection-kept"


def script():
    up = tr.connect_pair(1, 0)
    return up + [["adv", 3900], ["send", 1, ["tcp", 0], 5, False, False], ["dlv*", 1, 0, 0, 99],
                 ["send", 1, ["tcp", 0], 6, False, False],        # stays in flight (black hole 1 -> 0 from now on)
                 ["adv", 1100], ["send", 1, ["tcp", 0], 7, False, False],   # node 1: read timeout, gives up, redials
                 ["adv", 10], ["tick", 1, []], ["syn_ok*", 1, 0], ["accept", 0], ["cev*", 1, 0, False, False],
                 ["dlv*", 1, 0, 0, 99],                           # new handshake at node 0 replaces the stale one
                 ["drop", 0, ["tcp", 1]],                         # node 1 is removed from the cluster at node 0
                 ["dlv", 0, 0, 1, False, False]]                  # the delayed message on the OLD connection arrives


def _run(repo):
    r = tr.Runner(repo, None, {"n": 2, "retry": 2048, "timeout": 4096}, diff=False)
    try:
        tr.run_actions(r, script())
        return sorted(set(v["signature"] for v in r.violations)), [v["what"] for v in r.violations][:4], list(r.trace)
    finally:
        r.close()


def run(ctx):
    sigs, whats, trace = _run(ctx.repo)
    res = {"cases": 1, "distinct": 1, "coverage": {"monitor_signatures": sigs}, "samples": [{"actions": trace}],
           "disagreements": [], "violations": []}
    bad = [s for s in sigs if s in ("transport.deliver:from-non-member", "transport.registry:two-live-connections",
                                    "transport.registry:live-connection-of-non-member")]
    if bad:
        res["violations"].append({"signature": SIG, "what": "; ".join(whats), "replay": {"witness": "d52"}})
    return res


def replay(ctx, violation):
    sigs, whats, trace = _run(ctx.repo)
    return {"violated": bool(sigs), "signatures": sigs, "what": whats, "actions": trace}
