"""D3: next_node_idx replies carried no term: an acknowledgement produced for term T1 and delivered
after the same node won term T3 raised matchIndex for a log the follower no longer has; the leader
committed (and reported SUCCESS for) an entry stored on 2 of 5 voters."""
import time
from harness.sim import Sim
from harness import monitors
from harness.witness._common import result, tag

PROPERTIES = ["C01", "C02", "C04", "C20"]
ORDER = 10


def scenario(repo, seed=1):
    ids = ["a", "b", "c", "d", "e"]
    sim = Sim(repo, ids, seed=seed)
    watch = monitors.CommitWatch(sim)
    sim.connect_all()
    L = sim.elect()
    rest = [i for i in ids if i != L]
    F, P, Q, R = rest
    for x in (L, F):
        for y in (P, Q, R):
            sim.disconnect(x, y)
    for k in range(3):
        sim.submit(L, "old%d" % k)
    sim.tick(L, 0.0625)
    sim.tick(L, 0.25)
    while sim.deliver(L, F):
        pass
    held = list(sim.chan[(F, L)])
    sim.chan[(F, L)].clear()
    N = sim.elect(among=[P, Q, R])
    assert N is not None
    sim.run(6, among=[P, Q, R])
    sim.connect(N, L)
    for s in range(8):
        for i in (P, Q, R):
            sim.tick(i, 0.0625)
        sim.deliver_all(among={P, Q, R, L})
    for x in (P, Q, R):
        sim.connect(L, x)
    for s in range(80):
        sim.tick(L, 0.0625)
        sim.deliver_all(among={P, Q, R, L})
        if sim.objs[L]._isLeader():
            break
    if not sim.objs[L]._isLeader():
        return sim, [], "old leader not re-elected (schedule did not reach the point)"
    watch.step()
    for m in held:
        sim.inject(F, L, m)
    cid = sim.submit(L, "NEW")
    helper = P
    for x in (Q, R):
        sim.disconnect(L, x)
    for s in range(6):
        sim.tick(L, 0.0625)
        sim.tick(helper, 0.0625)
        sim.deliver_all(among={L, helper})
        watch.step()
    viols = watch.out + monitors.sm_safety(sim)
    # C20: in its second term of office the leader reaches ONE other voter of four - no SUCCESS while cut off
    for (node, c, res, err) in sim.callbacks:
        if c == cid and err == 0:
            viols.append({"signature": "fallback:success-while-cut-off",
                          "what": "node %s, leader for the second time and reaching only %s of the 4 other voters, acknowledged 'NEW' with "
                                  "SUCCESS (result %r) on the strength of an acknowledgement %s produced in its first term of office"
                                  % (L, helper, res, F)})
    return sim, viols, None


def run(ctx):
    t0 = time.time()
    sim, viols, note = scenario(ctx.repo)
    if ctx.pid == "C20":
        viols = [v for v in viols if v["signature"] == "fallback:success-while-cut-off"]
    r = result("witness.d03_stale_ack_across_terms", tag(viols, "d03_stale_ack_across_terms", {}),
               {"schedule_events": len(sim.trace), "note": note}, t0)
    return r


def replay(ctx, violation):
    sim, viols, note = scenario(ctx.repo)
    return {"violated": bool(viols), "violations": viols[:5], "note": note}
