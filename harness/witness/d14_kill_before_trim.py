"""D14: kill after the dump file was written and before the journal was trimmed: the first tick after
the restart found journal[0] != dump.prev and CLEARED the journal — entries already acknowledged to the
leader (and counted towards commits) were gone."""
import os
import time
from harness.sim import Sim
from harness.witness._common import result, tag

PROPERTIES = ["C06"]
ORDER = 10


def scenario(repo, tmpdir, seed=1):
    sim = Sim(repo, ["a", "b"], seed=seed, journal_dir=tmpdir, dump=True, conf={"useFork": False})
    sim.connect_all()
    L = sim.elect()
    F = [i for i in sim.voters if i != L][0]
    for k in range(6):
        sim.submit(L, "k%d" % k)
    sim.run(10)
    sim.compact(F)
    sim.tick(F, 0.0625)            # dump written (tmp + rename); the trim happens on the NEXT tick
    for k in range(6, 9):
        sim.submit(L, "k%d" % k)
    for _ in range(4):
        sim.tick(L, 0.0625)
    while sim.deliver(L, F):       # F journals the entries and acknowledges them; no tick on F
        pass
    acked = 0
    for (s, d, m) in sim.sent:
        if s == F and m["type"] == "next_node_idx" and m["success"]:
            acked = max(acked, m["next_node_idx"] - 1)
    before = [e[0] for e in sim.log_of(F)]
    sim.kill(F)
    sim.restart(F)
    sim.tick(F, 0.0625)            # first tick: loads the dump
    after = [e[0] for e in sim.log_of(F)]
    viols = []
    if not after or after[-1] < acked:
        viols.append({"signature": "restart:acknowledged-entries-lost",
                      "what": "follower %s had acknowledged up to index %d (journal %d..%d) — after kill/restart its journal holds %s"
                              % (F, acked, before[0], before[-1], (after[0], after[-1]) if after else None)})
    return sim, viols


def run(ctx):
    t0 = time.time()
    sim, viols = scenario(ctx.repo, ctx.tmpdir())
    return result("witness.d14_kill_before_trim", tag(viols, "d14_kill_before_trim", {}),
                  {"schedule_events": len(sim.trace)}, t0)


def replay(ctx, violation):
    sim, viols = scenario(ctx.repo, ctx.tmpdir())
    return {"violated": bool(viols), "violations": viols[:5]}
