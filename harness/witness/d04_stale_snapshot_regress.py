"""D4: a stale `reset` reply plus compaction made the leader send a snapshot at k to a follower that
already held / had acknowledged / had applied entries > k; the install cleared them and moved
raftLastApplied backwards, entries were then executed a second time."""
import time
from collections import Counter
from harness.sim import Sim
from harness import monitors
from harness.witness._common import result, tag

PROPERTIES = ["C01", "C04"]
ORDER = 10


def scenario(repo, seed=1):
    sim = Sim(repo, ["a", "b", "c"], seed=seed)
    watch = monitors.CommitWatch(sim)
    sim.connect_all()
    L = sim.elect()
    F, P = [i for i in sim.voters if i != L]
    sim.disconnect(L, F)
    sim.disconnect(P, F)
    for k in range(6):
        sim.submit(L, "x%d" % k)
    sim.run(10, among=[L, P])
    sim.disconnect(L, P)
    sim.connect(P, F)
    for s_ in range(200):
        sim.tick(P, 0.0625)
        while True:
            q = sim.chan[(P, F)]
            if not q:
                break
            if q[0]["type"] == "append_entries":
                q.popleft()
                continue
            sim.deliver(P, F)
        while sim.deliver(F, P):
            pass
        if sim.objs[P]._isLeader():
            break
    if not sim.objs[P]._isLeader():
        return sim, [], "up-to-date node did not become leader"
    L = P
    sim.chan[(L, F)].clear()
    sim.tick(L, 0.25)
    sim.tick(L, 0.25)
    while sim.deliver(L, F):
        pass
    replies = list(sim.chan[(F, L)])
    sim.chan[(F, L)].clear()
    if len(replies) < 2:
        return sim, [], "less than two reset replies in flight"
    sim.inject(F, L, replies[0])
    for s in range(6):
        sim.tick(L, 0.0625)
        sim.tick(F, 0.0625)
        sim.deliver_all(among={L, F})
        watch.step()
    sim.compact(L)
    for s in range(3):
        sim.tick(L, 0.0625)
        sim.deliver_all(among={L, F})
    for k in range(6, 9):
        sim.submit(L, "x%d" % k)
    for s in range(8):
        sim.tick(L, 0.0625)
        sim.tick(F, 0.0625)
        sim.deliver_all(among={L, F})
        watch.step()
    sim.inject(F, L, replies[1])          # the second, stale reset reply
    sim.tick(L, 0.25)
    while sim.deliver(L, F):
        watch.step()
    watch.step()
    sim.run(10, among=[L, F])
    watch.step()
    viols = watch.out + monitors.sm_safety(sim) + monitors.sm_state(sim)
    dup = [p for p, c in Counter(p for p, _ in sim.execs[F]).items() if c > 1]
    if dup:
        viols.append({"signature": "sm-safety:position-executed-twice",
                      "what": "follower %s executed positions %s more than once" % (F, dup)})
    return sim, viols, None


def run(ctx):
    t0 = time.time()
    sim, viols, note = scenario(ctx.repo)
    return result("witness.d04_stale_snapshot_regress", tag(viols, "d04_stale_snapshot_regress", {}),
                  {"schedule_events": len(sim.trace), "note": note}, t0)


def replay(ctx, violation):
    sim, viols, note = scenario(ctx.repo)
    return {"violated": bool(viols), "violations": viols[:5], "note": note}
