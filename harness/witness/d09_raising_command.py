"""D9: a replicated method that raises inside `__doApplyCommand` (syncobj.py, `__applyLogEntries`).

Unrepaired code: the exception escapes `__applyLogEntries` after the subscribers of the entry were popped
(the submitter's callback never fires), `lastApplied` is not advanced, so EVERY replica retries the same
entry on every tick forever; on the leader the exception aborts `_onTick` before `__sendAppendEntries`
(no more heartbeats, no later command is ever applied).

Replay (real classes under harness/sim.py, 3 voters): elect a leader, submit add(1), boom(2), add(3) with
callbacks, run 4 virtual seconds.  Repaired code (fixes/D09-raising-command-advances.diff): the exception
becomes the result of the command (`callback(exc, FAIL_REASON.SUCCESS)`), every replica advances."""
import time

from harness import sim as simmod
from harness.witness._common import result, tag

PROPERTIES = ["C12"]
ORDER = 10


def scenario(ctx):
    import logging
    logging.getLogger().setLevel(logging.CRITICAL + 1)
    s = simmod.Sim(ctx.repo, ["a", "b", "c"], seed=9)
    s.connect_all()
    ldr = s.elect()
    viols = []
    if ldr is None:
        return [{"signature": "witness:no-leader", "what": "no leader elected in the warm-up"}], {}
    c1 = s.submit(ldr, 1)
    s.run(8)
    c2 = s.submit(ldr, 2, method="boom")
    c3 = s.submit(ldr, 3)
    s.run(64)
    applied = dict((i, s.objs[i].raftLastApplied) for i in s.voters)
    commit = dict((i, s.objs[i].raftCommitIndex) for i in s.voters)
    states = dict((i, list(s.objs[i].log)) for i in s.voters)
    cbs = dict((cid, [(r if not isinstance(r, Exception) else "exc:%s" % type(r).__name__, e)
                      for (_, c, r, e) in s.callbacks if c == cid]) for cid in (c1, c2, c3))
    execs = dict((i, len(s.execs[i])) for i in s.voters)
    if s.errors:
        viols.append({"signature": "apply-loop:exception-escapes",
                      "what": "%d exceptions escaped doTick/onMessage, first: %s %s on node %s"
                              % (len(s.errors), s.errors[0][1], s.errors[0][2], s.errors[0][0])})
    last = max(s.last_index(i) for i in s.voters)
    stuck = [i for i in s.voters if applied[i] < last]
    if stuck:
        viols.append({"signature": "apply-loop:raising-command-wedges",
                      "what": "lastApplied %r stays below the log end %d (commit %r); the raising entry was executed %r times"
                              % (applied, last, commit, execs)})
    if len(cbs[c2]) != 1:
        viols.append({"signature": "apply-loop:callback-lost" if not cbs[c2] else "apply-loop:callback-not-once",
                      "what": "callback of the raising command fired %d times" % len(cbs[c2])})
    if cbs[c3] != [(3, 0)]:
        viols.append({"signature": "apply-loop:later-command-not-applied",
                      "what": "callback of the command after the raising one: %r (expected [(3, SUCCESS)])" % (cbs[c3],)})
    if len(set(map(repr, states.values()))) != 1:
        viols.append({"signature": "apply-loop:replicas-differ", "what": "object states differ: %r" % (states,)})
    if s.leader() is None:
        viols.append({"signature": "apply-loop:leader-lost", "what": "no single leader after the raising command"})
    return viols, {"leader": ldr, "lastApplied": applied, "commit": commit, "callbacks": cbs, "states": states,
                   "escaped": len(s.errors), "executions": execs}


def run(ctx):
    t0 = time.time()
    viols, sample = scenario(ctx)
    return result("D09-raising-command", tag(viols, "d09", {}), sample, t0)


def replay(ctx, violation):
    viols, sample = scenario(ctx)
    return {"violated": bool(viols), "violations": viols, "observed": sample}
