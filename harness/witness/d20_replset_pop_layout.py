"""D20 (repaired in /repo by 56b6cb5, fixes/D20-replset-pop-deterministic.diff): `ReplSet.pop()` used to be
`set.pop()`, whose choice is NOT a function of the set's contents: CPython scans the hash table from a
per-object "finger", so the element returned depends on the table size (which only grows while the object
lives), on the insertion/deletion history (collision chains), on the finger left behind by earlier pops and,
for str elements, on the per-process hash seed.  None of that is part of `_serialize()`: a replica rebuilt
from a snapshot, or simply another process, held an equal set, popped another element, and from then on the
replicas held different contents ("after replication all replicas of a battery are equal" failed).

The witness evaluates exactly that statement: two ReplSets with EQUAL contents (different histories / one
rebuilt by a pickle round trip of `_serialize()` / built in processes with different PYTHONHASHSEED) execute
pop(): same result, same contents afterwards.  Silent on a repaired tree; on the tree before the repair it
trips with signature `batteries.ReplSet.pop:layout-dependent`."""
import os
import pickle
import subprocess
import sys
import time

from harness.corr.batteries_ops import load_batteries
from harness.witness._common import result, tag

PROPERTIES = ["C15"]
ORDER = 10

# name -> (history of replica A, how replica B is made: "snapshot" of A | an explicit history)
SCENARIOS = {
    # table grown to 128 slots, then emptied down to {1, 8}: the rebuilt replica has 8 slots (8 -> slot 0)
    "shrunk-table": ([("add", i) for i in range(40)] + [("discard", i) for i in range(40) if i not in (1, 8)], "snapshot"),
    # pop finger: after pop() the scan resumes behind the popped slot; a rebuilt replica starts at 0
    "finger": ([("add", 1), ("add", 2), ("add", 3), ("pop",), ("add", 1), ("add", 2), ("add", 3)], "snapshot"),
    # found by the seeded monitor run on the old code, minimised
    "finger-2": ([("add", 1), ("pop",), ("add", 1), ("add", 5), ("add", 16)], "snapshot"),
    # same contents, other insertion order (1 and 9 collide in an 8-slot table)
    "insertion-order": ([("add", 1), ("add", 9)], [("add", 9), ("add", 1)]),
    # repr order is not numeric order: a rule must still be one rule
    "negative-and-long": ([("add", x) for x in (100, -2, 10, 2, -1)], [("add", x) for x in (-1, 2, 10, -2, 100)]),
    # members whose type has no total order: the rule must not compare the members themselves
    "incomparable-tuples": ([("add", x) for x in ((1, 'a'), ('a', 1), (1, None), (1, 2))], "snapshot"),
    "complex": ([("add", x) for x in (2j, 1j, (3+1j))], [("add", x) for x in ((3+1j), 1j, 2j)]),
    "frozensets": ([("add", frozenset(x)) for x in ([1, 2], [2, 3], [1])], [("add", frozenset(x)) for x in ([1], [2, 3], [1, 2])]),
}

CHILD = r"""
import sys
sys.path.insert(0, sys.argv[1])
from pysyncobj.batteries import ReplSet
s = ReplSet()
for w in ['pear', 'fig', 'apple', 'kiwi', 'plum', 'lime', 'date', 'nut']:
    s.add(w, _doApply=True)
out = []
for _ in range(4):
    out.append(s.pop(_doApply=True))
print(','.join(out) + '|' + ','.join(sorted(s.rawData())))
"""


def build(B, hist):
    a = B.ReplSet()
    for op in hist:
        getattr(a, op[0])(*op[1:], _doApply=True)
    return a


def scenario(repo, name):
    B = load_batteries(repo)
    hist, other = SCENARIOS[name]
    a = build(B, hist)
    if other == "snapshot":
        b = B.ReplSet()                               # the replica that installs a's snapshot
        b._deserialize(pickle.loads(pickle.dumps(a._serialize(), -1)))
    else:
        b = build(B, other)
    from harness.corr.batteries_mixed import value_key
    srt = lambda c: sorted(c, key=value_key)
    before_a, before_b = srt(a.rawData()), srt(b.rawData())
    try:
        pa, pb = a.pop(_doApply=True), b.pop(_doApply=True)
    except Exception as e:
        return [{"signature": "batteries.ReplSet.pop:differs-from-builtin:%s" % type(e).__name__,
                 "what": "scenario %s: pop() on the non-empty ReplSet %r raised %r (set.pop() returns a member)" % (name, before_a, e)}], \
               {"scenario": name, "contents_before": [repr(before_a), repr(before_b)], "pop": "raised %r" % (e,)}
    after_a, after_b = srt(a.rawData()), srt(b.rawData())
    obs = {"scenario": name, "contents_before": [repr(before_a), repr(before_b)], "pop": [repr(pa), repr(pb)],
           "contents_after": [repr(after_a), repr(after_b)]}
    viols = []
    if before_a != before_b:
        viols.append({"signature": "batteries.ReplSet:witness-setup-contents-differ",
                      "what": "scenario %s: contents differ before the pop: %r / %r" % (name, before_a, before_b)})
    elif pa != pb or after_a != after_b:
        viols.append({"signature": "batteries.ReplSet.pop:layout-dependent",
                      "what": "two replicas of a ReplSet with equal contents %r (scenario %s) execute pop(): results %r / %r, "
                              "contents afterwards %r / %r" % (before_a, name, pa, pb, after_a, after_b)})
    elif pa not in before_a or after_a != [x for x in before_a if x != pa]:
        viols.append({"signature": "batteries.ReplSet.pop:not-a-set-pop",
                      "what": "pop() on %r returned %r and left %r" % (before_a, pa, after_a)})
    return viols, obs


def hashseed_scenario(repo):
    """str elements, two processes with different hash seeds (what two nodes of a real cluster are)"""
    outs = []
    for seed in ("1", "2", "12345"):
        env = dict(os.environ, PYTHONHASHSEED=seed)
        p = subprocess.run([sys.executable, "-c", CHILD, repo], env=env, stdout=subprocess.PIPE, stderr=subprocess.PIPE,
                           timeout=60)
        outs.append(p.stdout.decode().strip() if p.returncode == 0 else "child failed: " + p.stderr.decode()[-300:])
    obs = {"scenario": "str-elements-hash-seeds", "pops|rest per PYTHONHASHSEED 1,2,12345": outs}
    viols = []
    if any(o.startswith("child failed") for o in outs):
        viols = []                                    # environment problem, reported through the sample only
    elif len(set(outs)) > 1:
        viols.append({"signature": "batteries.ReplSet.pop:layout-dependent",
                      "what": "ReplSets of the same 8 strings in three processes with different hash seeds: four pop() calls "
                              "returned / left %r" % (outs,)})
    return viols, obs


def run(ctx):
    t0 = time.time()
    viols, samples = [], []
    for name in SCENARIOS:
        v, obs = scenario(ctx.repo, name)
        tag(v, "d20_replset_pop_layout", {"scenario": name})
        samples.append(obs)
        if v and not viols:
            viols = v
    v, obs = hashseed_scenario(ctx.repo)
    tag(v, "d20_replset_pop_layout", {"scenario": "str-elements-hash-seeds"})
    samples.append(obs)
    if v and not viols:
        viols = v
    r = result("witness.d20_replset_pop_layout", viols, samples[0], t0)
    r["cases"] = r["distinct"] = len(samples)
    r["samples"] = samples[:1] + samples[-2:]
    return r


def replay(ctx, violation):
    name = violation.get("replay", {}).get("scenario", "shrunk-table")
    if name == "str-elements-hash-seeds":
        viols, obs = hashseed_scenario(ctx.repo)
    else:
        viols, obs = scenario(ctx.repo, name)
    return {"violated": bool(viols), "observed": obs, "violations": viols}
