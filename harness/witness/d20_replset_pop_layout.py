"""D20: `ReplSet.pop()` = `set.pop()`, whose choice is NOT a function of the set's contents: CPython scans
the hash table from a per-object "finger" position, so the element returned depends on the table size
(which only ever grows while the object lives), on the insertion/deletion history (collision chains)
and on the finger left behind by earlier pops.  None of that is part of `_serialize()`: a replica rebuilt
from a snapshot (pickle round trip of the attribute dictionary) holds an equal set with another layout,
pops another element, and from then on the replicas hold different contents ("after replication all
replicas of a battery are equal" fails).  Three independent mechanisms are replayed, with ints only
(their hash does not depend on PYTHONHASHSEED; with str elements two processes diverge even without a
snapshot).  Recorded as a finding (signature `batteries.ReplSet.pop:layout-dependent`): there is no
small repair that keeps `set` semantics for arbitrary (unorderable) elements."""
import pickle
import time

from harness.corr.batteries_ops import load_batteries
from harness.witness._common import result, tag

PROPERTIES = ["C15"]
ORDER = 10

SCENARIOS = {
    # table grown to 128 slots, then emptied down to {1, 8}: rebuilt replica has 8 slots (8 -> slot 0)
    "shrunk-table": [("add", i) for i in range(40)] + [("discard", i) for i in range(40) if i not in (1, 8)],
    # pop finger: after pop() the scan resumes behind the popped slot; a rebuilt replica starts at 0
    "finger": [("add", 1), ("add", 2), ("add", 3), ("pop",), ("add", 1)],
    # found by the seeded monitor run, minimised
    "finger-2": [("add", 1), ("pop",), ("add", 5), ("add", 16)],
}


def scenario(repo, name):
    B = load_batteries(repo)
    a = B.ReplSet()
    for op in SCENARIOS[name]:
        getattr(a, op[0])(*op[1:], _doApply=True)
    b = B.ReplSet()                                   # the replica that installs a's snapshot
    b._deserialize(pickle.loads(pickle.dumps(a._serialize(), -1)))
    before_a, before_b = sorted(a.rawData()), sorted(b.rawData())
    pa, pb = a.pop(_doApply=True), b.pop(_doApply=True)
    after_a, after_b = sorted(a.rawData()), sorted(b.rawData())
    obs = {"scenario": name, "contents_before": [before_a, before_b], "pop": [pa, pb],
           "contents_after": [after_a, after_b]}
    viols = []
    if before_a == before_b and (pa != pb or after_a != after_b):
        viols.append({"signature": "batteries.ReplSet.pop:layout-dependent",
                      "what": "two replicas of a ReplSet with equal contents %r (one applied the history, one was rebuilt from "
                              "its snapshot) execute pop(): results %r / %r, contents afterwards %r / %r"
                              % (before_a, pa, pb, after_a, after_b)})
    elif before_a != before_b:
        viols.append({"signature": "batteries.ReplSet:snapshot-changes-contents",
                      "what": "snapshot round trip changed the contents: %r -> %r" % (before_a, before_b)})
    return viols, obs


def run(ctx):
    t0 = time.time()
    viols, samples = [], []
    for name in SCENARIOS:
        v, obs = scenario(ctx.repo, name)
        tag(v, "d20_replset_pop_layout", {"scenario": name})
        samples.append(obs)
        if v and not viols:
            viols = v
    r = result("witness.d20_replset_pop_layout", viols, samples[0], t0, {"scenarios_tripped": sum(1 for s in samples if s["pop"][0] != s["pop"][1])})
    r["cases"] = r["distinct"] = len(SCENARIOS)
    r["samples"] = samples
    return r


def replay(ctx, violation):
    name = violation.get("replay", {}).get("scenario", "shrunk-table")
    viols, obs = scenario(ctx.repo, name)
    return {"violated": bool(viols), "observed": obs, "violations": viols}
