"""D76 witness (C13, C11): a partial write is flushed without a further send().

Pinned code: `send()` -> `__trySendBuffer` leaves the unsent tail in the write buffer on EAGAIN / short write but
never subscribes the descriptor for WRITE; the subscription is only re-evaluated inside a WRITE event and has
dropped to READ|ERROR after the first one.  The tail of a message larger than the socket buffer therefore leaves
only when the application calls `send()` again (real sockets: a 3 MB message stayed pending through 50 polls with
the peer reading).  Repair: `__trySendBuffer` re-subscribes READ|WRITE|ERROR when bytes remain on a CONNECTED
connection (/tmp/d76.diff).

Cases: the `drain` family of harness/corr/tcp_framing.py with directed parameters (poller simulated faithfully:
WRITE events only while the descriptor is subscribed for WRITE; the peer keeps reading; nothing further is sent).
"""
from harness.corr import tcp_framing as F

PROPERTIES = ["C13", "C11"]
ORDER = 10


def witness_cases(env, rng):
    t = env.table
    small = t.vid({"type": "append_entries", "term": 3})
    big = t.vid(rng.randbytes(200000))
    out = []
    for init in ("socket", "connect"):
        for last, script in (("eagain", ["a"]), ("short", [100, "a"]), ("zero", [0]), ("short", [8192, "a"])):
            for msgs in ([[big, script]], [[small, [10 ** 9]], [big, script]], [[small, script]]):
                out.append({"kind": "drain", "last": last, "init": init, "warm_write_events": 1,
                            "msgs": [list(m) for m in msgs], "accept": 8192, "both_bits": False})
    return out


def run(ctx):
    cov = {}
    res = {"cases": 0, "distinct": 0, "coverage": cov, "samples": [], "disagreements": [], "violations": []}
    with F.Env(ctx.repo, cov) as env:
        cases = witness_cases(env, ctx.rng("d76"))
        tripped = 0
        for dc in cases:
            obs = F.run_drain(env, dc)
            res["cases"] += 1
            viol = F.monitor_drain(env, dc, obs)
            if viol:
                tripped += 1
            for x in viol:
                if x["signature"] not in [y["signature"] for y in res["violations"]]:
                    x["replay"] = F.public_drain(env, dc)
                    res["violations"].append(x)
        res["distinct"] = len(cases)
        cov["witness_cases_tripped"] = tripped
        s = dict(cases[0])
        s["msgs"] = [[m, sc] for m, sc in s["msgs"]]
        res["samples"].append(s)
    return res


def replay(ctx, violation):
    return F.replay(ctx, violation)
