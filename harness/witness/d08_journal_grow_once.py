"""D8: `ResizableFile.write` grows the mapping once (x2) per write (pysyncobj/journal.py:96-104).  A record
that still does not fit after one doubling makes the slice store raise IndexError *after*
`FileJournal.add` has already appended the entry to its in-memory list: list and file diverge, and a
reopen loses the entry.  Repair: fixes/D08-journal-grow-until-fits.diff (grow to max(2*size, offset+len)).
The witness checks the C08 statement directly (journal == plain list, also after reopen) for records
larger than the file; on a repaired tree it returns no violation."""
import os
import shutil
import time

from harness.corr import journal_lib as lib

PROPERTIES = ["C08", "C11"]
ORDER = 10

SIZES = [5000, 1024, 2048, 2049, 8192, 100 * 1024]


def signature_of(problem):
    """D8's own signature only for D8's fault class (the store does not fit: IndexError out of add);
    any other way of failing this scenario is a different defect and gets a different signature."""
    if problem is None:
        return None
    if "raises IndexError" in problem:
        return lib.D8_SIGNATURE
    if "raises" in problem.split(";")[0]:
        return "journal.add:exception-on-large-record"
    return "journal.add:large-record-list-divergence"


def scenario(jm, path, size):
    """fresh FileJournal, add(b'x'*10, 1, 0), add(b'y'*size, 2, 0); returns None or a description"""
    lib.remove_files(path)
    j = jm.FileJournal(path)
    ref = []
    problem = None
    try:
        for cmd, idx, term in ((b"x" * 10, 1, 0), (b"y" * size, 2, 0)):
            ref.append((cmd, idx, term))
            try:
                j.add(cmd, idx, term)
            except Exception as e:                       # noqa
                problem = "add of a %d-byte command to a %d-byte journal file raises %s: %s" % (
                    len(cmd), os.path.getsize(path), type(e).__name__, e)
                break
        got = [j[i] for i in range(len(j))]
        if problem is None and (len(j) != 2 or got != ref):
            problem = "journal holds %d entries %s, the list %d" % (len(j), lib.short_ents(got), len(ref))
        j._destroy()
        j = jm.FileJournal(path)
        got2 = [j[i] for i in range(len(j))]
        if got2 != ref:
            problem = (problem + "; " if problem else "") + "after reopen the journal holds %d of %d entries %s" % (
                len(got2), len(ref), lib.short_ents(got2))
        elif problem is not None:
            problem += "; in-memory list had %d entries, reopened file %d" % (len(got), len(got2))
    finally:
        try:
            j._destroy()
        except Exception:                                # noqa
            pass
        lib.remove_files(path)
    return problem


def run(ctx):
    t0 = time.time()
    jm = lib.load_journal(ctx.repo)
    path = os.path.join(ctx.tmpdir(), "d08-journal")
    viols, results = [], {}
    for size in SIZES:
        p = scenario(jm, path, size)
        results[str(size)] = "ok" if p is None else p
        if p is not None and not viols:
            viols.append({"signature": signature_of(p),
                          "what": "fresh FileJournal (1024-byte file), add(b'x'*10,1,0) then add(b'y'*%d,2,0): %s" % (size, p),
                          "replay": {"witness": "d08_journal_grow_once", "size": size}})
    return {"cases": len(SIZES), "distinct": len(SIZES), "violations": viols, "disagreements": [],
            "samples": [{"second_command_bytes": s, "result": results[str(s)][:200]} for s in SIZES[:3]],
            "coverage": {"tripped": bool(viols), "sizes": SIZES, "failing_sizes": [int(s) for s, r in results.items() if r != "ok"]},
            "wall_s": round(time.time() - t0, 2)}


def replay(ctx, violation):
    jm = lib.load_journal(ctx.repo)
    size = int((violation.get("replay") or {}).get("size", 5000))
    tmp = ctx.tmpdir()
    try:
        p = scenario(jm, os.path.join(tmp, "d08-journal"), size)
    finally:
        shutil.rmtree(tmp, ignore_errors=True)      # ./check --replay does not clean up the ctx
    return {"violated": p is not None, "signature": signature_of(p), "what": p, "size": size, "tree": ctx.repo}
