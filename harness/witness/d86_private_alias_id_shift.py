"""D86 (known finding, listed in known_findings.json with the signature below): adding a higher version shifts the ids of
existing methods when the class has a name-mangled private replicated method or an alias of a replicated method.

`SyncObj.__init__` enumerates every attribute `m` with `m != origName`. For `def __priv` the class attribute is
`_Obj__priv` (origName `__priv`), for `alias = f` it is `alias` (origName `f`): both pass the filter and are enumerated
next to the `_vN` copies, carrying the `ver` of the last definition of the method. Old code: `__priv`(0), `__priv_v0`(0),
`z_v0`(0) -> ids 0, 1, 2. New code adds `@replicated(ver=1) def __priv`: the extra entry now has version 1 and sorts
behind: `__priv_v0`, `z_v0`, `__priv`, `__priv_v1` -> an old log entry with id 1 (a `__priv` call) runs `z_v0` on the new
code. C17: "adding replicated methods whose version number is higher than every version present in the old code never
changes how existing log entries are interpreted"."""
import time

from harness.corr import versions_lib as L
from harness.witness._common import result, tag

PROPERTIES = ["C17"]
ORDER = 10

SIG = "syncobj.init:method-id-moved-by-higher-version:private-or-alias"

OLD_PRIV = '''
class Obj(SyncObj):
    @replicated
    def __priv(self, x): pass
    @replicated
    def z(self, x): pass
'''
NEW_PRIV = OLD_PRIV + '''
    @replicated(ver=1)
    def __priv(self, x): pass
'''
OLD_ALIAS = '''
class Obj(SyncObj):
    @replicated
    def f(self, x): pass
    alias = f
    @replicated
    def z(self, x): pass
'''
NEW_ALIAS = '''
class Obj(SyncObj):
    @replicated
    def f(self, x): pass
    @replicated(ver=1)
    def f(self, x): pass
    alias = f
    @replicated
    def z(self, x): pass
'''


def _ids(ns, src):
    from pysyncobj import SyncObj, SyncObjConf, replicated
    g = {"SyncObj": SyncObj, "replicated": replicated}
    exec(compile(src, "<d86>", "exec"), g)
    o = g["Obj"](ns["Node"]("a"), [], conf=SyncObjConf(autoTick=False), transportClass=ns["DummyTransport"])
    try:
        return [(o._idToMethod[i].origName, o._idToMethod[i].ver, o._idToMethod[i].__name__) for i in range(len(o._idToMethod))]
    finally:
        o._doDestroy()


def scenario(ctx):
    ns = L.load(ctx.repo)
    viols, seen = [], {}
    for label, old, new in (("private", OLD_PRIV, NEW_PRIV), ("alias", OLD_ALIAS, NEW_ALIAS)):
        io, inw = _ids(ns, old), _ids(ns, new)
        seen[label] = {"old": [list(x) for x in io], "new": [list(x) for x in inw]}
        # an id that a call can put into the log on the old code (a `_vN` copy) must denote the same method on the new code
        moved = [(i, io[i], inw[i] if i < len(inw) else None) for i in range(len(io))
                 if io[i][2].endswith("_v%d" % io[i][1]) and (i >= len(inw) or inw[i] != io[i])]
        if moved:
            viols.append({"signature": SIG,
                          "what": "%s method: id %d is %r on the old code and %r on the new code (only a version-1 implementation was added)"
                                  % (label, moved[0][0], moved[0][1], moved[0][2])})
    return viols, seen


def run(ctx):
    t0 = time.time()
    viols, sample = scenario(ctx)
    return result("D86-private-alias-id-shift", tag(viols, "d86", {}), sample, t0)


def replay(ctx, violation):
    viols, sample = scenario(ctx)
    return {"violated": bool(viols), "violations": viols, "observed": sample}
