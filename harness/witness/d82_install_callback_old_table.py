"""D82: inside `__loadDumpFile` the callbacks of own commands that an installed snapshot covers (answered with
`(None, LEADER_CHANGED)`) were called BEFORE `__onSetCodeVersion(self.__enabledCodeVersion)`: `getCodeVersion()` already
reported the snapshot's version, but a command re-submitted from such a callback (the usual reaction to an open outcome)
was encoded with the OLD method table - every node then runs the old implementation at the new version.

Replay on the real code (two instances of the same code `add` v0/v1 on the object, `note` v0/v1 on a consumer):
leader L applies add('first') [index 2, forwarded by follower F: F keeps the callback for index 2], VERSION 1, add('x');
L compacts. F (cut off meanwhile, still at position 1, version 0) installs L's snapshot through the real
`__loadDumpFile(clearJournal=True)`; the callback fires inside it and retries with REAL calls `F.add('retry')`,
`F.consumer.note('retry')` (they go to F's command queue). The queued commands are then appended to the log of both
nodes, committed and applied. Monitor (property text): the callback sees getCodeVersion() == 1 and the retried calls
execute the version-1 implementations on both nodes."""
import random
import time

from harness.corr import versions_lib as L
from harness.witness._common import result, tag

PROPERTIES = ["C17"]
ORDER = 10

SIG = "syncobj.loadDumpFile:call-from-install-callback-not-newest-version-le-enabled"
SPEC = {"objs": [[("add", 0, "r"), ("add", 1, "r")], [("note", 0, "r"), ("note", 1, "r")]]}


def scenario(ctx):
    ns = L.load(ctx.repo)
    clock = L.Clock(ns)
    src = L.source_of(SPEC, random.Random(1))
    seen = {}
    try:
        lead = L.build(ns, SPEC, src, hook=lambda old, new: None)
        fol = L.build(ns, SPEC, src, hook=lambda old, new: None)
        add0 = lead.obj._methodToID["add_v0"]
        log = [[["noop"], 1, 0], [["reg", add0, 1], 2, 1], [["ver", 1], 3, 1], [["reg", lead.obj._methodToID["add_v1"], 2], 4, 1]]
        L.inject(lead, {"enabled": 0, "tableVer": 0, "lastApplied": 1, "commit": 4, "log": log, "waiting": []})
        lead.obj._SyncObj__applyLogEntries()
        lead.obj._SyncObj__lastSerializedEntry = None
        lead.obj._SyncObj__forceLogCompaction = True
        lead.obj._SyncObj__tryLogCompaction()
        assert lead.obj._SyncObj__serializer._Serializer__pid == -1, "no dump made"
        snapshot = lead.obj._SyncObj__serializer._Serializer__inMemorySerializedData
        lead.obj._SyncObj__tryLogCompaction()          # second phase: journal trimmed to the dump

        # follower: forwarded add('first'), learnt index 2, was cut off before it got the entry
        def retry(res, err):
            seen["callback_got"] = (res, err)
            seen["version_in_callback"] = fol.obj.getCodeVersion()
            try:
                fol.obj.add(77, callback=lambda *a: None)
                fol.consumers[0].note(77, callback=lambda *a: None)
            except Exception as e:
                seen["retry_raised"] = type(e).__name__
        fol.obj._SyncObj__commandsWaitingCommit[2].append((1, retry))
        fol.obj._SyncObj__serializer._Serializer__inMemorySerializedData = snapshot
        q = fol.obj._SyncObj__commandsQueue
        fol.obj._SyncObj__loadDumpFile(clearJournal=True)
        seen["follower_version_after_install"] = fol.obj.getCodeVersion()
        retried = []
        while True:
            try:
                retried.append(q.get_nowait()[0])
            except Exception:
                break
        seen["retried_commands"] = len(retried)
        # the retried commands reach the log of both nodes and are applied
        for b in (lead, fol):
            del b.rec[:]
            lg = b.obj._SyncObj__raftLog
            for i, raw in enumerate(retried):
                lg.add(raw, 5 + i, 1)
            b.obj._SyncObj__raftCommitIndex = 4 + len(retried)
            b.obj._SyncObj__applyLogEntries()
        seen["ran_on_leader"] = [list(r) for r in lead.rec if r[0] == "ran"]
        seen["ran_on_follower"] = [list(r) for r in fol.rec if r[0] == "ran"]
        L.destroy(lead)
        L.destroy(fol)
    finally:
        clock.restore()
    viols = []
    want = [["ran", 0, "add", 1, 77], ["ran", 1, "note", 1, 77]]
    if seen.get("callback_got") != (None, 5):
        viols.append({"signature": "witness.d82:callback-not-fired", "what": "the covered command's callback got %r" % (seen.get("callback_got"),)})
    elif seen.get("retry_raised") or seen["version_in_callback"] != 1 or seen["ran_on_leader"] != want or seen["ran_on_follower"] != want:
        viols.append({"signature": SIG,
                      "what": "commands re-submitted from the LEADER_CHANGED callback inside the snapshot install (getCodeVersion()=%r there%s) "
                              "executed %r on the leader and %r on the follower, both at version 1; expected the version-1 implementations"
                              % (seen["version_in_callback"], ", raised " + seen["retry_raised"] if seen.get("retry_raised") else "",
                                 seen["ran_on_leader"], seen["ran_on_follower"])})
    seen["callback_got"] = list(seen.get("callback_got") or [])
    return viols, seen


def run(ctx):
    t0 = time.time()
    viols, sample = scenario(ctx)
    return result("D82-install-callback-old-table", tag(viols, "d82", {}), sample, t0)


def replay(ctx, violation):
    viols, sample = scenario(ctx)
    ctx.cleanup()
    return {"violated": bool(viols), "violations": viols, "observed": sample}
