"""D15: `FileJournal.deleteEntriesTo` used to be `clear()` + re-`add` of every kept entry: a kill after the
header store of clear() and before the last re-add was published left a journal lacking entries the
operation was meant to keep (C08: "the reopened journal holds a contiguous range of the previous entries
that includes everything the interrupted operation was meant to keep"; C06: such entries may already be
acknowledged).  Repair: fixes/D15-journal-head-drop-by-atomic-replace.diff - the kept entries are written
to `<journal>.tmp`, which then replaces the journal by one rename.
Witness: real FileJournal with 5 entries, deleteEntriesTo(2) really killed (recorder kill plan, objects
abandoned without _destroy/flush) before every primitive write, after the last one, and inside every
tearable one (sampled byte counts); the directory is reopened with the real class.  The reopened journal
must be the old list or exactly old[2:].  Silent on the repaired tree; on the old code it trips with
`journal.deleteEntriesTo:kill-between-clear-and-readd` (the recorder follows both code versions: the old
head drop writes into the journal file itself).  The scenario is also examined at file-system level (the
directory before / after every file-system call of the head drop); a journal file missing in between is
reported as `journal.deleteEntriesTo:journal-file-missing-after-kill`."""
import os
import shutil
import time

from harness.corr import journal_lib as lib

PROPERTIES = ["C08", "C06"]
ORDER = 10

PRE = [["add", i + 1, 1, {"n": 6 + i, "s": i}] for i in range(5)]
OP = ["delto", 2]


def t_points(L):
    return sorted(set(t for t in (0, 1, 4, 5, 20, 21, L // 2, L - 4, L - 1) if 0 <= t < max(L, 1)))


def scenario(jm, tmp, pre=PRE, op=OP):
    """returns (rows per crash point, first failure (k, t, signature, text) or None, number of primitives)"""
    path = os.path.join(tmp, "d15-journal")
    lib.remove_files(path)
    real = lib.Real(jm, path)
    ref = []
    try:
        for o in pre:
            if o[0] == "crashat":
                o, _ = lib.concretise_crashat(jm, os.path.join(tmp, "d15-dry"), real, o)
                real, _k = lib.crash_reopen(real, o[1], o[2], o[3])
            elif o[0] == "reopen":
                real = lib.reopen(real, o[1])
            else:
                real.apply(o)
            lib.ref_apply(ref, o)
        snap = lib.snapshot(path)
        pending = real.pending_ci()
        prims = lib.dry_prims(jm, os.path.join(tmp, "d15-dry"), real, op)      # to learn the primitive writes
    finally:
        real.abandon()
        lib.remove_files(path)
    np_ = len(prims)
    keep = ref[min(op[1], len(ref)):]
    rows, first = [], None
    kp = os.path.join(tmp, "d15-kill")
    for k in range(np_ + 1):
        for t in (t_points(lib.prim_len(prims[k])) if k < np_ else [0]):
            img, killed, done, exc = lib.real_kill(jm, kp, snap, pending, op, k, t)
            if exc is not None:
                rows.append({"k": k, "t": t, "exception": repr(exc)})
                first = first or (k, t, "journal.deleteEntriesTo:exception:" + type(exc).__name__, "raised %r" % (exc,))
                lib.remove_files(kp)
                continue
            got = None
            if img[0] is None:
                m = lib.judge_image(jm, kp, img, op, ref, {1}, (0, None))      # journal file missing
            else:
                o = lib.open_image(jm, kp, img)
                if "err" in o:
                    m = ("journal.deleteEntriesTo:reopen-raises-after-kill:" + o["err"], "reopening raises " + o["err"])
                else:
                    got = o["ents"]
                    m = lib.crash_monitor(op, ref, got, o["ci"], {o["ci"]})
                    o["real"].abandon()
                lib.remove_files(kp)
                if m is None:                            # fixed continuation on the reopened journal (model-free)
                    tl = lib.judge_tail(jm, kp, img, "deleteEntriesTo")
                    m = None if tl is None else tl[:2]
            ok = m is None and (got == ref or got == keep)      # the statement, spelled out once more
            rows.append({"k": k, "t": t, "killed": killed, "after": lib.prims_str(done, jm)[-60:],
                         "survivors": None if got is None else len(got), "is_old_or_kept": ok, "tmp_left": img[3] is not None,
                         "journal_file": img[0] is not None})
            if not ok and first is None:
                sig = m[0] if m is not None else "journal.deleteEntriesTo:neither-old-nor-kept"
                first = (k, t, sig, "killed after %d of %d primitive writes (...%s)%s: %s; entries to keep were %s"
                         % (k, np_, lib.prims_str(done, jm)[-80:] if done else "none", " +%d bytes of the next" % t if t else "",
                            m[1] if m is not None else "reopened journal holds %s" % lib.short_ents(got or []), lib.short_ents(keep)))
    return rows, first, np_


def run(ctx):
    t0 = time.time()
    jm = lib.load_journal(ctx.repo)
    tmp = ctx.tmpdir()
    rows, first, np_ = scenario(jm, tmp)
    viols = []
    if first is not None:
        viols.append({"signature": first[2],
                      "what": "FileJournal with 5 entries, deleteEntriesTo(2) " + first[3],
                      "replay": {"witness": "d15_journal_headdrop_kill", "pre": PRE, "op": OP, "k": first[0], "t": first[1]}})
    # the same scenario at file-system level: the directory right before / after every file-system call of
    # the head drop (remove, create, write, rename ...), reopened with the real class.  A head drop that
    # removes the journal before renaming the new file onto it is a defect of its own (not D15).
    fcov = lib.Cov()
    for v in lib.fs_check_sequence(jm, tmp, PRE + [OP], cov=fcov, limit=2):
        if v["signature"] not in [w["signature"] for w in viols]:
            v["replay"]["witness"] = "d15_journal_headdrop_kill"
            viols.append(v)
    lost = sorted(set(r["k"] for r in rows if not r.get("is_old_or_kept", False)))
    return {"cases": len(rows), "distinct": len(rows), "violations": viols, "disagreements": [],
            "samples": [r for r in rows if r.get("t") == 0][:3],
            "coverage": {"tripped": bool(viols), "primitives_of_op": np_, "crash_points": len(rows),
                         "torn_points": len([r for r in rows if r.get("t")]),
                         "points_leaving_a_tmp_file": len([r for r in rows if r.get("tmp_left")]),
                         "crash_points_losing_kept_entries": lost,
                         "fs_calls_of_the_head_drop": fcov.get("fs.headdrop_calls", 0), "fs_images": fcov.get("fs_images", 0)},
            "wall_s": round(time.time() - t0, 2)}


def replay(ctx, violation):
    jm = lib.load_journal(ctx.repo)
    rp = violation.get("replay") or {}
    tmp = ctx.tmpdir()
    try:
        if rp.get("kind") == "fs":
            m, killed = lib.replay_fs(jm, tmp, rp)
            return {"violated": m is not None, "signature": m and m[0], "what": m and m[1], "killed": killed, "tree": ctx.repo}
        rows, first, np_ = scenario(jm, tmp, rp.get("pre", PRE), rp.get("op", OP))
    finally:
        shutil.rmtree(tmp, ignore_errors=True)      # ./check --replay does not clean up the ctx
    return {"violated": first is not None, "signature": first[2] if first else None, "what": first and first[3],
            "crash_points": len(rows), "failing_points": [r for r in rows if not r["is_old_or_kept"]][:6], "tree": ctx.repo}
