"""D15: `FileJournal.deleteEntriesTo` = `clear()` + re-`add` of every kept entry (pysyncobj/journal.py:230-234).
A kill after the header store of clear() and before the last re-add is published leaves a journal
that lacks entries the operation was meant to keep (C08: "the reopened journal holds a contiguous range
of the previous entries that includes everything the interrupted operation was meant to keep"; C06:
such entries may already be acknowledged).  Recorded finding (no small in-place repair).
Witness: real FileJournal with 5 entries, deleteEntriesTo(2) really killed (recorder kill plan, objects
abandoned without _destroy/flush) after primitive 0 and after each later primitive write; the file is
reopened with the real class.  Returns no violation when deleteEntriesTo has been made kill-safe."""
import os
import shutil
import time

from harness.corr import journal_lib as lib

PROPERTIES = ["C08", "C06"]
ORDER = 10

PRE = [["add", i + 1, 1, {"n": 6 + i, "s": i}] for i in range(5)]
OP = ["delto", 2]


def scenario(jm, tmp, pre=PRE, op=OP):
    """returns (list of (k, np, survivors, lost?) per crash point, first loss description or None)"""
    path = os.path.join(tmp, "d15-journal")
    lib.remove_files(path)
    real = lib.Real(jm, path)
    ref = []
    try:
        for o in pre:
            real.apply(o)
            lib.ref_apply(ref, o)
        snap = lib.snapshot(path)
        prims = real.apply(op)              # only to learn the number of primitive writes
    finally:
        real.abandon()
        lib.remove_files(path)
    np_ = len(prims)
    keep = ref[min(op[1], len(ref)):]
    rows, first = [], None
    kp = os.path.join(tmp, "d15-kill")
    for k in range(np_ + 1):
        img, killed, done, exc = lib.real_kill(jm, kp, snap, None, op, k, 0)
        if exc is not None:
            rows.append({"k": k, "exception": repr(exc)})
            first = first or (k, "raised %r" % (exc,))
            lib.remove_files(kp)
            continue
        o = lib.open_image(jm, kp, img)
        try:
            if "err" in o:
                rows.append({"k": k, "reopen": o["err"]})
                first = first or (k, "reopen raises " + o["err"])
                continue
            got = o["ents"]
            m = lib.crash_monitor(op, ref, got, o["ci"], {1})
            # the statement, spelled out: every entry meant to be kept is still there
            superset = all(e in got for e in keep)
            rows.append({"k": k, "killed": killed, "after": lib.prims_str(done, jm), "survivors": len(got), "keeps_all": superset})
            if (m is not None or not superset) and first is None:
                first = (k, "killed after %d of %d primitive writes (%s): reopened journal holds %d entries %s, "
                            "entries to keep were %s" % (k, np_, lib.prims_str(done, jm) if done else "none",
                                                          len(got), lib.short_ents(got), lib.short_ents(keep)))
        finally:
            if "real" in o:
                o["real"].abandon()
            lib.remove_files(kp)
    return rows, first, np_


def run(ctx):
    t0 = time.time()
    jm = lib.load_journal(ctx.repo)
    rows, first, np_ = scenario(jm, ctx.tmpdir())
    viols = []
    if first is not None:
        viols.append({"signature": lib.D15_SIGNATURE,
                      "what": "FileJournal with 5 entries, deleteEntriesTo(2) " + first[1],
                      "replay": {"witness": "d15_journal_headdrop_kill", "pre": PRE, "op": OP, "k": first[0], "t": 0}})
    lost = [r["k"] for r in rows if not r.get("keeps_all", False)]
    return {"cases": len(rows), "distinct": len(rows), "violations": viols, "disagreements": [],
            "samples": rows[:3],
            "coverage": {"tripped": bool(viols), "primitives_of_op": np_, "crash_points": len(rows), "crash_points_losing_kept_entries": lost},
            "wall_s": round(time.time() - t0, 2)}


def replay(ctx, violation):
    jm = lib.load_journal(ctx.repo)
    rp = violation.get("replay") or {}
    tmp = ctx.tmpdir()
    try:
        rows, first, np_ = scenario(jm, tmp, rp.get("pre", PRE), rp.get("op", OP))
    finally:
        shutil.rmtree(tmp, ignore_errors=True)      # ./check --replay does not clean up the ctx
    return {"violated": first is not None, "signature": lib.D15_SIGNATURE if first else None,
            "what": first and first[1], "crash_points": rows, "tree": ctx.repo}
