"""Helpers shared by witness modules: a witness replays one schedule on the real code and reports the
property violations its monitors see (none on a repaired tree)."""
import time


def result(name, viols, sample, t0, extra=None):
    r = {"name": name, "cases": 1, "distinct": 1, "violations": viols, "samples": [sample],
         "coverage": {"tripped": bool(viols)}, "wall_s": round(time.time() - t0, 2)}
    if extra:
        r["coverage"].update(extra)
    return r


def tag(viols, witness, replay):
    for v in viols:
        v["replay"] = {"witness": witness, **replay}
    return viols
