"""D80 (C11, C12): the arguments of a committed command are decoded (`pickle.loads`) OUTSIDE the handler that turns an
exception of the replicated method into the command's result.  An argument that pickles on the submitter and raises
when it is loaded - an exception object whose class takes two constructor arguments is the everyday case:
`pickle.loads` re-creates it with one - raised out of the apply loop on EVERY replica: lastApplied stays, the entry is
retried on every tick, its callback never fires, nothing behind it is applied ("no node raises an exception while ...
applying the command", C11; "every replica moves past that command", C12).

Schedule: 3 voters; add('a'), add(<argument that fails to load>), add('b') from leader and follower.  Monitor: no
exception escapes a tick; every callback fires exactly once; 'a' and 'b' are applied everywhere, in that order."""
import time

from harness.sim import Sim, SimCustomError
from harness.witness._common import result, tag

PROPERTIES = ["C11", "C12"]
ORDER = 10

SIG = "apply-loop:argument-that-fails-to-unpickle-wedges-the-replicas"


def scenario(repo, at="leader"):
    sim = Sim(repo, ["a", "b", "c"], seed=8)
    sim.connect_all()
    L = sim.elect()
    assert L is not None
    who = L if at == "leader" else [v for v in sim.voters if v != L][0]
    c1 = sim.submit(who, "a")
    sim.run(6)
    bad = SimCustomError("disk", "rename")       # pickles; loading calls SimCustomError('…') with ONE argument: TypeError
    c2 = sim.submit(who, bad)
    sim.run(10)
    c3 = sim.submit(who, "b")
    sim.run(16)
    viols = []
    fired = dict((c, [(r, e) for (n, k, r, e) in sim.callbacks if k == c]) for c in (c1, c2, c3))
    applied = dict((n, [x for (_, x) in sim.execs[n] if x in ("a", "b")]) for n in sim.voters)
    errs = [e for e in sim.errors]
    if errs or any(v != ["a", "b"] for v in applied.values()) or any(len(v) != 1 for v in fired.values()):
        viols.append({"signature": SIG,
                      "what": "add('a'), add(<object that fails to unpickle>), add('b') submitted at the %s %s: %d exceptions escaped "
                              "(first: %s), callbacks fired %s, 'a'/'b' applied %s"
                              % (at, who, len(errs), ("%s %s" % (errs[0][1], errs[0][2][:60])) if errs else None,
                                 dict((k, len(v)) for k, v in fired.items()), applied)})
    return sim, viols, {"at": at, "errors": len(errs), "fired": dict((k, len(v)) for k, v in fired.items())}


def run(ctx):
    t0 = time.time()
    viols, info = [], None
    for at in ("leader", "follower"):
        sim, v, info = scenario(ctx.repo, at)
        viols += tag(v, "d80_argument_fails_to_unpickle", {"at": at})
        if v:
            break
    return result("witness.d80_argument_fails_to_unpickle", viols[:1], info, t0)


def replay(ctx, violation):
    sim, viols, info = scenario(ctx.repo, violation.get("replay", {}).get("at", "leader"))
    return {"violated": bool(viols), "violations": viols, "info": info}
