"""D65 (C11, C18): in `__sendAppendEntries` the chunk loop of an over-sized entry leaves only the inner `for` when the
destination is lost in the middle of the burst (`if node not in self.__connectedNodes: break`).  Unless the run is a
probing one, the outer loop goes on with `nextNodeIndex = self.__raftNextIndex[node]` — for a READ-ONLY node that entry
was just removed by `__onReadonlyNodeDisconnected` (the transport reports the lost connection from inside `send`), so
`KeyError` escapes the leader's tick ("no node raises an exception while sending", C11; read-only nodes joining and
leaving must not disturb the voters, C18).

Schedule: 2 voters + 1 read-only node, batch size 64; the read-only node is fully caught up and confirmed (so the
next run is not a probing one); an over-sized command is submitted; while the leader sends its chunks to the read-only
node the connection is lost at chunk j (the disconnect is reported synchronously, as TCPTransport does from a failed
send).  Monitor: no exception escapes the leader's tick; the voters commit and apply the command."""
import time

from harness.sim import Sim
from harness.witness._common import result, tag

PROPERTIES = ["C11", "C18"]
ORDER = 10

SIG = "send-loop:exception-when-read-only-node-is-lost-mid-chunks"


def scenario(repo, at_chunk=2):
    sim = Sim(repo, ["a", "b"], observers=["o"], conf={"appendEntriesBatchSizeBytes": 64}, seed=4)
    sim.connect_all()
    L = sim.elect(among=["a", "b"])
    assert L is not None
    F = [v for v in sim.voters if v != L][0]
    sim.submit(L, "warm")
    sim.run(10)
    o = sim.objs[L]
    match_before = dict((n.id, m) for (n, m) in sim.P(L, "raftMatchIndex").items())
    state = {"chunks": 0, "cut": False}
    orig = sim._send

    def send(a, b, msg):
        if a == L and b == "o" and msg.get("type") == "append_entries" and "transmission" in msg and not state["cut"]:
            state["chunks"] += 1
            if state["chunks"] == at_chunk:
                state["cut"] = True
                sim.cut(L, "o")
                sim.notice(L, "o")          # reported from inside send(), as the TCP transport does
                return False
        return orig(a, b, msg)
    sim._send = send
    cid = sim.submit(L, "X" * 400)
    sim.tick(L, 0.0625)
    sim.tick(L, 0.125)
    errs = list(sim.errors)
    sim._send = orig
    sim.run(12, among=[L, F])
    viols = []
    for (n, typ, txt, tb) in errs:
        viols.append({"signature": SIG,
                      "what": "leader %s lost its read-only node at chunk %d of an over-sized entry (match index before: %s): "
                              "%s(%s) escaped the tick" % (n, at_chunk, match_before.get("o"), typ, txt)})
    applied = [x for (_, x) in sim.execs[F]]
    info = {"leader": L, "chunks_sent_to_observer": state["chunks"], "cut": state["cut"], "errors": [e[:3] for e in errs],
            "follower_applied_big": ("X" * 400) in applied, "callbacks": [c for c in sim.callbacks if c[1] == cid]}
    return sim, viols, info


def scenario_snapshot(repo, at_chunk=2):
    """The same loss inside the burst of SNAPSHOT chunks sent to a read-only node that is behind the compacted prefix."""
    sim = Sim(repo, ["a", "b"], observers=["o"], conf={"logCompactionBatchSize": 24}, seed=6)
    for x, y in (("a", "b"),):
        sim.connect(x, y)
    L = sim.elect(among=["a", "b"])
    assert L is not None
    F = [v for v in sim.voters if v != L][0]
    for k in range(12):
        sim.submit(L, "s%d" % k)
    sim.run(8, among=[L, F])
    sim.compact(L)
    sim.run(3, among=[L, F])
    state = {"chunks": 0, "cut": False}
    orig = sim._send

    def send(a, b, msg):
        if a == L and b == "o" and msg.get("type") == "append_entries" and msg.get("serialized") is not None and not state["cut"]:
            state["chunks"] += 1
            if state["chunks"] == at_chunk and not msg["serialized"][2]:
                state["cut"] = True
                sim.cut(L, "o")
                sim.notice(L, "o")
                return False
        return orig(a, b, msg)
    sim._send = send
    sim.connect("o", L)                 # the read-only node joins far behind: it needs the snapshot
    sim.tick(L, 0.125)                  # heartbeat with the leader's log end; the node answers with its own end
    while sim.deliver(L, "o"):
        pass
    while sim.deliver("o", L):
        pass
    for _ in range(4):
        sim.tick(L, 0.125)
    errs = list(sim.errors)
    sim._send = orig
    sim.run(8, among=[L, F])
    viols = []
    for (n, typ, txt, tb) in errs:
        viols.append({"signature": SIG,
                      "what": "leader %s lost its read-only node at snapshot chunk %d (not the last one): %s(%s) escaped the tick"
                              % (n, at_chunk, typ, txt)})
    return sim, viols, {"leader": L, "snapshot_chunks_sent": state["chunks"], "cut": state["cut"], "errors": [e[:3] for e in errs]}


def run(ctx):
    t0 = time.time()
    viols, infos = [], []
    for j in (1, 2, 3):
        sim, v, info = scenario(ctx.repo, j)
        infos.append(info)
        viols += tag(v, "d65_observer_drops_mid_chunks", {"at_chunk": j})
        if v:
            break
    snap_cut = False
    if not viols:
        for j in (1, 2, 3):
            sim, v, info = scenario_snapshot(ctx.repo, j)
            infos.append(info)
            snap_cut = snap_cut or info["cut"]
            viols += tag(v, "d65_observer_drops_mid_chunks", {"snapshot_chunk": j})
            if v:
                break
    r = result("witness.d65_observer_drops_mid_chunks", viols[:2], infos[-1], t0)
    if not any(i["cut"] for i in infos[:3]):
        r["inconclusive"] = "the leader sent no chunk burst to the read-only node"
    elif not viols and not snap_cut:
        r["inconclusive"] = "the leader sent no multi-chunk snapshot to the read-only node"
    return r


def replay(ctx, violation):
    rp = violation.get("replay", {})
    if "snapshot_chunk" in rp:
        sim, viols, info = scenario_snapshot(ctx.repo, rp["snapshot_chunk"])
        return {"violated": bool(viols), "violations": viols, "info": info}
    sim, viols, info = scenario(ctx.repo, violation.get("replay", {}).get("at_chunk", 2))
    return {"violated": bool(viols), "violations": viols, "info": info}
